import sys, time
sys.path.insert(0,'/verif')
from harness import core
core.import_minecraft()
from harness.props import c13
row={'EI':[],'OI':[{'f':['Packet'],'ig':False}],'EO':[],'OO':[],'hist':['A','D'],'batch':False,'st':'play'}
t=time.time()
run_, log, wire, closed, version = c13.execute(row, 1)
print(run_.outcome, run_.sched.error, log, wire, closed, time.time()-t)
for e in run_.sched.events[-15:]: print(e)
