import sys, time, json, random, collections, itertools
sys.path.insert(0,'/verif')
from harness import core
core.import_minecraft()
from harness import lifecycle, vsched
t=time.time()
ops_all=['connect','disc','disc_now']
n=0
for L in range(1,4):
    for ops in itertools.product(ops_all, repeat=L):
        for modes in itertools.product(['idle','refuse'], repeat=min(2,ops.count('connect'))):
            for pol in ('seq','rand'):
                spec = {'programs': {'u1': list(ops)}, 'servers': list(modes)+['idle']*4}
                policy = vsched.SequentialPolicy(1) if pol == 'seq' else vsched.RandomPolicy(n, 0.4)
                t1=time.time()
                run_ = lifecycle.execute(spec, policy, n)
                n+=1
                dt=time.time()-t1
                if dt>0.5: print(ops, modes, pol, round(dt,2), run_.outcome, run_.sched.steps, run_.sched.error)
print('total', n, time.time()-t)
