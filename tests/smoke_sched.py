import sys, os, time
sys.path.insert(0, '/verif')
from harness import core
core.import_minecraft()
from harness import vsched, vnet, peer, profile
from minecraft.networking.connection import Connection

def one(seed, version=757, policy=None):
    sched = vsched.Sched(policy or vsched.RandomPolicy(seed), step_budget=5000)
    prof = profile.Profile(version)
    with vnet.Installed(sched) as inst:
        steps = [('expect', 2), ('send', prof.login_success(bytes(range(16)), 'bob')),
                 ('send', prof.keep_alive(77)), ('send', prof.pos_look(1.0, 2.0, 3.0, 0.0, 0.0, 0, 5)),
                 ('expect', 4), ('send', prof.play_disconnect('{"text":"bye"}')), ]
        scripts = []
        def factory(sess):
            sc = peer.Script(steps); scripts.append(sc)
            import random
            r = random.Random(seed)
            sess.chunker = lambda avail, want: r.randint(1, want)
            return sc
        inst.net.listen('srv', 25565, factory)
        exits = []
        def scenario():
            c = Connection('srv', 25565, username='bob', allowed_versions={version}, handle_exit=lambda: exits.append(1))
            sched.conn = c
            c.connect()
        out = sched.run(scenario)
    sc = scripts[0]
    st = 'handshake'
    parsed = []
    for fr in sc.de.frames:
        p = prof.parse(st, fr)
        parsed.append(p)
        if p['t'] == 'handshake': st = 'login' if p['next'] == 2 else 'status'
        if p['t'] == 'login_start': st = 'play'
    return out, parsed, exits, len(sched.events), sched

t0=time.time()
out, parsed, exits, n, sched = one(1)
print(out, parsed, exits, n)
bad = 0
for seed in range(200):
    out, parsed, exits, n, sched = one(seed)
    kinds = [p['t'] for p in parsed]
    ok = out in ('done',) and kinds == ['handshake','login_start','keep_alive','teleport_confirm'] and exits == [1]
    unlocked = [e for e in sched.events if e['ev']=='send' and e['lock'] != e['t']]
    if not ok or unlocked:
        bad += 1
        print(seed, out, kinds, exits, unlocked[:1], sched.error)
print('bad', bad, 'time', time.time()-t0)
