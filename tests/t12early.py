import sys, json, random
sys.path.insert(0,'/verif')
from harness import core
core.import_minecraft()
from harness import vsched
from harness.props import c12
bad=0
for seed in range(400):
    spec={'users': {'u2': [('f', 1, 20), ('f', 2, 5)]}, 'thr': None, 'enc': True, 'early': True}
    run_=c12.execute(spec, vsched.RandomPolicy(seed, 0.5), seed)
    ev=c12.writer_events(run_)
    fin=ev[-1]
    if not fin['decoded'] or run_.errors:
        bad+=1
        if bad<3: print(seed, run_.outcome, fin, run_.errors[:1], run_.sc.de.errors[:1])
print('bad', bad)
