import sys, time, json, random
sys.path.insert(0,'/verif')
from harness import core
core.import_minecraft()
from harness import lifecycle, vsched
small = [
        {'programs': {'u1': ['connect', 'disc'], 'u2': ['connect']}, 'servers': ['idle'] * 4},
        {'programs': {'u1': ['connect'], 'u2': ['disc', 'connect']}, 'servers': ['disc', 'idle', 'idle']},
        {'programs': {'u1': ['connect', 'disc_now', 'connect'], 'u2': ['disc']}, 'servers': ['close', 'idle', 'idle']},
        {'programs': {'u1': ['connect', 'connect'], 'u2': ['status']}, 'servers': ['refuse', 'idle', 'idle']},
        {'programs': {'u1': ['disc', 'connect'], 'u2': ['disc_now']}, 'servers': ['trigger', 'idle', 'idle'],
         'listener_reconnect': True},
        {'programs': {'u1': ['connect'], 'u2': ['connect', 'disc']}, 'servers': ['close', 'idle', 'idle'],
         'handler_reconnect': True},
]
for spec in small:
    pol = vsched.PreemptionBoundedPolicy([], env_seed=1)
    run_ = lifecycle.execute(spec, pol, 1)
    print(run_.outcome, len(pol.trail), run_.sched.steps, [ (e['ev'],e['t']) for e in run_.sched.events[-6:]])
