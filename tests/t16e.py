import sys, time, json, random
sys.path.insert(0,'/verif')
from harness import core
core.import_minecraft()
from harness import lifecycle, vsched
spec={'programs': {'u1': ['connect', 'disc'], 'u2': ['connect']}, 'servers': ['idle'] * 4}
t=time.time()
frontier=[[]]; seen=set(); count=0; cap=250; bound=1
while frontier and count < cap:
    prefix = frontier.pop()
    pol = vsched.PreemptionBoundedPolicy(prefix, env_seed=1)
    t1=time.time()
    run_ = lifecycle.execute(spec, pol, 1)
    dt=time.time()-t1
    count += 1
    if dt>0.3: print(count, round(dt,2), run_.outcome, run_.sched.steps, len(prefix), run_.sched.error)
    trail = [c for (_, c, _) in pol.trail]
    key = tuple(trail)
    if key in seen: continue
    seen.add(key)
    used = sum(1 for i in range(len(prefix)) if i < len(pol.trail) and pol.trail[i][2] is not None and pol.trail[i][2] in pol.trail[i][0] and prefix[i] != pol.trail[i][2])
    if used < bound:
        for i in range(len(prefix), len(pol.trail)):
            opts, chosen, cur = pol.trail[i]
            for alt in opts:
                if alt != chosen:
                    frontier.append(trail[:i] + [alt])
print('total', count, len(seen), len(frontier), time.time()-t)
