import sys, time, json, random, collections
sys.path.insert(0,'/verif')
from harness import core
core.import_minecraft()
from harness import lifecycle, vsched
t=time.time()
n=0
for j in range(200):
    r_ = random.Random(1000003 + j)
    spec = lifecycle.random_spec(r_)
    sp = r_.choice([0.05, 0.2, 0.5, 0.8])
    t1=time.time()
    run_ = lifecycle.execute(spec, vsched.RandomPolicy(77 + j, switch_prob=sp), j)
    dt=time.time()-t1
    if dt>0.5: print(j, round(dt,2), run_.outcome, run_.sched.steps, spec, run_.sched.error)
print('total', time.time()-t)
