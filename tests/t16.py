import sys, time, json, random, collections
sys.path.insert(0,'/verif')
from harness import core
core.import_minecraft()
from harness import lifecycle, vsched
t=time.time()
outs=collections.Counter()
traces=[]
for seed in range(300):
    rng=random.Random(seed)
    spec=lifecycle.random_spec(rng)
    run=lifecycle.execute(spec, vsched.RandomPolicy(seed, switch_prob=rng.choice([0.1,0.3,0.6])), seed)
    outs[run.outcome]+=1
    if run.outcome not in ('done','quiescent'):
        print(seed, run.outcome, spec, run.sched.error)
        for e in run.sched.events[-8:]: print('   ', {k:v for k,v in e.items() if k!='st'})
    traces.append({'ev': lifecycle.lifecycle_events(run), 'spec': spec, 'seed': seed})
print(outs, time.time()-t)
json.dump([{'ev':t['ev']} for t in traces], open('/verif/.t16.json','w'))
