import sys, json, random
sys.path.insert(0,'/verif')
from harness import core
core.import_minecraft()
from harness import vsched
from harness.props import c12
spec={'users': {'u2': [('f', 1, 20), ('f', 2, 5)]}, 'thr': None, 'enc': True, 'early': True}
run_=c12.execute(spec, vsched.RandomPolicy(24, 0.5), 24)
for e in run_.sched.events:
    if e['ev'] in ('send','acquire','release','api_call','api_ret','hand') or e['ev'].startswith('srv'):
        print(e['n'], e['t'], e['ev'], {k:v for k,v in e.items() if k in ('nbytes','off','lock','depth','op','p','r')})
print([ (f['id'], f.get('error')) for f in run_.sc.de.frames], run_.sc.de.errors, len(run_.sc.de.buf))
