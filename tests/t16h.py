import sys, json
sys.path.insert(0,'/verif')
from harness import core
core.import_minecraft()
from harness import lifecycle, vsched
rep=json.load(open('/verif/evidence/replays/C16_lifecycle_two-networking-threads-perform-i-o-at-the-same-time.json'))
spec=rep['replay']['spec']; seed=rep['replay']['seed']
# find j: seed = chk.seed*77 + j with chk.seed=0 => j = seed
import random
j=seed
r_ = random.Random(0 * 1000003 + j)
spec2 = lifecycle.random_spec(r_)
sp = r_.choice([0.05, 0.2, 0.5, 0.8])
assert spec2==spec, (spec2, spec)
run_ = lifecycle.execute(spec, vsched.RandomPolicy(seed, switch_prob=sp), j)
for e in run_.sched.events:
    st=e.get('st',{})
    print(e['n'], e['t'], e['ev'], {k:v for k,v in e.items() if k not in ('n','t','ev','st','lock','depth')}, '| nt=%s new=%s intr=%s/%s sock=%s'%(st.get('nt'),st.get('newNt'),st.get('ntIntr'),st.get('newIntr'),st.get('sock')))
