import sys
sys.path.insert(0,'/verif')
from harness import core
core.import_minecraft()
from harness.props import c15
run_, conns, obs = c15.conversation('login_enc', (0,174), 1174)
print(run_.outcome, run_.errors, [ (r['frames'], r['total']) for r in conns])
for t in c15.traces_of(run_, conns, (0,174)):
    print([e for e in t['ev'] if e['k']!='read'], t['ev'][-5:])
for e in run_.sched.events:
    if e['ev'] in ('deliver','srv_close','send','thread_end'): print(e)
