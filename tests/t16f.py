import sys, faulthandler
sys.path.insert(0,'/verif')
faulthandler.dump_traceback_later(60, exit=True)
from harness import core
from harness.props import c16
chk = core.Check('C16','quick')
c16.run(chk)
