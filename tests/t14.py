import sys, json
sys.path.insert(0,'/verif')
from harness import core
core.import_minecraft()
from harness.props import c14
row={'origin':'reaction','handlers':[{"f": "orig", "b": "reconnect", "early": True}, {"f": "all", "b": "return", "early": False}],'final':'None','reconnected':True}
run_, obs, kind = c14.execute(row, 5)
print(run_.outcome, obs['log'], obs.get('exception'), obs.get('reconnect_result'), obs['slot_after'])
for e in run_.sched.events:
    if e['ev'] in ('api_call','api_ret','thread_start','thread_end','thread_begin','tcp_connect','cb_exception','joined','join_req'): print(e['n'], e['t'], e['ev'], {k:v for k,v in e.items() if k not in('n','t','ev','st')})
