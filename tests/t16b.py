import sys, time, json, random, collections
sys.path.insert(0,'/verif')
from harness import core
core.import_minecraft()
from harness import lifecycle, vsched
spec={'programs': {'u1': ['connect', 'disc'], 'u2': ['connect']}, 'servers': ['idle'] * 4}
t=time.time()
pol = vsched.PreemptionBoundedPolicy([], env_seed=1)
run_ = lifecycle.execute(spec, pol, 1)
print(run_.outcome, len(pol.trail), run_.sched.steps, round(time.time()-t,2))
prefix=[c for (_,c,_) in pol.trail][:5]+['u2']
pol = vsched.PreemptionBoundedPolicy(prefix, env_seed=1)
run_ = lifecycle.execute(spec, pol, 1)
print(run_.outcome, len(pol.trail), run_.sched.steps, round(time.time()-t,2), run_.sched.error)
