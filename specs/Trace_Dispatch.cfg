SPECIFICATION TraceSpec
CONSTANTS
  Filters <- NoFilters
  States <- NoStates
  Histories <- NoHist
  MaxIn = 0
  MaxOut = 0
  Emit = FALSE
INVARIANT LogMatches
INVARIANT NoDoubleCall
INVARIANT OnlyMatching
INVARIANT OrderWithinPacket
INVARIANT IgnoreStops
INVARIANT ReactionBetweenStages
