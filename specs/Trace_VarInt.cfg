SPECIFICATION TraceSpec
CONSTANTS
  ReaderInputs <- NoStreams0
  WriterInputs <- NoneSet
  WriterDigits = 0
  RejectNegative = TRUE
  OutCap = 16
  Emit = FALSE
CONSTRAINT Bounded
INVARIANT ObsMeetsContract
INVARIANT ReaderMeetsContract
INVARIANT Drift
