SPECIFICATION TraceSpec
CONSTANTS
  ReaderInputs <- NoneSet
  WriterInputs <- NoneSet
  RejectNegative = TRUE
  OutCap = 16
  Emit = FALSE
CONSTRAINT Bounded
INVARIANT ObsMeetsContract
INVARIANT ReaderMeetsContract
INVARIANT Drift
