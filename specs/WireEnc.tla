---------------------------------- MODULE WireEnc ----------------------------------
(***************************************************************************)
(* Type-directed reference encoder over the Wire primitives (no variables, *)
(* so that it can be used by the case generator, the packet codec and the  *)
(* trace validators alike).                                                *)
(* type descriptors:  <<"Short">>, <<"FixedPoint", "Integer", 5>>,         *)
(*                    <<"PrefixedArray", "VarInt", elemType>>              *)
(***************************************************************************)
EXTENDS Wire, TLC, Json

Width(t) == CASE t = "Byte" -> 1 [] t = "UnsignedByte" -> 1 [] t = "Short" -> 2
              [] t = "UnsignedShort" -> 2 [] t = "Integer" -> 4 [] t = "Long" -> 8
              [] t = "UnsignedLong" -> 8
Signed(t) == t \in {"Byte", "Short", "Integer", "Long"}
IntTypes == {"Byte", "UnsignedByte", "Short", "UnsignedShort", "Integer", "Long", "UnsignedLong"}

RECURSIVE Enc(_, _)
Enc(ty, v) ==
  LET t == ty[1] IN
  CASE t \in IntTypes            -> EncInt(Width(t), Signed(t), v)
    [] t = "Boolean"             -> EncBool(v)
    [] t = "VarInt"              -> EncVarDigits(v)
    [] t = "VarLong"             -> EncVarDigits(v)
    [] t = "Float"               -> EncFloat(32, v)
    [] t = "Double"              -> EncFloat(64, v)
    [] t = "String"              -> EncString(v)
    [] t = "ShortPrefixedByteArray"  -> EncShortPrefixed(v)
    [] t = "VarIntPrefixedByteArray" -> EncVarIntPrefixed(v)
    [] t = "TrailingByteArray"   -> EncTrailing(v)
    [] t = "Raw"                 -> v             \* opaque pre-encoded bytes (NBT blobs)
    [] t = "UUID"                -> v.by          \* v = [by |-> 16 bytes, txt |-> the 8-4-4-4-12 text]
    [] t = "Angle"               -> AngleModel(v)
    [] t = "FixedPoint"          -> FixedModel(Width(ty[2]), v[1], v[2])
    [] t = "PrefixedArray"       ->
         (IF ty[2] = "VarInt" THEN EncVarNat(Len(v))
          ELSE EncInt(Width(ty[2]), Signed(ty[2]), IntVal(Len(v))))
         \o FlattenSeq([i \in 1..Len(v) |-> Enc(ty[3], v[i])])

\* admissible alternative encodings (relations "within one quantum")
Alt(ty, v) ==
  CASE ty[1] = "Angle"      -> AngleAllowed(v)
    [] ty[1] = "FixedPoint" -> FixedAllowed(Width(ty[2]), v[1], v[2])
    [] OTHER                -> {Enc(ty, v)}
=============================================================================
