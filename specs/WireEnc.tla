---------------------------------- MODULE WireEnc ----------------------------------
(***************************************************************************)
(* Type-directed reference encoder over the Wire primitives (no variables, *)
(* so that it can be used by the case generator, the packet codec and the  *)
(* trace validators alike).                                                *)
(* type descriptors:  <<"Short">>, <<"FixedPoint", "Integer", 5>>,         *)
(*                    <<"PrefixedArray", "VarInt", elemType>>              *)
(*                    <<"Position", layout>>  - the one context-dependent  *)
(*                    leaf: x:26|y:12|z:26 ("XYZ", up to 1.13.2) or        *)
(*                    x:26|z:26|y:12 ("XZY", from 1.14), value <<x, y, z>> *)
(***************************************************************************)
EXTENDS Wire, TLC, Json

Width(t) == CASE t = "Byte" -> 1 [] t = "UnsignedByte" -> 1 [] t = "Short" -> 2
              [] t = "UnsignedShort" -> 2 [] t = "Integer" -> 4 [] t = "Long" -> 8
              [] t = "UnsignedLong" -> 8
Signed(t) == t \in {"Byte", "Short", "Integer", "Long"}
IntTypes == {"Byte", "UnsignedByte", "Short", "UnsignedShort", "Integer", "Long", "UnsignedLong"}

RECURSIVE EncPow2(_)
EncPow2(n) == IF n = 0 THEN 1 ELSE 2 * EncPow2(n - 1)
EncTwoC(n, w) == NatBits(n % EncPow2(w), w)            \* two's complement of n in w <= 30 bits
EncPosition(lay, v) ==
  BitsToBytes(IF lay = "XYZ" THEN EncTwoC(v[1], 26) \o EncTwoC(v[2], 12) \o EncTwoC(v[3], 26)
                             ELSE EncTwoC(v[1], 26) \o EncTwoC(v[3], 26) \o EncTwoC(v[2], 12))
\* a type with the layout placeholder "L" instantiated
RECURSIVE SubstLayout(_, _)
SubstLayout(ty, lay) == IF ty[1] = "Position" THEN <<"Position", lay>>
                        ELSE IF ty[1] = "PrefixedArray" THEN <<"PrefixedArray", ty[2], SubstLayout(ty[3], lay)>>
                        ELSE ty

RECURSIVE Enc(_, _)
Enc(ty, v) ==
  LET t == ty[1] IN
  CASE t \in IntTypes            -> EncInt(Width(t), Signed(t), v)
    [] t = "Boolean"             -> EncBool(v)
    [] t = "VarInt"              -> EncVarDigits(v)
    [] t = "VarLong"             -> EncVarDigits(v)
    [] t = "Float"               -> EncFloat(32, v)
    [] t = "Double"              -> EncFloat(64, v)
    [] t = "String"              -> EncString(v)
    [] t = "ShortPrefixedByteArray"  -> EncShortPrefixed(v)
    [] t = "VarIntPrefixedByteArray" -> EncVarIntPrefixed(v)
    [] t = "TrailingByteArray"   -> EncTrailing(v)
    [] t = "Raw"                 -> v             \* opaque pre-encoded bytes (NBT blobs)
    [] t = "UUID"                -> v.by          \* v = [by |-> 16 bytes, txt |-> the 8-4-4-4-12 text]
    [] t = "Position"            -> EncPosition(ty[2], v)
    [] t = "Angle"               -> AngleModel(v)
    [] t = "FixedPoint"          -> FixedModel(Width(ty[2]), v[1], v[2])
    [] t = "PrefixedArray"       ->
         (IF ty[2] = "VarInt" THEN EncVarNat(Len(v))
          ELSE EncInt(Width(ty[2]), Signed(ty[2]), IntVal(Len(v))))
         \o FlattenSeq([i \in 1..Len(v) |-> Enc(ty[3], v[i])])

\* admissible alternative encodings (relations "within one quantum")
Alt(ty, v) ==
  CASE ty[1] = "Angle"      -> AngleAllowed(v)
    [] ty[1] = "FixedPoint" -> FixedAllowed(Width(ty[2]), v[1], v[2])
    [] OTHER                -> {Enc(ty, v)}
=============================================================================
