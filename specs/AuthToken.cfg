SPECIFICATION Spec
CONSTANTS
  Values <- MCValues
  Statuses <- MCStatuses
  Bodies <- MCBodies
  Emit = TRUE
INVARIANT ErrorsLeaveStateUntouched
INVARIANT OnlyAuthRefreshStore
INVARIANT JoinNeedsAuthentication
INVARIANT ValidateTrueOnlyOn204
INVARIANT SuccessMakesAuthenticated
INVARIANT ErrorRepliesRaise
INVARIANT EmitRows
