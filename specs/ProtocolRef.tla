---------------------------------- MODULE ProtocolRef ----------------------------------
(***************************************************************************)
(* C07: packet ids and byte layouts of the core packets for every release  *)
(* protocol pyCraft lists as supported, written from the published         *)
(* protocol documentation (wiki.vg protocol history), not from pyCraft.    *)
(* The sandbox is offline, so the table is recollected; rows that could    *)
(* not be recalled with certainty are omitted (see OmittedRows).           *)
(*                                                                         *)
(* A row is [p (release protocol), k (packet kind), dir ("cb"|"sb"),       *)
(* st (state), id, fields |-> << <<attribute, type, value>> ... >>].       *)
(* Attribute names are binding hints for the harness (pyCraft's field      *)
(* names); types and values feed the reference encoders (WireEnc).         *)
(* TLC computes the payload bytes of every row x value set.                *)
(***************************************************************************)
EXTENDS WireEnc

CONSTANT Emit

Releases == {47, 107, 108, 109, 110, 210, 315, 316, 335, 338, 340, 393, 401, 404, 477, 480, 485, 490, 498,
             573, 575, 578, 735, 736, 751, 753, 754, 755, 756, 757}

\* value helpers
I(n) == IntVal(n)
Str(s) == s                                  \* text as code points
V7(n) == Nat128(n)                           \* VarInt value as base-128 digits
Dbl(s, e, f) == [cls |-> "normal", s |-> s, e |-> e, f |-> f]
Zero == [cls |-> "zero", s |-> 0, e |-> 0, f |-> <<>>]
U16 == [by |-> [i \in 1..16 |-> 16 * i - 1], txt |-> UuidText([i \in 1..16 |-> 16 * i - 1])]
Hello == <<72, 105, 32, 8364>>               \* "Hi €"
Json1 == <<123, 34, 116, 101, 120, 116, 34, 58, 34, 120, 34, 125>>     \* {"text":"x"}
NbtBlob == <<10, 0, 0, 1, 0, 1, 97, 1, 0>>   \* TAG_Compound("": {a: TAG_Byte 1})

F(a, t, v) == <<a, t, v>>

----------------------------------------------------------------------------
(* ids                                                                     *)
CbPlayId(k, p) ==
  CASE k = "keep_alive" ->
         IF p = 47 THEN 0 ELSE IF p <= 340 THEN 31 ELSE IF p <= 404 THEN 33 ELSE IF p <= 498 THEN 32
         ELSE IF p <= 578 THEN 33 ELSE IF p <= 736 THEN 32 ELSE IF p <= 754 THEN 31 ELSE 33
    [] k = "join_game" ->
         IF p = 47 THEN 1 ELSE IF p <= 340 THEN 35 ELSE IF p <= 498 THEN 37 ELSE IF p <= 578 THEN 38
         ELSE IF p <= 736 THEN 37 ELSE IF p <= 754 THEN 36 ELSE 38
    [] k = "chat" ->
         IF p = 47 THEN 2 ELSE IF p <= 340 THEN 15 ELSE IF p <= 498 THEN 14 ELSE IF p <= 578 THEN 15
         ELSE IF p <= 754 THEN 14 ELSE 15
    [] k = "pos_look" ->
         IF p = 47 THEN 8 ELSE IF p <= 335 THEN 46 ELSE IF p <= 340 THEN 47 ELSE IF p <= 404 THEN 50
         ELSE IF p <= 498 THEN 53 ELSE IF p <= 578 THEN 54 ELSE IF p <= 736 THEN 53 ELSE IF p <= 754 THEN 52 ELSE 56
    [] k = "disconnect" ->
         IF p = 47 THEN 64 ELSE IF p <= 340 THEN 26 ELSE IF p <= 404 THEN 27 ELSE IF p <= 498 THEN 26
         ELSE IF p <= 578 THEN 27 ELSE IF p <= 736 THEN 26 ELSE IF p <= 754 THEN 25 ELSE 26
SbPlayId(k, p) ==
  CASE k = "teleport_confirm" -> 0
    [] k = "chat" ->
         IF p = 47 THEN 1 ELSE IF p <= 316 THEN 2 ELSE IF p = 335 THEN 3 ELSE IF p <= 404 THEN 2 ELSE 3
    [] k = "keep_alive" ->
         IF p = 47 THEN 0 ELSE IF p <= 316 THEN 11 ELSE IF p = 335 THEN 12 ELSE IF p <= 340 THEN 11
         ELSE IF p <= 404 THEN 14 ELSE IF p <= 578 THEN 15 ELSE IF p <= 754 THEN 16 ELSE 15
    [] k = "pos_look" ->
         IF p = 47 THEN 6 ELSE IF p <= 316 THEN 13 ELSE IF p = 335 THEN 15 ELSE IF p <= 340 THEN 14
         ELSE IF p <= 404 THEN 17 ELSE IF p <= 578 THEN 18 ELSE IF p <= 754 THEN 19 ELSE 18

----------------------------------------------------------------------------
(* layouts with two value sets                                             *)
KeepAliveFields(p, vs) ==
  IF p >= 340 THEN << F("keep_alive_id", <<"Long">>, IF vs = 1 THEN [s |-> 1, m |-> <<128, 0, 0, 0, 0, 0, 0, 0>>] ELSE I(123456789)) >>
  ELSE << F("keep_alive_id", <<"VarInt">>, IF vs = 1 THEN V7(2147483647)
                                             ELSE IF vs = 2 THEN <<127, 127, 127, 127, 15>>      \* -1 as servers of that era send it (ff ff ff ff 0f)
                                             ELSE V7(300)) >>

PosLookCbFields(p, vs) ==
  << F("x", <<"Double">>, Dbl(0, 3, <<1, 0, 1>>)), F("y", <<"Double">>, Dbl(0, 6, <<>>)), F("z", <<"Double">>, Dbl(1, 1, <<1>>)),
     F("yaw", <<"Float">>, Dbl(0, 6, <<0, 1, 1, 0, 1>>)), F("pitch", <<"Float">>, IF vs = 1 THEN Zero ELSE Dbl(1, 5, <<1>>)),
     F("flags", <<"Byte">>, IF vs = 1 THEN I(0) ELSE I(31)) >>
  \o (IF p >= 107 THEN << F("teleport_id", <<"VarInt">>, IF vs = 1 THEN V7(1) ELSE V7(16384)) >> ELSE <<>>)
  \o (IF p >= 755 THEN << F("dismount_vehicle", <<"Boolean">>, vs = 1) >> ELSE <<>>)

PosLookSbFields(p, vs) ==
  << F("x", <<"Double">>, Dbl(1, 4, <<1>>)), F("feet_y", <<"Double">>, Dbl(0, 6, <<0, 0, 0, 0, 0, 0, 1>>)), F("z", <<"Double">>, Zero),
     F("yaw", <<"Float">>, Dbl(0, 7, <<>>)), F("pitch", <<"Float">>, Dbl(1, 0, <<>>)), F("on_ground", <<"Boolean">>, vs = 1) >>

ChatCbFields(p, vs) ==
  << F("json_data", <<"String">>, IF vs = 1 THEN Json1 ELSE Hello), F("position", <<"Byte">>, IF vs = 1 THEN I(0) ELSE I(2)) >>
  \o (IF p >= 735 THEN << F("sender", <<"UUID">>, U16) >> ELSE <<>>)

JoinGameFields(p, vs) ==
  LET eid == F("entity_id", <<"Integer">>, IF vs = 1 THEN I(1) ELSE I(-2))
      gm == F("game_mode", <<"UnsignedByte">>, I(1))
      dbg == F("reduced_debug_info", <<"Boolean">>, vs = 2)
  IN
  IF p = 47 THEN << eid, gm, F("dimension", <<"Byte">>, I(-1)), F("difficulty", <<"UnsignedByte">>, I(2)),
                    F("max_players", <<"UnsignedByte">>, I(20)), F("level_type", <<"String">>, <<102, 108, 97, 116>>), dbg >>
  ELSE IF p = 107 THEN << eid, gm, F("dimension", <<"Byte">>, I(1)), F("difficulty", <<"UnsignedByte">>, I(0)),
                    F("max_players", <<"UnsignedByte">>, I(255)), F("level_type", <<"String">>, <<102, 108, 97, 116>>), dbg >>
  ELSE IF p <= 404 THEN << eid, gm, F("dimension", <<"Integer">>, I(-1)), F("difficulty", <<"UnsignedByte">>, I(3)),
                    F("max_players", <<"UnsignedByte">>, I(20)), F("level_type", <<"String">>, <<100, 101, 102>>), dbg >>
  ELSE IF p <= 498 THEN << eid, gm, F("dimension", <<"Integer">>, I(0)), F("max_players", <<"UnsignedByte">>, I(20)),
                    F("level_type", <<"String">>, <<100, 101, 102>>), F("render_distance", <<"VarInt">>, V7(10)), dbg >>
  ELSE IF p <= 578 THEN << eid, gm, F("dimension", <<"Integer">>, I(1)), F("hashed_seed", <<"Long">>, I(-5)),
                    F("max_players", <<"UnsignedByte">>, I(20)), F("level_type", <<"String">>, <<100, 101, 102>>),
                    F("render_distance", <<"VarInt">>, V7(32)), dbg, F("respawn_screen", <<"Boolean">>, TRUE) >>
  ELSE IF p <= 736 THEN << eid, gm, F("previous_game_mode", <<"UnsignedByte">>, I(2)),
                    F("world_names", <<"PrefixedArray", "VarInt", <<"String">>>>, <<<<119>>, <<110, 101>>>>),
                    F("dimension_codec", <<"Raw">>, NbtBlob), F("dimension", <<"String">>, <<111, 118>>),
                    F("world_name", <<"String">>, <<119>>), F("hashed_seed", <<"Long">>, I(77)),
                    F("max_players", <<"UnsignedByte">>, I(20)), F("render_distance", <<"VarInt">>, V7(8)), dbg,
                    F("respawn_screen", <<"Boolean">>, TRUE), F("is_debug", <<"Boolean">>, FALSE), F("is_flat", <<"Boolean">>, vs = 1) >>
  ELSE << eid, F("is_hardcore", <<"Boolean">>, vs = 1), gm, F("previous_game_mode", <<"UnsignedByte">>, I(0)),
          F("world_names", <<"PrefixedArray", "VarInt", <<"String">>>>, <<<<119>>>>),
          F("dimension_codec", <<"Raw">>, NbtBlob), F("dimension", <<"Raw">>, NbtBlob),
          F("world_name", <<"String">>, <<119>>), F("hashed_seed", <<"Long">>, I(77)),
          F("max_players", <<"VarInt">>, V7(200)), F("render_distance", <<"VarInt">>, V7(8)) >>
       \o (IF p >= 757 THEN << F("simulation_distance", <<"VarInt">>, V7(6)) >> ELSE <<>>)
       \o << dbg, F("respawn_screen", <<"Boolean">>, TRUE), F("is_debug", <<"Boolean">>, FALSE), F("is_flat", <<"Boolean">>, vs = 1) >>

Row(p, k, dir, st, id, fields) == [p |-> p, k |-> k, dir |-> dir, st |-> st, id |-> id, fields |-> fields]

RowsFor(p, vs) ==
  { Row(p, "handshake", "sb", "handshake", 0,
        << F("protocol_version", <<"VarInt">>, V7(p)), F("server_address", <<"String">>, <<109, 99, 46, 120>>),
           F("server_port", <<"UnsignedShort">>, IF vs = 1 THEN I(25565) ELSE I(65535)), F("next_state", <<"VarInt">>, V7(vs)) >>),
    Row(p, "status_request", "sb", "status", 0, <<>>),
    Row(p, "status_ping", "sb", "status", 1, << F("time", <<"Long">>, I(1234567)) >>),
    Row(p, "status_response", "cb", "status", 0, << F("json_response", <<"String">>, Json1) >>),
    Row(p, "status_pong", "cb", "status", 1, << F("time", <<"Long">>, I(-1)) >>),
    Row(p, "login_start", "sb", "login", 0, << F("name", <<"String">>, <<83, 116, 101, 118, 101>>) >>),
    Row(p, "login_disconnect", "cb", "login", 0, << F("json_data", <<"String">>, Json1) >>),
    Row(p, "encryption_request", "cb", "login", 1,
        << F("server_id", <<"String">>, <<>>), F("public_key", <<"VarIntPrefixedByteArray">>, [i \in 1..162 |-> (i * 5) % 256]),
           F("verify_token", <<"VarIntPrefixedByteArray">>, <<1, 2, 3, 4>>) >>),
    Row(p, "encryption_response", "sb", "login", 1,
        << F("shared_secret", <<"VarIntPrefixedByteArray">>, [i \in 1..128 |-> (i * 3) % 256]),
           F("verify_token", <<"VarIntPrefixedByteArray">>, [i \in 1..128 |-> (i * 7) % 256]) >>),
    Row(p, "login_success", "cb", "login", 2,
        IF p >= 735 THEN << F("UUID", <<"UUID">>, U16), F("Username", <<"String">>, <<83>>) >>
        ELSE << F("UUID", <<"String">>, U16.txt), F("Username", <<"String">>, <<83>>) >>),
    Row(p, "set_compression", "cb", "login", 3, << F("threshold", <<"VarInt">>, IF vs = 1 THEN V7(256) ELSE V7(0)) >>),
    Row(p, "keep_alive", "cb", "play", CbPlayId("keep_alive", p), KeepAliveFields(p, vs)),
    Row(p, "keep_alive", "sb", "play", SbPlayId("keep_alive", p), KeepAliveFields(p, vs)),
    Row(p, "join_game", "cb", "play", CbPlayId("join_game", p), JoinGameFields(p, vs)),
    Row(p, "chat", "cb", "play", CbPlayId("chat", p), ChatCbFields(p, vs)),
    Row(p, "chat", "sb", "play", SbPlayId("chat", p), << F("message", <<"String">>, Hello) >>),
    Row(p, "pos_look", "cb", "play", CbPlayId("pos_look", p), PosLookCbFields(p, vs)),
    Row(p, "pos_look", "sb", "play", SbPlayId("pos_look", p), PosLookSbFields(p, vs)),
    \* second value set: a reason of 16400 two-byte characters - within the protocol's 32767 characters, beyond 32767 bytes
    Row(p, "disconnect", "cb", "play", CbPlayId("disconnect", p),
        << F("json_data", <<"String">>, IF vs = 1 THEN Json1 ELSE [i \in 1..16400 |-> 233]) >>) }
  \cup (IF p >= 107 THEN { Row(p, "teleport_confirm", "sb", "play", 0, << F("teleport_id", <<"VarInt">>, IF vs = 1 THEN V7(1) ELSE V7(16384)) >>) } ELSE {})

\* rows deliberately not stated: none of the listed core packets is omitted; the plugin-channel login packets
\* (1.13+) are outside the property's core set
OmittedRows == {}

VARIABLES row, vset, payload, phase
vars == <<row, vset, payload, phase>>
Init == /\ vset \in {1, 2} /\ \E p \in Releases : row \in RowsFor(p, vset)
        /\ payload = <<>> /\ phase = "chosen"
Step == /\ phase = "chosen"
        /\ payload' = EncVarNat(row.id) \o FlattenSeq([j \in 1..Len(row.fields) |-> Enc(row.fields[j][2], row.fields[j][3])])
        /\ phase' = "done" /\ UNCHANGED <<row, vset>>
Next == Step \/ (phase = "done" /\ UNCHANGED vars)
Spec == Init /\ [][Next]_vars

\* the table itself is sane: ids are injective per (release, state, direction)
IdsDistinct ==
  \A p \in Releases : \A a, b \in RowsFor(p, 1) : (a.dir = b.dir /\ a.st = b.st /\ a.id = b.id) => a.k = b.k
EmitRows == (Emit /\ phase = "done") => PrintT(ToJson([row |-> row, vs |-> vset, payload |-> payload]))
=============================================================================
