----------------------------- MODULE PositionLayouts -----------------------------
(***************************************************************************)
(* T-mode for C04: the layout vector the code exhibits over all known      *)
(* protocol versions, in chronological order (harness probes each version  *)
(* with the discriminating set of MC_Position!Probe), must be              *)
(*   XYZ up to 1.13.2 (protocol 404), XZY from 1.14 (protocol 477), and    *)
(*   in between one of the two with a single switch-over.                  *)
(***************************************************************************)
EXTENDS Naturals, Sequences, TLC, Json, IOUtils

V == JsonDeserialize(IOEnv.TRACE_FILE)      \* <<[p |-> protocol, lay |-> "XYZ"|"XZY"|other], ...>> chronological

Idx(p) == CHOOSE i \in 1..Len(V) : V[i].p = p

ASSUME Known == \A i \in 1..Len(V) : V[i].lay \in {"XYZ", "XZY"}
ASSUME Pinned == /\ \A i \in 1..Idx(404) : V[i].lay = "XYZ"
                 /\ \A i \in Idx(477)..Len(V) : V[i].lay = "XZY"
ASSUME SingleSwitch == \A i \in 1..Len(V), j \in 1..Len(V) : (i < j /\ V[i].lay = "XZY") => V[j].lay = "XZY"

VARIABLE i
Init == i = 1
Next == i < Len(V) /\ i' = i + 1
Spec == Init /\ [][Next]_i
\* the same facts as a state invariant walked along the version list
Monotone == i > 1 => ~(V[i - 1].lay = "XZY" /\ V[i].lay = "XYZ")
=============================================================================
