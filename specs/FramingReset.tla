------------------------------- MODULE FramingReset -------------------------------
(***************************************************************************)
(* C15, second way for a server to stop: a TCP reset instead of an orderly *)
(* close.  Framing.tla is reused unchanged (its actions are guarded by     *)
(* ~rst); after the reset                                                  *)
(*   - whatever had arrived and was not yet read is gone (arrived' = pos), *)
(*   - the readiness call (select, or poll with its error bits) reports    *)
(*     the socket - the code goes on to read,                              *)
(*   - that read raises ConnectionResetError: the reader leaves,           *)
(*   - a frame already read completely is still handed over.               *)
(* ErrBitsMeanIdle = TRUE is a named deviation (seeded change C15k of      *)
(* round 11): the error bits of poll() are taken for "nothing to read",    *)
(* read_packet returns None and the networking loop comes back at once -   *)
(* a stuttering step for ever, so ResetLeaves fails (self-test).           *)
(***************************************************************************)
EXTENDS Framing

CONSTANT ErrBitsMeanIdle
VARIABLE rst
rvars == <<vars, rst>>

RInit == Init /\ rst = FALSE

ResetArrive == /\ ~eof /\ ~rst /\ outcome = "run"
               /\ rst' = TRUE /\ arrived' = pos
               /\ UNCHANGED <<frames, total, eof, pos, fed, pc, f, lenRead, need, delivered, empties, outcome, cuts>>

RSelect == /\ rst /\ pc = "select" /\ outcome = "run"
           /\ IF ErrBitsMeanIdle
              THEN UNCHANGED vars
              ELSE /\ pc' = "len" /\ lenRead' = 0
                   /\ UNCHANGED <<frames, total, arrived, eof, pos, fed, f, need, delivered, empties, outcome, cuts>>
           /\ UNCHANGED rst

RRead == /\ rst /\ pc \in {"len", "body", "more"} /\ outcome = "run"
         /\ outcome' = "ConnectionResetError" /\ pc' = "left"
         /\ UNCHANGED <<frames, total, arrived, eof, pos, fed, f, lenRead, need, delivered, empties, cuts, rst>>

RDispatch == rst /\ Dispatch /\ UNCHANGED rst

Before == ~rst /\ Next /\ UNCHANGED rst
RReader == (~rst /\ Reader /\ UNCHANGED rst) \/ RSelect \/ RRead \/ RDispatch
RNext == Before \/ ResetArrive \/ RSelect \/ RRead \/ RDispatch \/ (Left /\ UNCHANGED rvars)
RSpec == RInit /\ [][RNext]_rvars /\ WF_rvars(RReader)
               /\ WF_rvars(~rst /\ Arrive /\ UNCHANGED rst) /\ WF_rvars(~rst /\ EofArrive /\ UNCHANGED rst)
\* (fairness only on sub-actions of RNext: after the reset the server sends nothing more, and a fairness condition on an
\*  action the next-state relation excludes would make every behaviour with a reset unfair - the properties vacuous)

----------------------------------------------------------------------------
\* what Framing promises holds with resets too, except that frames lost with the reset are, of course, not delivered
RAllCompleteDelivered == ~rst => AllCompleteDelivered
\* nothing is delivered that had not been read completely before the reset
RNoPartialDelivery == \A j \in 1..Len(delivered) : End(j) <= pos
\* after a reset the only outcomes are the reset error (or having left before)
ResetOutcome == (rst /\ Left) => outcome \in {"ConnectionResetError", "EOFError"}
ResetNeverEof == (rst /\ outcome = "EOFError") => FALSE
\* liveness: the reader leaves after a reset as it does after an end of stream
ResetNeverHappens == ~rst
ResetLeaves == rst ~> Left
EndLeaves == (eof \/ rst) ~> Left
=============================================================================
