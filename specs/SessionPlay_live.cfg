SPECIFICATION Spec
CONSTANTS
  Alphabet <- MCAlphabet
  MaxLen = 4
  W = 3
  R = 2
  Teleport <- Both
  Emit = FALSE
PROPERTY Terminates
