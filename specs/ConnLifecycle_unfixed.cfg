SPECIFICATION Spec
CONSTANTS
  Users <- MCUsers2
  Programs <- P2
  MaxThreads = 3
  MaxSocks = 3
  ServerModes <- Both
  SrvMayClose = TRUE
  Reactions <- SomeReactions
  HandlerReconnect = FALSE
  SrvMayStall = FALSE
  HEAtomic = TRUE
  ShutdownBoth = TRUE
  Fixed = FALSE
  Emit = FALSE
INVARIANT AtMostOneInIo
INVARIANT DisconnectNeverRaises
INVARIANT SlotsClearedWhenDead
INVARIANT IdleMeansConnectable
INVARIANT SuccessorAfterPredecessor
PROPERTY RefusalIsClean
PROPERTY InvalidStateIffActive
