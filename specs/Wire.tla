---------------------------------- MODULE Wire ----------------------------------
(***************************************************************************)
(* Reference encoders / decoders of the Minecraft protocol's primitive     *)
(* wire types, written from the protocol description and sharing nothing   *)
(* with pyCraft (no struct, no Python shifts).  They are the byte-level    *)
(* oracle of C02 and of every other check that needs bytes.                *)
(*                                                                         *)
(* TLC integers are 32 bit, so wide numbers never appear as TLC integers:  *)
(*   integer value   [s |-> 0|1, m |-> big-endian base-256 magnitude]      *)
(*                   (sign-magnitude: a semantic value, not a bit pattern) *)
(*   float value     [cls, s, e, f]   (-1)^s * 2^e * 1.f  (f = fraction    *)
(*                   bits, most significant first)                         *)
(*   text            sequence of Unicode code points                       *)
(*   VarInt value    little-endian base-128 digits                         *)
(***************************************************************************)
EXTENDS Naturals, Integers, Sequences, FiniteSets, SequencesExt

Bytes == 0..255

----------------------------------------------------------------------------
(* byte-sequence arithmetic                                                *)

Zeros(n) == [i \in 1..n |-> 0]
PadLeft(b, w) == Zeros(w - Len(b)) \o b

RECURSIVE StripLeft(_)
StripLeft(b) == IF b # <<>> /\ b[1] = 0 THEN StripLeft(Tail(b)) ELSE b

Complement(b) == [i \in 1..Len(b) |-> 255 - b[i]]

\* b - 1 for a non-zero big-endian byte sequence
LastNonZero(b) == CHOOSE k \in 1..Len(b) : b[k] # 0 /\ \A j \in (k+1)..Len(b) : b[j] = 0
Dec(b) == LET k == LastNonZero(b) IN
          [i \in 1..Len(b) |-> IF i < k THEN b[i] ELSE IF i = k THEN b[k] - 1 ELSE 255]
\* b + 1 for a big-endian byte sequence that is not all 255
LastNot255(b) == CHOOSE k \in 1..Len(b) : b[k] # 255 /\ \A j \in (k+1)..Len(b) : b[j] = 255
Inc(b) == LET k == LastNot255(b) IN
          [i \in 1..Len(b) |-> IF i < k THEN b[i] ELSE IF i = k THEN b[k] + 1 ELSE 0]

IsZeroSeq(b) == \A i \in 1..Len(b) : b[i] = 0

----------------------------------------------------------------------------
(* fixed-width big-endian integers, two's complement                       *)

\* is value v in the domain of a w-byte (un)signed integer?
InDomain(w, signed, v) ==
  LET m == StripLeft(v.m) IN
  /\ Len(m) <= w
  /\ IF ~signed THEN v.s = 0
     ELSE LET p == PadLeft(m, w) IN
          IF v.s = 0 THEN p[1] < 128
          ELSE p[1] < 128 \/ (p[1] = 128 /\ IsZeroSeq(Tail(p)))      \* down to -2^(8w-1)

EncInt(w, signed, v) ==
  LET p == PadLeft(StripLeft(v.m), w) IN
  IF v.s = 0 \/ IsZeroSeq(p) THEN p ELSE Complement(Dec(p))          \* -m = ~(m - 1)

DecInt(w, signed, b) ==
  IF signed /\ b[1] >= 128
  THEN [s |-> 1, m |-> StripLeft(Inc(Complement(b)))]
  ELSE [s |-> 0, m |-> StripLeft(b)]

\* small integers (|n| < 2^31) to the value form
RECURSIVE NatBytes(_)
NatBytes(n) == IF n = 0 THEN <<>> ELSE NatBytes(n \div 256) \o <<n % 256>>
IntVal(n) == IF n < 0 THEN [s |-> 1, m |-> NatBytes(0 - n)] ELSE [s |-> 0, m |-> NatBytes(n)]

----------------------------------------------------------------------------
(* VarInt (canonical form of a non-negative number given in base 128)      *)

RECURSIVE Nat128(_)
Nat128(n) == IF n = 0 THEN <<>> ELSE <<n % 128>> \o Nat128(n \div 128)

EncVarDigits(d) ==
  IF d = <<>> THEN <<0>>
  ELSE [i \in 1..Len(d) |-> IF i < Len(d) THEN d[i] + 128 ELSE d[i]]
EncVarNat(n) == EncVarDigits(Nat128(n))

----------------------------------------------------------------------------
(* booleans                                                                *)
EncBool(b) == IF b THEN <<1>> ELSE <<0>>

----------------------------------------------------------------------------
(* UTF-8                                                                   *)
IsScalar(cp) == cp \in 0..1114111 /\ ~(cp \in 55296..57343)

Utf8Char(cp) ==
  IF cp < 128 THEN <<cp>>
  ELSE IF cp < 2048 THEN <<192 + (cp \div 64), 128 + (cp % 64)>>
  ELSE IF cp < 65536 THEN <<224 + (cp \div 4096), 128 + ((cp \div 64) % 64), 128 + (cp % 64)>>
  ELSE <<240 + (cp \div 262144), 128 + ((cp \div 4096) % 64), 128 + ((cp \div 64) % 64), 128 + (cp % 64)>>

Utf8(cps) == FlattenSeq([i \in 1..Len(cps) |-> Utf8Char(cps[i])])

\* String: VarInt byte length, then UTF-8
EncString(cps) == LET u == Utf8(cps) IN EncVarNat(Len(u)) \o u

----------------------------------------------------------------------------
(* byte arrays                                                             *)
EncShortPrefixed(b)  == EncInt(2, TRUE, IntVal(Len(b))) \o b
EncVarIntPrefixed(b) == EncVarNat(Len(b)) \o b
EncTrailing(b)       == b

----------------------------------------------------------------------------
(* UUID: 16 bytes <-> 8-4-4-4-12 lower-case hex text (as character codes)  *)
HexDigit(n) == IF n < 10 THEN 48 + n ELSE 87 + n          \* '0'..'9', 'a'..'f'
HexOfBytes(b) == FlattenSeq([i \in 1..Len(b) |-> <<HexDigit(b[i] \div 16), HexDigit(b[i] % 16)>>])
UuidText(b) ==
  LET h == HexOfBytes(b) IN
  SubSeq(h, 1, 8) \o <<45>> \o SubSeq(h, 9, 12) \o <<45>> \o SubSeq(h, 13, 16) \o <<45>>
     \o SubSeq(h, 17, 20) \o <<45>> \o SubSeq(h, 21, 32)

----------------------------------------------------------------------------
(* IEEE-754 binary32 / binary64                                            *)
\* bits (most significant first) -> bytes
RECURSIVE BitsVal(_)
BitsVal(bits) == IF bits = <<>> THEN 0 ELSE 2 * BitsVal(SubSeq(bits, 1, Len(bits) - 1)) + bits[Len(bits)]
BitsToBytes(bits) == [i \in 1..(Len(bits) \div 8) |-> BitsVal(SubSeq(bits, 8 * i - 7, 8 * i))]

\* n (< 2^w) as w bits, most significant first
RECURSIVE NatBits(_, _)
NatBits(n, w) == IF w = 0 THEN <<>> ELSE NatBits(n \div 2, w - 1) \o <<n % 2>>

ExpWidth(total)  == IF total = 32 THEN 8 ELSE 11
FracWidth(total) == IF total = 32 THEN 23 ELSE 52
Bias(total)      == IF total = 32 THEN 127 ELSE 1023
PadRight(bits, w) == bits \o [i \in 1..(w - Len(bits)) |-> 0]

\* v = [cls |-> "zero"|"sub"|"normal"|"inf"|"nan", s, e, f]
EncFloat(total, v) ==
  LET ew == ExpWidth(total) fw == FracWidth(total)
      ebits == CASE v.cls = "zero"   -> NatBits(0, ew)
                 [] v.cls = "sub"    -> NatBits(0, ew)
                 [] v.cls = "normal" -> NatBits(v.e + Bias(total), ew)
                 [] v.cls = "inf"    -> [i \in 1..ew |-> 1]
                 [] v.cls = "nan"    -> [i \in 1..ew |-> 1]
      fbits == CASE v.cls = "zero" -> Zeros(fw)
                 [] v.cls = "inf"  -> Zeros(fw)
                 [] v.cls = "nan"  -> PadRight(<<1>>, fw)
                 [] OTHER          -> PadRight(v.f, fw)
  IN BitsToBytes(<<v.s>> \o ebits \o fbits)

----------------------------------------------------------------------------
(* angle: one byte, 1/256 turn.  v = j/8 steps (j integer, any sign);      *)
(* admissible bytes: the two neighbouring steps (within one quantum).      *)
FloorDiv(a, b) == a \div b                      \* TLA+ \div rounds towards minus infinity
AngleAllowed(j) ==
  LET lo == FloorDiv(j, 8) hi == IF j % 8 = 0 THEN lo ELSE lo + 1 IN
  {<<lo % 256>>, <<hi % 256>>}
\* round-half-even of j/8, as Python's round()
RoundHalfEven(j, d) ==
  LET q == j \div d r == j % d IN
  IF 2 * r < d THEN q ELSE IF 2 * r > d THEN q + 1 ELSE IF q % 2 = 0 THEN q ELSE q + 1
\* model of the code: normalise first (j mod 2048 is v mod 360), then round, then wrap
AngleModel(j) == <<RoundHalfEven(j % 2048, 8) % 256>>

----------------------------------------------------------------------------
(* fixed point with n fractional bits over an integer type of w bytes:     *)
(* v = (2k + half) / 2^(n+1); admissible: the neighbouring integers.       *)
FixedAllowed(w, k, half) ==
  IF half = 0 THEN {EncInt(w, TRUE, IntVal(k))}
  ELSE {EncInt(w, TRUE, IntVal(k)), EncInt(w, TRUE, IntVal(k + 1))}
\* model of the code: int(v * 2^n) truncates towards zero
FixedModel(w, k, half) ==
  IF half = 0 \/ k >= 0 THEN EncInt(w, TRUE, IntVal(k)) ELSE EncInt(w, TRUE, IntVal(k + 1))

=============================================================================
