SPECIFICATION Spec
CONSTANTS
  Streams <- MCStreamsBig
  EofCheck = TRUE
  MaxEmpty = 3
  Emit = FALSE
VIEW NoCuts
CONSTRAINT Bounded
INVARIANT DeliveredIsPrefix
INVARIANT DispatchAtBoundary
INVARIANT NoPartialDelivery
INVARIANT UnknownSkippedWhole
INVARIANT DecryptOnceInOrder
INVARIANT BoundedReadsAfterEof
INVARIANT AllCompleteDelivered
