SPECIFICATION RSpec
CONSTANTS
  Streams <- MCStreamsSmall
  EofCheck = TRUE
  MaxEmpty = 3
  Emit = FALSE
  ErrBitsMeanIdle = TRUE
PROPERTY ResetLeaves
