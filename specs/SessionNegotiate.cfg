SPECIFICATION Spec
CONSTANTS
  Order <- MCOrder
  Supported <- MCSupported
  AllowedSets <- MCAllowedSets
  Initials <- MCInitials
  Replies <- MCReplies
  Emit = TRUE
INVARIANT NeverLoginWithDisallowed
INVARIANT ExactlyServersVersion
INVARIANT FallbackOnlyWhenNoVersion
INVARIANT AtMostTwoTcpConnections
INVARIANT SingletonSkipsStatus
INVARIANT ExitOnceAfterStatus
INVARIANT EmitRows
PROPERTY Terminates
