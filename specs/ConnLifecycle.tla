------------------------------- MODULE ConnLifecycle -------------------------------
(***************************************************************************)
(* C16 (and the placement part of C14): the lifecycle of one Connection    *)
(* object.  MODEL of connection.py written to be bound: one action per     *)
(* critical section / blocking point.                                      *)
(*                                                                         *)
(*  - connect() and disconnect() run entirely under the write lock, so     *)
(*    each is one atomic action (U_Connect, U_Disconnect, and the same     *)
(*    bodies when called from the networking thread);                      *)
(*  - NetworkingThread.run is split at every point where it can block or   *)
(*    where other threads can interleave: begin, join predecessor, adopt   *)
(*    (lock), loop top (interrupt check), write phase (lock), read phase   *)
(*    (outside the lock: timeout / packet / end of stream / closed file),  *)
(*    exit callback, exception (marks itself interrupted), handlers, the   *)
(*    NON-ATOMIC check `(new or current).interrupt` and the following      *)
(*    disconnect(immediate=True), finally (lock: slot := None).            *)
(*                                                                         *)
(*  - a server may stall in the middle of a frame (SrvMayStall): the thread *)
(*    then sits in a blocking read ("blocked"), from which only the end of  *)
(*    the stream or a shutdown of the read half of ITS socket wakes it -    *)
(*    closing the descriptor from another thread does not.  ShutdownBoth =  *)
(*    TRUE is disconnect() as it is (shutdown(SHUT_RDWR) before close);     *)
(*    FALSE shuts down the write half only (a seeded change): TLC must find *)
(*    InterruptLeadsToTermination violated.                                 *)
(*                                                                         *)
(* Fixed = TRUE is the code after the disconnect() fixes (attributes       *)
(* initialised in __init__, close guarded, send errors while flushing      *)
(* swallowed); FALSE is the code as it was, kept as a self-test: TLC must  *)
(* find DisconnectNeverRaises violated.                                    *)
(***************************************************************************)
EXTENDS Integers, Sequences, FiniteSets, TLC, Json

CONSTANTS Users,        \* user thread ids
          Programs,     \* set of call sequences a user thread may run (ops: "connect", "disc", "disc_now")
          MaxThreads,   \* networking thread generations available
          MaxSocks,
          ServerModes,  \* subset of {"accept", "refuse"}: what a TCP connect may meet
          SrvMayClose,  \* the server may close an established connection at any time
          Reactions,    \* subset of {"disc_pkt", "reconnect", "raise"}: what a received packet may trigger
          HandlerReconnect, \* an exception handler may call connect()
          SrvMayStall,  \* the server may stop in the middle of a frame and stay silent
          ShutdownBoth, \* disconnect() shuts down both halves of the socket before closing it
          HEAtomic,     \* _handle_exception checks and disconnects under the write lock (the code since fix 29c3a80;
                        \* FALSE: the code as it was - check outside the lock, disconnect later)
          Fixed, Emit

Unset == 0 - 1      \* attribute does not exist
NoneV == 0          \* attribute is None
Threads == 1..MaxThreads
Socks == 1..MaxSocks

VARIABLES
  nt, newNt,            \* thread slots (0 = None)
  tstate, intr, prev,   \* per networking thread
  pend,                 \* deferred write error of a thread
  rsock,                \* the socket a thread is blocked reading from (0: none)
  sock, file,           \* attributes: Unset | NoneV | socket id
  sopen, fopen, peer,   \* per socket: socket object open, file object open, peer: "none" | "up" | "closed"
  connected, queue,
  prog, result,         \* per user: remaining program, results so far
  exits, errors, tcp, budget
vars == <<nt, newNt, tstate, intr, prev, pend, rsock, sock, file, sopen, fopen, peer, connected, queue, prog, result, exits, errors, tcp, budget>>

IOStates == {"write", "read", "blocked"}
Live(t) == tstate[t] \notin {"unborn", "dead"}
FreshThread == CHOOSE t \in Threads : tstate[t] = "unborn" /\ \A u \in Threads : u < t => tstate[u] # "unborn"
FreshSock == CHOOSE s \in Socks : peer[s] = "new" /\ \A u \in Socks : u < s => peer[u] # "new"
HaveThread == \E t \in Threads : tstate[t] = "unborn"
HaveSock == \E s \in Socks : peer[s] = "new"

Init ==
  /\ nt = 0 /\ newNt = 0
  /\ tstate = [t \in Threads |-> "unborn"] /\ intr = [t \in Threads |-> FALSE] /\ prev = [t \in Threads |-> 0]
  /\ pend = [t \in Threads |-> FALSE] /\ rsock = [t \in Threads |-> 0]
  /\ sock = (IF Fixed THEN NoneV ELSE Unset) /\ file = (IF Fixed THEN NoneV ELSE Unset)
  /\ sopen = [s \in Socks |-> FALSE] /\ fopen = [s \in Socks |-> FALSE] /\ peer = [s \in Socks |-> "new"]
  /\ connected = FALSE /\ queue = 0
  /\ prog \in [Users -> Programs] /\ result = [u \in Users |-> <<>>]
  /\ exits = 0 /\ errors = 0 /\ tcp = 0 /\ budget = 3

Active == (nt # 0 /\ ~intr[nt]) \/ newNt # 0

----------------------------------------------------------------------------
(* The bodies of connect() and disconnect() as state functions: they take  *)
(* the whole state S (a record) and return the new state plus the call's   *)
(* result.  Used by user threads and, re-entrantly, by the networking      *)
(* thread.                                                                  *)

State == [nt |-> nt, newNt |-> newNt, tstate |-> tstate, intr |-> intr, prev |-> prev, sock |-> sock, file |-> file,
          sopen |-> sopen, fopen |-> fopen, peer |-> peer, connected |-> connected, queue |-> queue, tcp |-> tcp]

SActive(S) == (S.nt # 0 /\ ~S.intr[S.nt]) \/ S.newNt # 0
SFreshThread(S) == CHOOSE t \in Threads : S.tstate[t] = "unborn" /\ \A u \in Threads : u < t => S.tstate[u] # "unborn"
SFreshSock(S) == CHOOSE s \in Socks : S.peer[s] = "new" /\ \A u \in Socks : u < s => S.peer[u] # "new"

\* connect(): _check_connection, _connect, handshake queued, _start_network_thread
ConnectBody(S, mode) ==
  IF SActive(S) THEN [S |-> S, r |-> "InvalidState"]
  ELSE LET s == SFreshSock(S) IN
       IF mode = "refuse"
       THEN [S |-> [S EXCEPT !.sock = s, !.sopen[s] = TRUE, !.peer[s] = "none", !.queue = 0, !.tcp = S.tcp + 1],
             r |-> "Refused"]
       ELSE LET t == SFreshThread(S)
                S1 == [S EXCEPT !.sock = s, !.file = s, !.sopen[s] = TRUE, !.fopen[s] = TRUE, !.peer[s] = "up",
                                !.queue = 2, !.connected = TRUE, !.tcp = S.tcp + 1,
                                !.tstate[t] = "begin", !.prev[t] = S.nt]
            IN [S |-> IF S.nt = 0 THEN [S1 EXCEPT !.nt = t] ELSE [S1 EXCEPT !.newNt = t], r |-> "ok"]

Sendable(S) == S.sock \notin {Unset, NoneV} /\ S.sopen[S.sock] /\ S.peer[S.sock] \in {"up", "stalled"}

\* disconnect(immediate)
DisconnectBody(S, imm) ==
  LET S0 == [S EXCEPT !.connected = FALSE] IN
  IF ~Fixed /\ S.sock = Unset THEN [S |-> S0, r |-> "Raised"]              \* AttributeError: no attribute 'socket'
  ELSE LET flushFails == ~imm /\ S.sock # NoneV /\ S.queue > 0 /\ ~Sendable(S) IN
       IF ~Fixed /\ flushFails THEN [S |-> [S0 EXCEPT !.queue = S.queue - 1], r |-> "Raised"]   \* the send error propagates
       ELSE LET S1 == IF ~imm /\ S.sock # NoneV THEN [S0 EXCEPT !.queue = 0] ELSE S0
                S2 == IF S1.newNt # 0 THEN [S1 EXCEPT !.intr[S1.newNt] = TRUE]
                      ELSE IF S1.nt # 0 THEN [S1 EXCEPT !.intr[S1.nt] = TRUE] ELSE S1
            IN IF S2.sock = NoneV THEN [S |-> S2, r |-> "ok"]
               ELSE IF ~Fixed /\ S2.file = Unset THEN [S |-> S2, r |-> "Raised"]           \* AttributeError: file_object
               ELSE LET S3 == IF S2.file \notin {Unset, NoneV} THEN [S2 EXCEPT !.fopen[S2.file] = FALSE] ELSE S2
                    IN [S |-> [S3 EXCEPT !.sopen[S2.sock] = FALSE, !.sock = NoneV], r |-> "ok"]

Install(S) ==
  /\ nt' = S.nt /\ newNt' = S.newNt /\ tstate' = S.tstate /\ intr' = S.intr /\ prev' = S.prev
  /\ sock' = S.sock /\ file' = S.file /\ sopen' = S.sopen /\ fopen' = S.fopen /\ peer' = S.peer
  /\ connected' = S.connected /\ queue' = S.queue /\ tcp' = S.tcp

----------------------------------------------------------------------------
(* User threads                                                            *)
U_Call(u) ==
  /\ prog[u] # <<>>
  /\ LET op == Head(prog[u]) IN
     \/ /\ op = "connect" /\ (SActive(State) \/ (HaveSock /\ HaveThread))
        /\ \E mode \in ServerModes :
             LET r == ConnectBody(State, mode) IN
             /\ Install(r.S) /\ result' = [result EXCEPT ![u] = Append(@, <<op, r.r, IF r.r = "InvalidState" THEN "-" ELSE mode>>)]
     \/ /\ op \in {"disc", "disc_now"}
        /\ LET r == DisconnectBody(State, op = "disc_now") IN
             /\ Install(r.S) /\ result' = [result EXCEPT ![u] = Append(@, <<op, r.r, "-">>)]
  /\ prog' = [prog EXCEPT ![u] = Tail(@)]
  /\ UNCHANGED <<pend, rsock, exits, errors, budget>>

----------------------------------------------------------------------------
(* The server                                                              *)
Srv_Close(s) ==
  /\ SrvMayClose /\ peer[s] \in {"up", "stalled"} /\ budget > 0
  /\ peer' = [peer EXCEPT ![s] = "closed"] /\ budget' = budget - 1
  /\ UNCHANGED <<nt, newNt, tstate, intr, prev, pend, rsock, sock, file, sopen, fopen, connected, queue, prog, result, exits, errors, tcp>>

\* the server sends the beginning of a frame and then nothing
Srv_Stall(s) ==
  /\ SrvMayStall /\ peer[s] = "up" /\ budget > 0
  /\ peer' = [peer EXCEPT ![s] = "stalled"] /\ budget' = budget - 1
  /\ UNCHANGED <<nt, newNt, tstate, intr, prev, pend, rsock, sock, file, sopen, fopen, connected, queue, prog, result, exits, errors, tcp>>

----------------------------------------------------------------------------
(* Networking threads                                                      *)
Keep == UNCHANGED <<prog, result>>
Goto(t, st) == tstate' = [tstate EXCEPT ![t] = st]

NT_Begin(t) == /\ tstate[t] = "begin"
               /\ Goto(t, IF prev[t] # 0 THEN "joining" ELSE "top")
               /\ Keep /\ UNCHANGED <<nt, newNt, intr, prev, pend, rsock, sock, file, sopen, fopen, peer, connected, queue, exits, errors, tcp, budget>>
NT_Join(t) == /\ tstate[t] = "joining" /\ tstate[prev[t]] = "dead"
              /\ Goto(t, "adopt")
              /\ Keep /\ UNCHANGED <<nt, newNt, intr, prev, pend, rsock, sock, file, sopen, fopen, peer, connected, queue, exits, errors, tcp, budget>>
NT_Adopt(t) == /\ tstate[t] = "adopt"
               /\ nt' = t /\ newNt' = 0 /\ Goto(t, "top")
               /\ Keep /\ UNCHANGED <<intr, prev, pend, rsock, sock, file, sopen, fopen, peer, connected, queue, exits, errors, tcp, budget>>
NT_Top(t) == /\ tstate[t] = "top"
             /\ Goto(t, IF intr[t] THEN "exitcb" ELSE "write")
             /\ Keep /\ UNCHANGED <<nt, newNt, intr, prev, pend, rsock, sock, file, sopen, fopen, peer, connected, queue, exits, errors, tcp, budget>>
\* with lock: pop and write everything queued; an IOError is deferred
NT_Write(t) == /\ tstate[t] = "write"
               /\ IF queue > 0 /\ ~intr[t]
                  THEN IF Sendable(State) THEN queue' = 0 /\ UNCHANGED pend
                       ELSE queue' = queue - 1 /\ pend' = [pend EXCEPT ![t] = TRUE]
                  ELSE UNCHANGED <<queue, pend>>
               /\ Goto(t, "read")
               /\ Keep /\ UNCHANGED <<nt, newNt, intr, prev, rsock, sock, file, sopen, fopen, peer, connected, exits, errors, tcp, budget>>

\* outside the lock: select + read_packet + _react on whatever the attributes are NOW
NT_Read(t) ==
  /\ tstate[t] = "read"
  /\ \/ \* interrupted meanwhile, or nothing arrived within the timeout
        /\ Goto(t, IF pend[t] THEN "except" ELSE "top")
        /\ Keep /\ UNCHANGED <<nt, newNt, intr, prev, pend, rsock, sock, file, sopen, fopen, peer, connected, queue, exits, errors, tcp, budget>>
     \/ \* select / read on a closed file object, or end of stream
        /\ ~intr[t]
        /\ \/ file \in {Unset, NoneV}
           \/ (file \notin {Unset, NoneV} /\ (~fopen[file] \/ peer[file] = "closed"))
        /\ Goto(t, "except")
        /\ Keep /\ UNCHANGED <<nt, newNt, intr, prev, pend, rsock, sock, file, sopen, fopen, peer, connected, queue, exits, errors, tcp, budget>>
     \/ \* the beginning of a frame has arrived: read_packet sits in a blocking read for the rest
        /\ ~intr[t] /\ file \notin {Unset, NoneV} /\ fopen[file] /\ peer[file] = "stalled"
        /\ Goto(t, "blocked") /\ rsock' = [rsock EXCEPT ![t] = file]
        /\ Keep /\ UNCHANGED <<nt, newNt, intr, prev, pend, sock, file, sopen, fopen, peer, connected, queue, exits, errors, tcp, budget>>
     \/ \* a packet arrives and something reacts to it
        /\ ~intr[t] /\ file \notin {Unset, NoneV} /\ fopen[file] /\ peer[file] = "up" /\ budget > 0
        /\ budget' = budget - 1
        /\ \E re \in Reactions :
             \/ /\ re = "disc_pkt"
                /\ LET r == DisconnectBody(State, FALSE) IN Install([r.S EXCEPT !.tstate[t] = "top"])
                /\ pend' = [pend EXCEPT ![t] = FALSE]
                /\ Keep /\ UNCHANGED <<exits, errors, rsock>>
             \/ /\ re = "reconnect" /\ HaveSock /\ HaveThread
                /\ \E mode \in ServerModes :
                     LET d == DisconnectBody(State, FALSE)
                         c == ConnectBody(d.S, mode) IN
                     IF c.r = "Refused"
                     THEN Install([c.S EXCEPT !.tstate[t] = "except"])        \* ConnectionRefusedError escapes the listener
                     ELSE Install([c.S EXCEPT !.tstate[t] = "top"])
                /\ Keep /\ UNCHANGED <<pend, rsock, exits, errors>>
             \/ /\ re = "raise"
                /\ Goto(t, "except")
                /\ Keep /\ UNCHANGED <<nt, newNt, intr, prev, pend, rsock, sock, file, sopen, fopen, peer, connected, queue, exits, errors, tcp>>

\* the blocking read returns: end of stream from the server, or this socket's read half was shut down locally
\* (a socket that disconnect() has closed was shut down first - both halves, or, in the seeded variant, the write half only)
NT_Blocked(t) ==
  /\ tstate[t] = "blocked"
  /\ \/ peer[rsock[t]] = "closed"
     \/ (~sopen[rsock[t]] /\ ShutdownBoth)
  /\ Goto(t, "except") /\ rsock' = [rsock EXCEPT ![t] = 0]
  /\ Keep /\ UNCHANGED <<nt, newNt, intr, prev, pend, sock, file, sopen, fopen, peer, connected, queue, exits, errors, tcp, budget>>

\* _handle_exit
NT_ExitCb(t) == /\ tstate[t] = "exitcb"
                /\ exits' = IF ~connected THEN exits + 1 ELSE exits
                /\ Goto(t, "finally")
                /\ Keep /\ UNCHANGED <<nt, newNt, intr, prev, pend, rsock, sock, file, sopen, fopen, peer, connected, queue, errors, tcp, budget>>
\* except Exception: self.interrupt = True; handlers
NT_Except(t) == /\ tstate[t] = "except"
                /\ intr' = [intr EXCEPT ![t] = TRUE] /\ errors' = errors + 1
                /\ Goto(t, "handlers")
                /\ Keep /\ UNCHANGED <<nt, newNt, prev, pend, rsock, sock, file, sopen, fopen, peer, connected, queue, exits, tcp, budget>>
NT_Handlers(t) ==
  /\ tstate[t] = "handlers"
  /\ \/ /\ Goto(t, "he_check")
        /\ Keep /\ UNCHANGED <<nt, newNt, intr, prev, pend, rsock, sock, file, sopen, fopen, peer, connected, queue, exits, errors, tcp, budget>>
     \/ /\ HandlerReconnect /\ HaveSock /\ HaveThread /\ budget > 0
        /\ budget' = budget - 1
        /\ \E mode \in ServerModes :
             LET c == ConnectBody(State, mode) IN Install([c.S EXCEPT !.tstate[t] = "he_check"])
        /\ Keep /\ UNCHANGED <<pend, rsock, exits, errors>>
\* with self._write_lock: if (self.new_networking_thread or self.networking_thread).interrupt: self.disconnect(immediate=True)
\* (HEAtomic: one step under the lock; otherwise the condition is evaluated here and acted upon in NT_Disc)
NT_Check(t) == /\ tstate[t] = "he_check"
               /\ LET who == IF newNt # 0 THEN newNt ELSE nt
                      hit == who # 0 /\ intr[who] IN
                  IF HEAtomic /\ hit
                  THEN /\ LET r == DisconnectBody(State, TRUE) IN Install([r.S EXCEPT !.tstate[t] = "finally"])
                       /\ Keep /\ UNCHANGED <<pend, rsock, exits, errors, budget>>
                  ELSE /\ Goto(t, IF hit THEN "he_disc" ELSE "finally")
                       /\ Keep /\ UNCHANGED <<nt, newNt, intr, prev, pend, rsock, sock, file, sopen, fopen, peer, connected, queue, exits, errors, tcp, budget>>
\* self.disconnect(immediate=True)
NT_Disc(t) == /\ tstate[t] = "he_disc"
              /\ LET r == DisconnectBody(State, TRUE) IN Install([r.S EXCEPT !.tstate[t] = "finally"])
              /\ Keep /\ UNCHANGED <<pend, rsock, exits, errors, budget>>
\* finally: with lock: networking_thread = None
NT_Finally(t) == /\ tstate[t] = "finally"
                 /\ nt' = 0 /\ Goto(t, "dead")
                 /\ Keep /\ UNCHANGED <<newNt, intr, prev, pend, rsock, sock, file, sopen, fopen, peer, connected, queue, exits, errors, tcp, budget>>

NTStep(t) == NT_Begin(t) \/ NT_Join(t) \/ NT_Adopt(t) \/ NT_Top(t) \/ NT_Write(t) \/ NT_Read(t) \/ NT_Blocked(t) \/ NT_ExitCb(t)
             \/ NT_Except(t) \/ NT_Handlers(t) \/ NT_Check(t) \/ NT_Disc(t) \/ NT_Finally(t)

Next == (\E u \in Users : U_Call(u)) \/ (\E s \in Socks : Srv_Close(s) \/ Srv_Stall(s)) \/ (\E t \in Threads : NTStep(t))
Spec == Init /\ [][Next]_vars /\ \A t \in Threads : WF_vars(NTStep(t))

----------------------------------------------------------------------------
(* C16                                                                     *)
AtMostOneInIo == Cardinality({t \in Threads : tstate[t] \in IOStates}) <= 1
\* a refused call changes nothing and opens no TCP connection
RefusalIsClean ==
  [][\A u \in Users : (prog[u] # <<>> /\ Head(prog[u]) = "connect" /\ result'[u] # result[u]
                        /\ result'[u][Len(result'[u])][2] = "InvalidState")
        => UNCHANGED <<nt, newNt, tstate, intr, sock, file, sopen, fopen, peer, connected, queue, tcp>>]_vars
InvalidStateIffActive ==
  [][\A u \in Users : (prog[u] # <<>> /\ Head(prog[u]) = "connect" /\ result'[u] # result[u])
        => ((result'[u][Len(result'[u])][2] = "InvalidState") <=> Active)]_vars
DisconnectNeverRaises ==
  \A u \in Users : \A i \in 1..Len(result[u]) : result[u][i][1] \in {"disc", "disc_now"} => result[u][i][2] = "ok"
\* dead threads never linger in a slot: once everything has ended the object is connectable
SlotsClearedWhenDead ==
  /\ nt # 0 => tstate[nt] # "dead"
  /\ newNt # 0 => tstate[newNt] # "dead"
IdleMeansConnectable == (\A t \in Threads : ~Live(t)) => ~Active
SuccessorAfterPredecessor ==
  \A t \in Threads : (tstate[t] \in IOStates /\ prev[t] # 0) => tstate[prev[t]] = "dead"
\* liveness: an interrupted thread terminates
InterruptLeadsToTermination == \A t \in Threads : (Live(t) /\ intr[t]) ~> (tstate[t] = "dead")

\* the error handling of a dying thread never tears down a connection it does not own (one made by another thread after
\* the failure): whenever it disconnects, the slot holds no successor that is still uninterrupted
NoCrossTeardown ==
  [][\A t \in Threads : (tstate[t] \in {"he_check", "he_disc"} /\ tstate'[t] = "finally" /\ (intr' # intr \/ sock' # sock \/ connected' # connected))
        => (LET who == IF newNt # 0 THEN newNt ELSE nt IN who = 0 \/ who = t \/ intr[who])]_vars

EmitRows == (Emit /\ \A u \in Users : prog[u] = <<>>) =>
  PrintT(ToJson([result |-> result, tcp |-> tcp]))
=============================================================================
