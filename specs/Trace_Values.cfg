SPECIFICATION Spec
INVARIANT Law
