--------------------------------- MODULE Trace_RoundTrip ---------------------------------
(***************************************************************************)
(* C05, the round-trip law as the uniform judge of what the harness        *)
(* observed for every (packet class, variant, supported version):          *)
(*   the packet could be written; the frame carries the id registered for  *)
(*   that version; reading it back with a fresh instance of the same class *)
(*   consumes the payload exactly, yields equal field values (angles and   *)
(*   fixed point within one quantum), and repr() works on both.            *)
(* Observation: [wrote, idok, remaining, same, reprok, n] (n: how many     *)
(* (class, version) pairs produced this identical observation).            *)
(***************************************************************************)
EXTENDS Naturals, Sequences, TLC, Json, IOUtils
Obs == JsonDeserialize(IOEnv.TRACE_FILE)
VARIABLE i
Init == i \in 1..Len(Obs)
Spec == Init /\ [][UNCHANGED i]_i
Law == LET o == Obs[i] IN o.wrote /\ o.idok /\ o.remaining = 0 /\ o.same /\ o.reprok
=============================================================================
