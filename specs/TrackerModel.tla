---------------------------------- MODULE TrackerModel ----------------------------------
(***************************************************************************)
(* Exhaustive exploration of Trackers over a small packet alphabet, with   *)
(* the laws of C20 as invariants; every reached (history, state) is        *)
(* printed for the S->I replay.                                            *)
(***************************************************************************)
EXTENDS Trackers

CONSTANTS Alphabet, MaxLen, Emit
VARIABLES hist, S
vars == <<hist, S>>

Init == hist = <<>> /\ S = InitState
Step == /\ Len(hist) < MaxLen
        /\ \E p \in Alphabet : hist' = Append(hist, p) /\ S' = Apply(S, p)
Spec == Init /\ [][Step]_vars

AnglesWrapped == S.pos.yaw \in 0..359 /\ S.pos.pitch \in 0..359
\* a player is present iff its last add is not followed by a remove
LastTouch(u) ==
  LET idx == {i \in 1..Len(hist) : hist[i][1] = "pl" /\ hist[i][2] \in {"add", "rem"} /\ \E j \in 1..Len(hist[i][3]) : hist[i][3][j][1] = u} IN
  IF idx = {} THEN "none" ELSE hist[CHOOSE i \in idx : \A k \in idx : k <= i][2]
PresenceLaw == \A u \in Uuids : S.players[u].present => LastTouch(u) # "none"
UpdatesNeverCreate ==
  \A u \in Uuids : (\A i \in 1..Len(hist) : ~(hist[i][1] = "pl" /\ hist[i][2] = "add" /\ \E j \in 1..Len(hist[i][3]) : hist[i][3][j][1] = u))
                     => ~S.players[u].present
MapCreatedOnFirstSight == \A m \in MapIds : S.maps[m].present = (\E i \in 1..Len(hist) : hist[i][1] = "map" /\ hist[i][2] = m)
EmitRows == (Emit /\ hist # <<>>) => PrintT(ToJson([hist |-> hist, players |-> S.players, maps |-> S.maps, pos |-> S.pos]))
=============================================================================
