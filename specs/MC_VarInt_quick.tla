---------------------------- MODULE MC_VarInt_quick ----------------------------
EXTENDS MC_VarInt
MCReaderInputs == {5, 10} \X Streams(7, {2, 5})
MCWriterInputs == Below(2) \cup Powers \cup Negatives
=============================================================================
