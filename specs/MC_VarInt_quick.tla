---------------------------- MODULE MC_VarInt_quick ----------------------------
EXTENDS MC_VarInt
MCReaderInputs == <<Ladders, Three>> \o ShapeSets(7, 2)
MCWriterInputs == Powers \cup Negatives
=============================================================================
