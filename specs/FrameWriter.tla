-------------------------------- MODULE FrameWriter --------------------------------
(***************************************************************************)
(* C01, write direction: Packet._write_buffer as the code computes it, in  *)
(* sizes.  A packet's payload (id + fields) has n bytes; with a threshold  *)
(* in force and n above it the payload is deflated to c bytes (c depends   *)
(* on the content: any c in a range is possible for a given n).  The frame *)
(* on the wire is                                                          *)
(*     VarInt(pl) ++ rest,   Len(rest) = pl                                *)
(*   no compression:  rest = payload                                       *)
(*   compression:     rest = VarInt(dl) ++ data; dl = 0 and data = payload *)
(*                    or dl = n and data = deflate(payload), c bytes       *)
(* The reader (Framing.tla / the peer) takes pl from the prefix and then   *)
(* exactly pl bytes; WellFramed says those are exactly the bytes written   *)
(* for this packet, so nothing leaks into the next frame.                  *)
(*                                                                         *)
(* Variant = "code": the header sizes as the library computes them.        *)
(* Variant = "sizeByCompressed": the data-length field is sized from the   *)
(* compressed length (a seeded change): TLC must report WellFramed.        *)
(***************************************************************************)
EXTENDS FrameEnvelope, Sequences, TLC, Json

CONSTANTS Cases,        \* set of <<n, thr, c>>; thr = Off: compression not enabled
          Emit

VARIABLES case, env, pc, consumed, got
vars == <<case, env, pc, consumed, got>>

Init == /\ case \in Cases
        /\ env = Envelope(case[1], case[2], case[3])
        /\ pc = "prefix" /\ consumed = 0 /\ got = -1

Written == env.plb + env.dlb + env.body          \* bytes the writer put on the wire for this packet

\* the reader: prefix, then exactly pl bytes, of which the data length field comes first
ReadPrefix == /\ pc = "prefix" /\ consumed' = env.plb /\ pc' = "rest" /\ UNCHANGED <<case, env, got>>
ReadRest   == /\ pc = "rest" /\ consumed' = consumed + env.pl
              /\ got' = IF env.dl = -1 THEN env.pl                          \* payload bytes handed to the decoder
                        ELSE IF env.dl = 0 THEN env.pl - env.dlb
                        ELSE env.dl                                         \* inflated size announced
              /\ pc' = "done" /\ UNCHANGED <<case, env>>
Next == ReadPrefix \/ ReadRest \/ (pc = "done" /\ UNCHANGED vars)
Spec == Init /\ [][Next]_vars

\* the reader ends exactly where the writer ended: no byte of this packet is left for the next frame, none of the next is taken
WellFramed == pc = "done" => consumed = Written
\* and it is handed the n payload bytes
PayloadRecovered == pc = "done" => got = case[1]
\* the data length field is 0 exactly for uncompressed frames, and a frame below the threshold is never compressed
DataLengthMeaning == (env.dl > 0 => case[1] > case[2] /\ case[2] >= 0) /\ (env.dl = 0 => env.body = case[1])
NeverCompressedWhenOffOrNegative == (case[2] \in {Off, -1}) => env.dl \in {-1, 0}

EmitRows == (Emit /\ pc = "done") => PrintT(ToJson([n |-> case[1], thr |-> case[2], c |-> case[3], env |-> env]))
=============================================================================
