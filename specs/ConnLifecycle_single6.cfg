SPECIFICATION Spec
CONSTANTS
  Users <- MCUsers1
  Programs <- P6
  MaxThreads = 4
  MaxSocks = 6
  ServerModes <- Both
  SrvMayClose = TRUE
  Reactions <- SomeReactions
  HandlerReconnect = TRUE
  SrvMayStall = FALSE
  HEAtomic = TRUE
  ShutdownBoth = TRUE
  Fixed = TRUE
  Emit = FALSE
INVARIANT AtMostOneInIo
INVARIANT DisconnectNeverRaises
INVARIANT SlotsClearedWhenDead
INVARIANT IdleMeansConnectable
INVARIANT SuccessorAfterPredecessor
PROPERTY RefusalIsClean
PROPERTY InvalidStateIffActive
PROPERTY NoCrossTeardown
