---------------------------------- MODULE PacketCodec ----------------------------------
(***************************************************************************)
(* C05: the definition-driven field codec of Packet.  A packet's payload   *)
(* is its id as VarInt followed by the concatenation of the reference      *)
(* encodings (Wire / WireCases!Enc) of its fields in definition order.     *)
(*  - "program" mode: Init chooses a definition (sequence of typed fields  *)
(*    with values, nested arrays included) from a pool; rows are replayed  *)
(*    into user-defined Packet subclasses (both `definition` and           *)
(*    `get_definition` styles);                                            *)
(*  - "observed" mode: field lists and payloads recorded from library      *)
(*    packets at every supported version are recomputed.                   *)
(***************************************************************************)
EXTENDS WireEnc, IOUtils

CONSTANT Emit

CONSTANTS FieldPool,    \* set of <<type, value>> usable anywhere
          LastPool,     \* set of <<type, value>> only allowed as last field (trailing arrays)
          MaxFields
Observed == IF "TRACE_FILE" \in DOMAIN IOEnv THEN JsonDeserialize(IOEnv.TRACE_FILE) ELSE <<>>

VARIABLES pid, fields, payload, pphase, src,
          lay           \* the position layout of the connection's protocol era (programs are encoded under both)
pvars == <<pid, fields, payload, pphase, src, lay>>

Programs == UNION {[1..n -> FieldPool] : n \in 0..MaxFields}
            \cup {p \o <<l>> : p \in UNION {[1..n -> FieldPool] : n \in 0..(MaxFields - 1)}, l \in LastPool}

RECURSIVE HasPosition(_)
HasPosition(ty) == ty[1] = "Position" \/ (ty[1] = "PrefixedArray" /\ HasPosition(ty[3]))
PInit == /\ \/ /\ fields \in Programs /\ pid \in {0, 37, 127, 128, 300} /\ src = 0
               /\ lay \in (IF \E j \in 1..Len(fields) : HasPosition(fields[j][1]) THEN {"XYZ", "XZY"} ELSE {"XYZ"})
            \/ \E i \in 1..Len(Observed) : /\ src = i /\ pid = Observed[i].id /\ lay = "XYZ"
                                           /\ fields = [j \in 1..Len(Observed[i].fields) |-> <<Observed[i].fields[j][1], Observed[i].fields[j][2]>>]
         /\ payload = <<>> /\ pphase = "chosen"
PStep == /\ pphase = "chosen"
         /\ payload' = EncVarNat(pid) \o FlattenSeq([j \in 1..Len(fields) |-> Enc(SubstLayout(fields[j][1], lay), fields[j][2])])
         /\ pphase' = "done" /\ UNCHANGED <<pid, fields, src, lay>>
PNext == PStep \/ (pphase = "done" /\ UNCHANGED pvars)
PSpec == PInit /\ [][PNext]_pvars

\* what the library wrote for its own definitions is the reference encoding, or an admissible alternative
\* (angles / fixed point within one quantum are normalised by the harness to exact steps)
ObservedMatches == (pphase = "done" /\ src > 0) => payload = Observed[src].payload
PEmit == (Emit /\ pphase = "done" /\ src = 0) => PrintT(ToJson([id |-> pid, fields |-> fields, payload |-> payload, lay |-> lay]))
=============================================================================
