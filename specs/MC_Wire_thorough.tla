----------------------------- MODULE MC_Wire_thorough ----------------------------
EXTENDS MC_Wire
MCCases == <<Exhaustive8, IntBoundaries, Bools, VarInts, Floats, Strings, ByteArrays, Uuids, Fixed, Arrays,
            Angles(-20480, 20480)>>
=============================================================================
