SPECIFICATION Spec
CONSTANTS Cases <- CasesV
 Off <- OffV
 Variant = "code"
 Emit = FALSE
INVARIANT WellFramed
INVARIANT PayloadRecovered
INVARIANT DataLengthMeaning
INVARIANT NeverCompressedWhenOffOrNegative
