---------------------------------- MODULE AuthToken ----------------------------------
(***************************************************************************)
(* C19: the authentication token against the Yggdrasil service.            *)
(* State: the five stored fields, each "none" or a value.  One transition  *)
(* per (state, operation, reply shape): the request the operation must     *)
(* post, its outcome, and the state afterwards.  Combinations the property *)
(* does not constrain have outcome "any" (recorded, never judged).         *)
(*                                                                         *)
(* Reply = <<status, body>>, body in "result" (valid result object),       *)
(* "error" (error + errorMessage), "partial" (error only), "nonjson",      *)
(* "empty".                                                                *)
(***************************************************************************)
EXTENDS Naturals, Sequences, FiniteSets, TLC, Json

CONSTANTS Values,       \* values a stored field may hold besides "none"
          Statuses, Bodies, Emit

Ops == {"authenticate", "authenticate_inv", "refresh", "validate", "invalidate", "join", "sign_out"}
Fields == {"username", "access", "client", "pid", "pname"}
TokenStates == [Fields -> Values \cup {"none"}]

VARIABLES tok, op, reply, req, out, nxt, phase
vars == <<tok, op, reply, req, out, nxt, phase>>

Authenticated(t) == \A f \in Fields : t[f] # "none"
IsError(r) == r[1] >= 400
FullError(r) == r[2] = "error"

\* what a successful authenticate / refresh stores (the values of the result body)
Stored(t, o) == [t EXCEPT !["access"] = "A2", !["client"] = "C2", !["pid"] = "P2", !["pname"] = "N2",
                          !["username"] = IF o \in {"authenticate", "authenticate_inv"} THEN "U2" ELSE t["username"]]

NoReq == [ep |-> "none"]
\* expected request: endpoint and the payload fields that must be present with these values
Request(t, o) ==
  CASE o = "authenticate"     -> [ep |-> "auth/authenticate", user |-> "U2", agent |-> TRUE,
                                  ctok |-> IF t["client"] = "none" THEN "fresh" ELSE t["client"]]
    [] o = "authenticate_inv" -> [ep |-> "auth/authenticate", user |-> "U2", agent |-> TRUE, ctok |-> "absent"]
    [] o = "refresh"          -> [ep |-> "auth/refresh", access |-> t["access"], client |-> t["client"]]
    [] o = "validate"         -> [ep |-> "auth/validate", access |-> t["access"]]
    [] o = "invalidate"       -> [ep |-> "auth/invalidate", access |-> t["access"], client |-> t["client"]]
    [] o = "join"             -> [ep |-> "session/join", access |-> t["access"], pid |-> t["pid"], server |-> "S1"]
    [] o = "sign_out"         -> [ep |-> "auth/signout", user |-> "U2"]

ErrOut(r) == IF FullError(r) THEN "YggdrasilError:fields" ELSE "YggdrasilError:malformed"

\* outcome and next state
Transition(t, o, r) ==
  CASE o \in {"authenticate", "authenticate_inv"} ->
         IF r = <<200, "result">> THEN [req |-> Request(t, o), out |-> "True", nxt |-> Stored(t, o)]
         ELSE IF IsError(r) THEN [req |-> Request(t, o), out |-> ErrOut(r), nxt |-> t]
         ELSE [req |-> Request(t, o), out |-> "any", nxt |-> t]
    [] o = "refresh" ->
         IF t["access"] = "none" \/ t["client"] = "none" THEN [req |-> NoReq, out |-> "ValueError", nxt |-> t]
         ELSE IF r = <<200, "result">> THEN [req |-> Request(t, o), out |-> "True", nxt |-> Stored(t, o)]
         ELSE IF IsError(r) THEN [req |-> Request(t, o), out |-> ErrOut(r), nxt |-> t]
         ELSE [req |-> Request(t, o), out |-> "any", nxt |-> t]
    [] o = "validate" ->
         IF t["access"] = "none" THEN [req |-> NoReq, out |-> "ValueError", nxt |-> t]
         ELSE IF r[1] = 204 THEN [req |-> Request(t, o), out |-> "True", nxt |-> t]
         ELSE [req |-> Request(t, o), out |-> "NotTrue", nxt |-> t]
    [] o = "invalidate" ->
         IF r[1] = 204 THEN [req |-> Request(t, o), out |-> "True", nxt |-> t]
         ELSE IF IsError(r) THEN [req |-> Request(t, o), out |-> ErrOut(r), nxt |-> t]
         ELSE [req |-> Request(t, o), out |-> "any", nxt |-> t]
    [] o = "join" ->
         IF ~Authenticated(t) THEN [req |-> NoReq, out |-> "YggdrasilError:unauthenticated", nxt |-> t]
         ELSE IF r[1] = 204 THEN [req |-> Request(t, o), out |-> "True", nxt |-> t]
         ELSE IF IsError(r) THEN [req |-> Request(t, o), out |-> ErrOut(r), nxt |-> t]
         ELSE [req |-> Request(t, o), out |-> "any", nxt |-> t]
    [] o = "sign_out" ->
         IF IsError(r) THEN [req |-> Request(t, o), out |-> ErrOut(r), nxt |-> t]
         ELSE IF r = <<200, "empty">> \/ r = <<200, "result">> THEN [req |-> Request(t, o), out |-> "True", nxt |-> t]
         ELSE [req |-> Request(t, o), out |-> "any", nxt |-> t]

Init == /\ tok \in TokenStates /\ op \in Ops /\ reply \in (Statuses \X Bodies)
        /\ req = NoReq /\ out = "pending" /\ nxt = tok /\ phase = "chosen"
Step == /\ phase = "chosen"
        /\ LET tr == Transition(tok, op, reply) IN req' = tr.req /\ out' = tr.out /\ nxt' = tr.nxt
        /\ phase' = "done" /\ UNCHANGED <<tok, op, reply>>
Next == Step \/ (phase = "done" /\ UNCHANGED vars)
Spec == Init /\ [][Next]_vars

----------------------------------------------------------------------------
Done == phase = "done"
ErrorsLeaveStateUntouched == (Done /\ out \notin {"True", "any"}) => nxt = tok
OnlyAuthRefreshStore == (Done /\ nxt # tok) => (op \in {"authenticate", "authenticate_inv", "refresh"} /\ out = "True")
JoinNeedsAuthentication == (Done /\ op = "join" /\ ~Authenticated(tok)) => (req = NoReq /\ out = "YggdrasilError:unauthenticated")
ValidateTrueOnlyOn204 == (Done /\ op = "validate" /\ out = "True") => reply[1] = 204
SuccessMakesAuthenticated == (Done /\ op \in {"authenticate", "authenticate_inv"} /\ out = "True") => Authenticated(nxt)
ErrorRepliesRaise == (Done /\ IsError(reply) /\ op # "validate" /\ req # NoReq) => (out \in {"YggdrasilError:fields", "YggdrasilError:malformed"})

EmitRows == (Emit /\ Done) =>
  PrintT(ToJson([tok |-> tok, op |-> op, reply |-> reply, req |-> req, out |-> out, nxt |-> nxt,
                 auth |-> Authenticated(tok), authAfter |-> Authenticated(nxt)]))
=============================================================================
