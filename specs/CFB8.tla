------------------------------------ MODULE CFB8 ------------------------------------
(***************************************************************************)
(* AES-128 in 8-bit cipher feedback mode with IV = key (the Minecraft      *)
(* protocol's stream cipher): c_i = p_i xor msb(E_k(S_i)),                 *)
(* S_(i+1) = (S_i << 8) | c_i, S_0 = key.  A cipher state is               *)
(* [ks |-> key schedule, reg |-> shift register].                          *)
(***************************************************************************)
EXTENDS AES128

NewCipher(key) == [ks |-> KeySchedule(key), reg |-> key]
KeyStreamByte(st) == EncryptWith(st.ks, st.reg)[1]
Shift(st, c) == [st EXCEPT !.reg = Tail(st.reg) \o <<c>>]

\* encrypt a chunk: returns [st, out]
EncryptChunk(st, plain) ==
  FoldLeft(LAMBDA acc, p : LET c == p ^^ KeyStreamByte(acc.st) IN [st |-> Shift(acc.st, c), out |-> Append(acc.out, c)],
           [st |-> st, out |-> <<>>], plain)
DecryptChunk(st, cipher) ==
  FoldLeft(LAMBDA acc, c : LET p == c ^^ KeyStreamByte(acc.st) IN [st |-> Shift(acc.st, c), out |-> Append(acc.out, p)],
           [st |-> st, out |-> <<>>], cipher)
=============================================================================
