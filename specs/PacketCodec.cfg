SPECIFICATION PSpec
CONSTANTS
  Emit = TRUE
  FieldPool <- MCFieldPool
  LastPool <- MCLastPool
  MaxFields = 2
INVARIANT ObservedMatches
INVARIANT PEmit
