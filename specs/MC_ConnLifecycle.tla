----------------------------- MODULE MC_ConnLifecycle -----------------------------
EXTENDS ConnLifecycle
Ops == {"connect", "disc", "disc_now"}
ProgramsUpTo(n) == UNION {[1..m -> Ops] : m \in 0..n}
MCUsers2 == {"u1", "u2"}
MCUsers1 == {"u1"}
P2 == ProgramsUpTo(2)
P3 == ProgramsUpTo(3)
P4 == ProgramsUpTo(4)
P6 == UNION {[1..m -> Ops] : m \in 4..6}
NoReactions == {}
SomeReactions == {"disc_pkt", "raise"}
Both == {"accept", "refuse"}
AllReactions == {"disc_pkt", "reconnect", "raise"}
=============================================================================
