---------------------------------- MODULE Versions ----------------------------------
(***************************************************************************)
(* C08, dynamic part: the version records, the tables derived from them    *)
(* (minecraft/__init__.py initglobals) and run-time extension.             *)
(*                                                                         *)
(* records   sequence of [id, p, sup]   KNOWN_MINECRAFT_VERSION_RECORDS    *)
(* supMap    ordered map id -> p        SUPPORTED_MINECRAFT_VERSIONS       *)
(*           (a user may also extend this one directly and re-initialise   *)
(*            with use_known_records = FALSE)                              *)
(* tab       the derived tables                                            *)
(* Ordered maps are sequences of <<id, p>> with unique ids (OrderedDict:   *)
(* a new key is appended, an existing key keeps its place).                *)
(***************************************************************************)
EXTENDS Naturals, Sequences, SequencesExt, FiniteSets, TLC, Json

CONSTANTS BaseRecords,    \* initial records
          NewRecords,     \* pool of records that may be inserted
          NewSupported,   \* pool of <<id, p>> that may be added to supMap directly
          ReleaseIds,     \* ids that look like releases (\d+(\.\d+)+)
          MaxOps, Emit

VARIABLES records, supMap, tab, hist
vars == <<records, supMap, tab, hist>>

Put(m, id, p) == IF \E i \in 1..Len(m) : m[i][1] = id
                 THEN [i \in 1..Len(m) |-> IF m[i][1] = id THEN <<id, p>> ELSE m[i]]
                 ELSE Append(m, <<id, p>>)
AddDistinct(s, x) == IF \E i \in 1..Len(s) : s[i] = x THEN s ELSE Append(s, x)

\* the projections the property prescribes
KnownMapOf(recs)  == FoldLeft(LAMBDA m, r : Put(m, r.id, r.p), <<>>, recs)
ProtosOf(m)       == FoldLeft(LAMBDA s, e : AddDistinct(s, e[2]), <<>>, m)
KnownProtosOf(recs) == FoldLeft(LAMBDA s, r : AddDistinct(s, r.p), <<>>, recs)
SupMapOf(recs)    == FoldLeft(LAMBDA m, r : IF r.sup THEN Put(m, r.id, r.p) ELSE m, <<>>, recs)
ReleaseMapOf(m)   == SelectSeq(m, LAMBDA e : e[1] \in ReleaseIds)
IndexOf(ps)       == [i \in 1..Len(ps) |-> <<ps[i], i - 1>>]        \* protocol -> 0-based rank

FromSup(sm, knownPart) ==
  [known |-> knownPart.known, knownP |-> knownPart.knownP, idx |-> knownPart.idx,
   supP |-> ProtosOf(sm), relMap |-> ReleaseMapOf(sm), relP |-> ProtosOf(ReleaseMapOf(sm))]
KnownPart(recs) == [known |-> KnownMapOf(recs), knownP |-> KnownProtosOf(recs), idx |-> IndexOf(KnownProtosOf(recs))]

Init == /\ records = BaseRecords
        /\ supMap = SupMapOf(BaseRecords)
        /\ tab = FromSup(SupMapOf(BaseRecords), KnownPart(BaseRecords))
        /\ hist = <<>>

Used(id) == \E i \in 1..Len(records) : records[i].id = id
UsedSup(id) == \E i \in 1..Len(supMap) : supMap[i][1] = id

\* KNOWN_MINECRAFT_VERSION_RECORDS.insert(pos, rec)
Extend == /\ Len(hist) < MaxOps
          /\ \E r \in NewRecords, pos \in 0..Len(records) :
               /\ \A i \in 1..Len(records) : records[i] # r    \* (an id may be listed again, with another protocol or flag:
               /\ records' = InsertAt(records, pos + 1, r)
                                                               \*  the later record's protocol wins, the id keeps its place)
               /\ hist' = Append(hist, [op |-> "extend", pos |-> pos, id |-> r.id, p |-> r.p, sup |-> r.sup])
          /\ UNCHANGED <<supMap, tab>>

\* SUPPORTED_MINECRAFT_VERSIONS[id] = p
ExtendSup == /\ Len(hist) < MaxOps
             /\ \E e \in NewSupported :
                  /\ ~UsedSup(e[1])
                  /\ supMap' = Put(supMap, e[1], e[2])
                  /\ hist' = Append(hist, [op |-> "extend_sup", id |-> e[1], p |-> e[2]])
             /\ UNCHANGED <<records, tab>>

\* initglobals(use_known_records)
Reinit(useKnown) ==
  /\ Len(hist) < MaxOps
  /\ LET sm == IF useKnown THEN SupMapOf(records) ELSE supMap
         kp == IF useKnown THEN KnownPart(records) ELSE [known |-> tab.known, knownP |-> tab.knownP, idx |-> tab.idx]
     IN /\ supMap' = sm
        /\ tab' = FromSup(sm, kp)
  /\ hist' = Append(hist, [op |-> "reinit", known |-> useKnown])
  /\ UNCHANGED records

Next == Extend \/ ExtendSup \/ Reinit(TRUE) \/ Reinit(FALSE)
Spec == Init /\ [][Next]_vars

----------------------------------------------------------------------------
LastOp == IF hist = <<>> THEN [op |-> "init"] ELSE hist[Len(hist)]

\* after a full re-initialisation every table is the projection of the records
TablesAreProjections ==
  (LastOp.op = "init" \/ (LastOp.op = "reinit" /\ LastOp.known)) =>
     /\ tab.known = KnownMapOf(records)
     /\ tab.knownP = KnownProtosOf(records)
     /\ supMap = SupMapOf(records)
     /\ tab.supP = ProtosOf(supMap)
     /\ tab.relMap = ReleaseMapOf(supMap)
     /\ tab.relP = ProtosOf(tab.relMap)
     /\ tab.idx = IndexOf(tab.knownP)
\* after a partial one the supported / release tables follow supMap
SupportedFollowSupMap ==
  LastOp.op = "reinit" => /\ tab.supP = ProtosOf(supMap)
                          /\ tab.relMap = ReleaseMapOf(supMap)
                          /\ tab.relP = ProtosOf(tab.relMap)
NoDuplicates ==
  /\ \A i, j \in 1..Len(tab.knownP) : tab.knownP[i] = tab.knownP[j] => i = j
  /\ \A i, j \in 1..Len(tab.supP) : tab.supP[i] = tab.supP[j] => i = j
  /\ \A i, j \in 1..Len(tab.relP) : tab.relP[i] = tab.relP[j] => i = j
\* re-initialising is idempotent
Idempotent ==
  [][\A b \in BOOLEAN : (LastOp.op = "reinit" /\ LastOp.known = b /\ hist' = Append(hist, [op |-> "reinit", known |-> b]))
        => (tab' = tab /\ supMap' = supMap)]_vars
\* the order is the list order: a protocol first seen earlier has a smaller rank
FirstPos(p) == CHOOSE i \in 1..Len(records) : records[i].p = p /\ \A m \in 1..(i - 1) : records[m].p # p
RankOf(p) == (CHOOSE n \in 1..Len(tab.idx) : tab.idx[n][1] = p)
RankIsFirstOccurrence ==
  (LastOp.op = "init" \/ (LastOp.op = "reinit" /\ LastOp.known)) =>
    LET ps == {records[i].p : i \in 1..Len(records)} IN
    /\ \A p \in ps : \E n \in 1..Len(tab.idx) : tab.idx[n][1] = p
    /\ \A p \in ps, q \in ps : FirstPos(p) < FirstPos(q) => tab.idx[RankOf(p)][2] < tab.idx[RankOf(q)][2]

EmitRows == (Emit /\ Len(hist) = MaxOps) =>
   PrintT(ToJson([hist |-> hist, records |-> records, supMap |-> supMap, tab |-> tab]))
=============================================================================
