SPECIFICATION Spec
INVARIANT Law
