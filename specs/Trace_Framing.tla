------------------------------- MODULE Trace_Framing -------------------------------
(***************************************************************************)
(* I->S for C01 / C15: traces of the real reader over a known frame table  *)
(* are judged by the contract of Framing.tla:                              *)
(*   deliveries are the frames in order, each once (DeliveredIsPrefix);    *)
(*   at each delivery the bytes consumed from the socket are exactly the   *)
(*   end offset of that frame (DispatchAtBoundary: nothing leaks into the  *)
(*   next frame, unknown ids skipped whole); content and id as sent (ok);  *)
(*   nothing is delivered that lies beyond the cut (NoPartialDelivery);    *)
(*   a read never returns more than was asked or available;                *)
(*   after the end of the stream at most MaxEmptyReads reads return empty  *)
(*   and the reader leaves with an error (C15).                            *)
(* Trace: [ends |-> <<end offsets>>, total, ev |-> <<events>>, mustLeave,  *)
(*         allDelivered (C01: every complete frame must reach the          *)
(*         listeners; C15: a reaction may fail on the dead connection)]    *)
(* Events: [k |-> "read", want, got, off] [k |-> "deliver", i, off, ok]    *)
(*         [k |-> "left", how]                                             *)
(***************************************************************************)
EXTENDS Naturals, Sequences, TLC, Json, IOUtils

Traces == JsonDeserialize(IOEnv.TRACE_FILE)
MaxEmptyReads == 2

VARIABLES tid, l, consumed, ndel, empties, left, rejected
vars == <<tid, l, consumed, ndel, empties, left, rejected>>
T == Traces[tid]
Ev == T.ev

Init == tid \in 1..Len(Traces) /\ l = 1 /\ consumed = 0 /\ ndel = 0 /\ empties = 0 /\ left = FALSE /\ rejected = ""
Reject(why) == rejected' = why /\ UNCHANGED <<tid, l, consumed, ndel, empties, left>>

Step ==
  /\ rejected = "" /\ l <= Len(Ev)
  /\ LET e == Ev[l] IN
     CASE e.k = "read" ->
            IF e.off # consumed THEN Reject("read does not continue where the previous one stopped")
            ELSE IF e.got > e.want \/ consumed + e.got > T.total THEN Reject("read returned more than asked or than the server sent")
            ELSE IF left THEN Reject("read after the reader had left")
            ELSE /\ consumed' = consumed + e.got
                 /\ empties' = IF e.got = 0 /\ e.want > 0 THEN empties + 1 ELSE empties
                 /\ l' = l + 1 /\ UNCHANGED <<tid, ndel, left, rejected>>
       [] e.k = "deliver" ->
            IF e.i # ndel + 1 THEN Reject("packet delivered out of order, twice, or skipped")
            ELSE IF e.i > Len(T.ends) THEN Reject("a packet was delivered that the server never sent")
            ELSE IF T.ends[e.i] > T.total THEN Reject("a packet was delivered that the server did not send completely")
            ELSE IF consumed # T.ends[e.i] THEN Reject("at delivery the reader is not at the end of that frame (bytes leak between frames)")
            ELSE IF ~e.ok THEN Reject("delivered packet differs from the packet sent (id or payload)")
            ELSE /\ ndel' = ndel + 1 /\ l' = l + 1 /\ UNCHANGED <<tid, consumed, empties, left, rejected>>
       [] e.k = "left" ->
            /\ left' = TRUE /\ l' = l + 1 /\ UNCHANGED <<tid, consumed, ndel, empties, rejected>>
       [] OTHER -> Reject("unknown event")
Spec == Init /\ [][Step]_vars

Accepted == rejected = ""
BoundedEmptyReads == empties <= MaxEmptyReads
\* at the end: every completely sent frame was delivered, and if the stream was cut the reader left with an error
FinalOk ==
  (rejected = "" /\ l = Len(Ev) + 1) =>
     /\ T.allDelivered => \A j \in 1..Len(T.ends) : (T.ends[j] <= T.total) => j <= ndel
     /\ T.mustLeave => left
=============================================================================
