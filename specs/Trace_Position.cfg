SPECIFICATION TraceSpec
CONSTANTS
  Cases <- NoCases
  Emit = FALSE
INVARIANT BytesMatch
INVARIANT PosInverse
