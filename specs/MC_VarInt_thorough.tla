--------------------------- MODULE MC_VarInt_thorough --------------------------
EXTENDS MC_VarInt
MCReaderInputs == {5, 10} \X Streams(12, 1..7)
MCWriterInputs == Below(3) \cup Powers \cup Negatives
=============================================================================
