--------------------------- MODULE MC_VarInt_thorough --------------------------
EXTENDS MC_VarInt
MCReaderInputs == <<Ladders, Three>> \o ShapeSets(12, 7)
MCWriterInputs == Powers \cup Negatives
=============================================================================
