------------------------------- MODULE MC_VarInt -------------------------------
(* Input sets for the exhaustive runs of VarIntCodec.  TLC evaluates every   *)
(* zero-arity constant definition at start-up, so the big sets are          *)
(* parameterised here and instantiated in MC_VarInt_quick / _thorough.      *)
EXTENDS VarIntCodec

Byte == 0..255
Seqs(S, n) == [1..n -> S]

\* every byte string of length <= 2, for VarInt and VarLong

\* payload patterns used to fill the 7 payload bits of long inputs
Pat(k, i) == CASE k = 1 -> 0
               [] k = 2 -> 127
               [] k = 3 -> 1
               [] k = 4 -> 64
               [] k = 5 -> (i * 37) % 128
               [] k = 6 -> IF i = 1 THEN 1 ELSE 0
               [] OTHER -> 85

\* all continuation-bit shapes of length n, each filled with pattern k
Shapes(n, k) == {[i \in 1..n |-> (IF c[i] THEN 128 ELSE 0) + Pat(k, i)] : c \in [1..n -> BOOLEAN]}

\* k continuation bytes, then (optionally) a terminator, then junk j (tests "no read past")
Ladder(k, term, junk, pk) ==
  [i \in 1..(k + (IF term THEN 1 ELSE 0) + junk) |->
      IF i <= k THEN 128 + Pat(pk, i)
      ELSE IF term /\ i = k + 1 THEN Pat(pk, i)
      ELSE 255]

Ladders == {Ladder(k, t, j, pk) : k \in 0..13, t \in BOOLEAN, j \in 0..2, pk \in 1..7}

\* three-byte strings over boundary payloads with every continuation shape
B3 == {0, 1, 2, 63, 64, 126, 127}
Three == {[i \in 1..3 |-> (IF c[i] THEN 128 ELSE 0) + p[i]] : c \in [1..3 -> BOOLEAN], p \in [1..3 -> B3]}

\* one set per (length, pattern): never unioned (TLC's union of comprehension sets is quadratic)
ShapeSets(maxShape, npats) == [j \in 1..((maxShape - 2) * npats) |-> Shapes(((j - 1) \div npats) + 3, ((j - 1) % npats) + 1)]

\* ---- writer inputs: <<digits, ext>> ----
Digit == 0..127
Below(nd) == {<<Strip(d), 0>> : d \in Seqs(Digit, nd)}          \* every n < 2^(7*nd)

Pow2(j) == CASE j = 0 -> 1 [] j = 1 -> 2 [] j = 2 -> 4 [] j = 3 -> 8
             [] j = 4 -> 16 [] j = 5 -> 32 [] j = 6 -> 64

\* 2^k, 2^k - 1, 2^k + 1 as digit lists, k in 0..77
PowK(k)   == [i \in 1..((k \div 7) + 1) |-> IF i = (k \div 7) + 1 THEN Pow2(k % 7) ELSE 0]
PowKm1(k) == Strip([i \in 1..((k \div 7) + 1) |-> IF i = (k \div 7) + 1 THEN Pow2(k % 7) - 1 ELSE 127])
PowKp1(k) == IF k = 0 THEN <<2>>
             ELSE [i \in 1..((k \div 7) + 1) |->
                     (IF i = (k \div 7) + 1 THEN Pow2(k % 7) ELSE 0) + (IF i = 1 THEN 1 ELSE 0)]
Powers == UNION {{<<PowK(k), 0>>, <<PowKm1(k), 0>>, <<PowKp1(k), 0>>} : k \in 0..77}

\* negatives: -1, -2, -128, -2^31, -(2^63), an arbitrary one
Negatives == {<<<<>>, 127>>, <<<<126>>, 127>>, <<<<0>>, 127>>, <<<<0, 0, 0, 0, 120>>, 127>>,
              <<<<0, 0, 0, 0, 0, 0, 0, 0, 0, 127>>, 127>>, <<<<1, 2, 3>>, 127>>}

NegativeOnly == Negatives
None         == {}
NoStreams    == <<>>
=============================================================================
