-------------------------------- MODULE Trace_Cipher --------------------------------
(***************************************************************************)
(* I->S for C18: what passed through the real encryption wrappers (and,    *)
(* for whole logins, the random source and the RSA blocks the key holder   *)
(* recovered) is recomputed with the TLA+ AES-128 / CFB8:                  *)
(*  - bytes sent are the CFB8 encryption (key = IV = secret) of the        *)
(*    plaintext as ONE continuous stream over all send calls;              *)
(*  - bytes received decrypt likewise over all read / recv calls, with a   *)
(*    register independent of the sending direction;                       *)
(*  - the secret is a 16-byte draw from the system entropy source made      *)
(*    during that login (os.urandom, however reached), and different in    *)
(*    every login of the run although every deterministic generator of the *)
(*    process is reset to the same state before each login;                *)
(*  - secret and verify token reach the server as PKCS#1 v1.5 type-2       *)
(*    blocks: 00 02 PS 00 M, PS non-zero, at least 8 bytes, total = key    *)
(*    length.                                                              *)
(* Trace: [key (16 bytes keying both ends), secret (recovered from the RSA  *)
(*         block), login (bool), urandom, kl, blocks |-> <<emSecret,        *)
(*         emToken>>, token, ev |-> <<[k |-> "send"|"read", p, c]>>]       *)
(***************************************************************************)
EXTENDS CFB8, Json, IOUtils

Traces == JsonDeserialize(IOEnv.TRACE_FILE)

VARIABLES tid, l, enc, dec, rejected
vars == <<tid, l, enc, dec, rejected>>
T == Traces[tid]
Ev == T.ev

\* EM = 00 02 PS 00 M
Pkcs1Ok(em, kl, m) ==
  /\ Len(em) = kl /\ Len(m) + 11 <= kl
  /\ em[1] = 0 /\ em[2] = 2
  /\ LET ps == kl - Len(m) - 3 IN
       /\ ps >= 8
       /\ \A i \in 3..(2 + ps) : em[i] # 0
       /\ em[3 + ps] = 0
       /\ SubSeq(em, 4 + ps, kl) = m

LoginOk(t) ==
  ~t.login \/
  ( /\ Len(t.secret) = 16 /\ t.key = t.secret    \* the peer keys its cipher with what the RSA block carried
    /\ \E i \in 1..Len(t.urandom) : t.urandom[i] = t.secret    \* the secret is one 16-byte draw from the system entropy source
    /\ Pkcs1Ok(t.blocks[1], t.kl, t.secret)
    /\ Pkcs1Ok(t.blocks[2], t.kl, t.token) )

\* secrets of different logins differ
ASSUME DistinctSecrets ==
  \A i, j \in 1..Len(Traces) : (i # j /\ Traces[i].login /\ Traces[j].login) => Traces[i].secret # Traces[j].secret

Init == /\ tid \in 1..Len(Traces) /\ l = 1 /\ rejected = ""
        /\ enc = NewCipher(Traces[tid].key) /\ dec = NewCipher(Traces[tid].key)

Step ==
  /\ rejected = "" /\ l <= Len(Ev)
  /\ LET e == Ev[l] IN
     IF e.k = "send"
     THEN LET r == EncryptChunk(enc, e.p) IN
          IF r.out = e.c THEN /\ enc' = r.st /\ l' = l + 1 /\ UNCHANGED <<tid, dec, rejected>>
          ELSE /\ rejected' = "bytes sent are not the CFB8 encryption of the plaintext stream" /\ UNCHANGED <<tid, l, enc, dec>>
     ELSE LET r == DecryptChunk(dec, e.c) IN
          IF r.out = e.p THEN /\ dec' = r.st /\ l' = l + 1 /\ UNCHANGED <<tid, enc, rejected>>
          ELSE /\ rejected' = "bytes received do not decrypt as one continuous CFB8 stream" /\ UNCHANGED <<tid, l, enc, dec>>
Spec == Init /\ [][Step]_vars

Accepted == rejected = ""
SecretsReachServer == LoginOk(T)
\* the two directions never share a register: after the first byte in either direction they differ unless both streams agree
RegistersAreShiftedStreams == Len(enc.reg) = 16 /\ Len(dec.reg) = 16
=============================================================================
