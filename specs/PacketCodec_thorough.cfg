SPECIFICATION PSpec
CONSTANTS
  Emit = TRUE
  FieldPool <- MCFieldPool
  LastPool <- MCLastPool
  MaxFields = 3
INVARIANT ObservedMatches
INVARIANT PEmit
