SPECIFICATION Spec
CONSTANTS
  Streams <- MCStreamsSmall
  EofCheck = TRUE
  MaxEmpty = 3
  Emit = TRUE
CONSTRAINT Bounded
INVARIANT DispatchAtBoundary
INVARIANT EmitRows
