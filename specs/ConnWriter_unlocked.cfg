SPECIFICATION Spec
CONSTANTS
  Users <- MCUsers
  Progs <- MCProgs
  W = 2
  Locked = FALSE
  Login = FALSE
  SwapUnderLock = TRUE
INVARIANT FramesContiguous
INVARIANT ExactlyOnce
INVARIANT QueuedFifo
INVARIANT FlushBeforeClose
INVARIANT NothingAfterImmediate
PROPERTY SendOnlyUnderLock
