SPECIFICATION Spec
CONSTANTS Cases <- CasesV
 Off <- OffV
 Variant = "sizeByCompressed"
 Emit = FALSE
INVARIANT WellFramed
INVARIANT PayloadRecovered
INVARIANT DataLengthMeaning
INVARIANT NeverCompressedWhenOffOrNegative
