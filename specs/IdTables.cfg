SPECIFICATION Spec
CONSTANT MaxClasses = 5
INVARIANT DispatchRight
