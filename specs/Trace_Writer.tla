-------------------------------- MODULE Trace_Writer --------------------------------
(***************************************************************************)
(* I->S for C12: traces of real executions (1..4 user threads issuing      *)
(* queued and forced writes and a final disconnect against the networking  *)
(* thread's write loop, with compression / encryption, under preemption-   *)
(* bounded and seeded random schedules) judged by the CONTRACT:            *)
(*  - every socket send happens while the sender owns the write lock;      *)
(*  - the bytes of one frame are contiguous on the wire and come from one  *)
(*    thread (in one or more sends), frames never interleave;              *)
(*  - each handed packet is on the wire at most once, and exactly once if  *)
(*    it was handed before a non-immediate disconnect took effect;         *)
(*  - queued packets of one thread appear in the order they were queued;   *)
(*  - a non-immediate disconnect closes only after everything queued       *)
(*    before it has been sent; after an immediate disconnect has taken     *)
(*    effect nothing further is sent.                                      *)
(* Events (the harness maps each send onto the frame it belongs to by its  *)
(* offset in the stream the independent peer decoded):                     *)
(*  [k |-> "handq", t, p] (a non-forced write_packet call begins)            *)
(*  [k |-> "qdone", t, p] (it returned)                                      *)
(*  [k |-> "forced", t, p] (a forced write returned ok)                      *)
(*  [k |-> "chunk", t, p, first, last, lockok]                             *)
(*  [k |-> "disc_point", imm]  [k |-> "closed"]  [k |-> "final", decoded]  *)
(***************************************************************************)
EXTENDS Naturals, Sequences, FiniteSets, TLC, Json, IOUtils

Traces == JsonDeserialize(IOEnv.TRACE_FILE)

VARIABLES tid, l, enq, qdone, done, cur, curBy, discQ, discSeen, immSeen, closed, forced, rejected
vars == <<tid, l, enq, qdone, done, cur, curBy, discQ, discSeen, immSeen, closed, forced, rejected>>
Ev == Traces[tid].ev

Init == /\ tid \in 1..Len(Traces) /\ l = 1 /\ enq = <<>> /\ qdone = {} /\ done = {} /\ cur = 0 /\ curBy = "none"
        /\ discQ = {} /\ discSeen = FALSE /\ immSeen = FALSE /\ closed = FALSE /\ forced = {} /\ rejected = ""
Reject(why) == rejected' = why /\ UNCHANGED <<tid, l, enq, qdone, done, cur, curBy, discQ, discSeen, immSeen, closed, forced>>
Adv == l' = l + 1 /\ UNCHANGED <<tid, rejected>>

\* packets handed by thread t with non-forced writes that are not on the wire yet, oldest first
PendingOf(t) == SelectSeq(enq, LAMBDA x : x[1] = t /\ x[2] \notin done /\ x[2] # cur)

Step ==
  /\ rejected = "" /\ l <= Len(Ev)
  /\ LET e == Ev[l] IN
     CASE e.k = "handq" -> Adv /\ enq' = Append(enq, <<e.t, e.p>>)
                           /\ UNCHANGED <<qdone, done, cur, curBy, discQ, discSeen, immSeen, closed, forced>>
       [] e.k = "qdone" -> Adv /\ qdone' = qdone \cup {e.p}
                           /\ UNCHANGED <<enq, done, cur, curBy, discQ, discSeen, immSeen, closed, forced>>
       [] e.k = "forced" -> Adv /\ forced' = forced \cup {e.p}
                            /\ UNCHANGED <<enq, qdone, done, cur, curBy, discQ, discSeen, immSeen, closed>>
       [] e.k = "chunk" ->
            IF ~e.lockok THEN Reject("a socket send happened while the sender did not own the write lock")
            ELSE IF immSeen THEN Reject("bytes were sent after an immediate disconnect had taken effect")
            ELSE IF closed THEN Reject("bytes were sent after the connection had been closed")
            ELSE IF e.p = 0 THEN Reject("bytes on the wire that belong to no handed packet")
            ELSE IF e.first /\ cur # 0 THEN Reject("a new frame starts inside an unfinished frame (frames interleave)")
            ELSE IF ~e.first /\ (cur # e.p \/ curBy # e.t) THEN Reject("a frame is continued by another thread or after another frame (not contiguous)")
            ELSE IF e.first /\ e.p \in done THEN Reject("a packet is on the wire twice")
            ELSE IF e.first /\ (\E i \in 1..Len(enq) : enq[i][2] = e.p) /\
                    (LET owner == (CHOOSE i \in 1..Len(enq) : enq[i][2] = e.p) IN
                       PendingOf(enq[owner][1]) # <<>> /\ Head(PendingOf(enq[owner][1]))[2] # e.p)
                 THEN Reject("queued packets of one thread are sent out of order")
            ELSE /\ Adv
                 /\ cur' = IF e.last THEN 0 ELSE e.p
                 /\ curBy' = IF e.last THEN "none" ELSE e.t
                 /\ done' = IF e.last THEN done \cup {e.p} ELSE done
                 /\ UNCHANGED <<enq, qdone, discQ, discSeen, immSeen, closed, forced>>
       [] e.k = "disc_point" ->
            /\ Adv
            /\ IF e.imm THEN immSeen' = TRUE /\ UNCHANGED <<discQ, discSeen>>
               ELSE /\ discSeen' = TRUE /\ immSeen' = immSeen
                    /\ discQ' = IF discSeen THEN discQ ELSE qdone \ done
            /\ UNCHANGED <<enq, qdone, done, cur, curBy, closed, forced>>
       [] e.k = "closed" ->
            IF discSeen /\ ~immSeen /\ ~(discQ \subseteq done)
            THEN Reject("the connection was closed before everything queued before the disconnect had been sent")
            ELSE IF cur # 0 THEN Reject("the connection was closed in the middle of a frame")
            ELSE Adv /\ closed' = TRUE /\ UNCHANGED <<enq, qdone, done, cur, curBy, discQ, discSeen, immSeen, forced>>
       [] e.k = "final" ->
            IF ~e.decoded THEN Reject("the independent peer could not decode the byte stream as well-formed frames")
            ELSE IF ~(forced \subseteq done) THEN Reject("a forced write returned but its packet never reached the wire")
            ELSE IF ~discSeen /\ ~immSeen /\ ~e.idle THEN Adv /\ UNCHANGED <<enq, qdone, done, cur, curBy, discQ, discSeen, immSeen, closed, forced>>
            ELSE IF ~discSeen /\ ~immSeen /\ ~(qdone \subseteq done)
                 THEN Reject("a queued packet never reached the wire although the connection stayed open")
            ELSE Adv /\ UNCHANGED <<enq, qdone, done, cur, curBy, discQ, discSeen, immSeen, closed, forced>>
       [] OTHER -> Reject("unknown event")

Spec == Init /\ [][Step]_vars
Accepted == rejected = ""
=============================================================================
