SPECIFICATION Spec
INVARIANT Accepted
INVARIANT SecretsReachServer
INVARIANT RegistersAreShiftedStreams
