SPECIFICATION Spec
CONSTANTS
  Users <- MCUsers2
  Programs <- P2
  MaxThreads = 4
  MaxSocks = 5
  ServerModes <- Both
  SrvMayClose = TRUE
  Reactions <- AllReactions
  HandlerReconnect = TRUE
  SrvMayStall = TRUE
  HEAtomic = TRUE
  ShutdownBoth = TRUE
  Fixed = TRUE
  Emit = FALSE
INVARIANT AtMostOneInIo
INVARIANT DisconnectNeverRaises
INVARIANT SlotsClearedWhenDead
INVARIANT IdleMeansConnectable
INVARIANT SuccessorAfterPredecessor
PROPERTY RefusalIsClean
PROPERTY InvalidStateIffActive
PROPERTY NoCrossTeardown
