SPECIFICATION Spec
INVARIANT Accepted
INVARIANT BoundedEmptyReads
INVARIANT FinalOk
