SPECIFICATION Spec
CONSTANTS
  Filters <- MCFilters
  MaxIn = 1
  MaxOut = 1
  States <- MCStates
  Histories <- MCHistories
  Emit = TRUE
INVARIANT NoDoubleCall
INVARIANT OnlyMatching
INVARIANT OrderWithinPacket
INVARIANT IgnoreStops
INVARIANT WireIffNotSuppressed
INVARIANT ReactionBetweenStages
INVARIANT IgnoredNeverReacts
INVARIANT DisconnectingListenerStopsNothing
INVARIANT EmitRows
