------------------------------ MODULE VarIntCodec ------------------------------
(***************************************************************************)
(* VarInt / VarLong of the Minecraft protocol (little-endian base 128,     *)
(* bit 7 = "more bytes follow"), modelled the way pyCraft implements them: *)
(*                                                                         *)
(*   reader  -- types/basic.py VarInt.read: one byte per loop iteration,   *)
(*              EOFError on an empty read, ValueError after more than      *)
(*              max_bytes continuation bytes;                              *)
(*   writer  -- VarInt.send: emit (v & 0x7F) | (0x80 if v >> 7 > 0),       *)
(*              v >>= 7, until v = 0  (arithmetic shift: negatives are     *)
(*              rejected up front, otherwise the loop never ends).         *)
(*                                                                         *)
(* TLC integers are 32 bit, so numbers are little-endian sequences of      *)
(* 7-bit groups ("limbs").  A writer input is <<digits, ext>> where ext is *)
(* the infinite sign extension digit (0 for n >= 0, 127 for n < 0), which  *)
(* is exactly what Python's >> and & see.                                  *)
(*                                                                         *)
(* The module contains the MODEL (what the present code does, step by      *)
(* step) and the CONTRACT (what property C03 states); TLC checks that the  *)
(* model satisfies the contract on every explored input, and prints one    *)
(* JSON row per terminal state for the S->I replay into the real code.     *)
(***************************************************************************)
EXTENDS Naturals, Sequences, FiniteSets, TLC, Json

CONSTANTS
  ReaderInputs,     \* sequence of sets of byte sequences to decode (kept apart: TLC's set union is quadratic);
                    \* each is decoded as VarInt (5) and as VarLong (10); every string of <= 2 bytes is always included
  WriterInputs,     \* set of <<digits, ext>> to encode
  WriterDigits,     \* additionally every non-negative number of at most this many base-128 digits (0..3),
                    \* enumerated from intervals (TLC refuses to build sets of more than 10^6 elements)
  RejectNegative,   \* TRUE: the writer raises for negative input (code after the fix)
  OutCap,           \* bound on the writer's output length explored (state constraint)
  Emit              \* TRUE: print one JSON row per terminal state

VARIABLES
  mode,      \* "r" reader | "w" writer
  mx,        \* reader: max_bytes (5 VarInt, 10 VarLong)
  inp,       \* reader: the byte stream
  pos,       \* reader: bytes consumed so far
  groups,    \* reader: 7-bit groups accumulated so far (the number, little-endian)
  enc,       \* reader: bytes_encountered
  digits,    \* writer: remaining value, little-endian base-128 digits, no trailing 0
  ext,       \* writer: sign-extension digit of the remaining value (0 | 127)
  out,       \* writer: bytes emitted so far
  src,       \* writer: the original input <<digits, ext>> (constant along a behaviour)
  outcome    \* "run" | "value" | "eof" | "toolong" | "bytes" | "raise"

vars == <<mode, mx, inp, pos, groups, enc, digits, ext, out, src, outcome>>

----------------------------------------------------------------------------
(* Contract (property C03), independent of the step-by-step model.         *)

\* position of the first byte without continuation bit, 0 if none
TermPos(s) ==
  IF \E i \in 1..Len(s) : s[i] < 128
  THEN CHOOSE i \in 1..Len(s) : s[i] < 128 /\ \A j \in 1..(i-1) : s[j] >= 128
  ELSE 0

\* outcomes the property admits for decoding stream s with nominal maximum m
AllowedRead(m, s) ==
  LET p == TermPos(s) L == Len(s) IN
  IF p # 0 /\ p <= m          THEN {"value"}
  ELSE IF p = m + 1            THEN {"value", "toolong"}  \* one byte more than nominal is tolerated
  ELSE IF p > m + 1            THEN {"toolong"}
  ELSE IF L < m                THEN {"eof"}
  ELSE IF L = m                THEN {"eof", "toolong"}
  ELSE                              {"toolong"}

Payload(s, p) == [i \in 1..p |-> s[i] % 128]

\* strip trailing zero digits (canonical little-endian digit list; <<>> is 0)
RECURSIVE Strip(_)
Strip(d) == IF d # <<>> /\ d[Len(d)] = 0 THEN Strip(SubSeq(d, 1, Len(d) - 1)) ELSE d

\* canonical encoding of a non-negative number given by its digits
Canonical(d) ==
  LET c == Strip(d) IN
  IF c = <<>> THEN <<0>>
  ELSE [i \in 1..Len(c) |-> IF i < Len(c) THEN c[i] + 128 ELSE c[i]]

SizeOf(d) == Len(Canonical(d))

----------------------------------------------------------------------------
(* Model                                                                   *)

Init ==
  \/ /\ mode = "r"
     /\ mx \in {5, 10}
     /\ \/ \E n \in 0..2 : inp \in [1..n -> 0..255]
        \/ \E i \in 1..Len(ReaderInputs) : inp \in ReaderInputs[i]
     /\ pos = 0 /\ groups = <<>> /\ enc = 0
     /\ digits = <<>> /\ ext = 0 /\ out = <<>> /\ outcome = "run" /\ src = <<>>
  \/ /\ mode = "w"
     /\ \/ \E wi \in WriterInputs : digits = wi[1] /\ ext = wi[2] /\ src = wi
        \/ /\ WriterDigits >= 2
           /\ \E a \in 0..127, b \in 0..127, c \in (IF WriterDigits >= 3 THEN 0..127 ELSE {0}) :
                /\ digits = Strip(<<a, b, c>>) /\ ext = 0 /\ src = <<Strip(<<a, b, c>>), 0>>
     /\ mx = 0 /\ inp = <<>> /\ pos = 0 /\ groups = <<>> /\ enc = 0
     /\ out = <<>> /\ outcome = "run"

\* byte = file_object.read(1); if len(byte) < 1: raise EOFError
ReadEof ==
  /\ mode = "r" /\ outcome = "run" /\ pos = Len(inp)
  /\ outcome' = "eof"
  /\ UNCHANGED <<mode, mx, inp, pos, groups, enc, digits, ext, out, src>>

\* number |= (byte & 0x7F) << 7*n; if not byte & 0x80: break;
\* n += 1; if n > max_bytes: raise ValueError
ReadByte ==
  /\ mode = "r" /\ outcome = "run" /\ pos < Len(inp)
  /\ LET b == inp[pos + 1] IN
       /\ pos' = pos + 1
       /\ groups' = Append(groups, b % 128)
       /\ IF b < 128
          THEN outcome' = "value" /\ enc' = enc
          ELSE /\ enc' = enc + 1
               /\ outcome' = IF enc + 1 > mx THEN "toolong" ELSE "run"
  /\ UNCHANGED <<mode, mx, inp, digits, ext, out, src>>

\* the remaining value after v >>= 7
Shifted == IF digits = <<>> THEN <<>> ELSE Tail(digits)
IsZero(d, e) == d = <<>> /\ e = 0
IsPos(d, e)  == d # <<>> /\ e = 0        \* digits are kept canonical for e = 0

WriteReject ==
  /\ mode = "w" /\ outcome = "run" /\ out = <<>>
  /\ RejectNegative /\ ext # 0
  /\ outcome' = "raise"
  /\ UNCHANGED <<mode, mx, inp, pos, groups, enc, digits, ext, out, src>>

WriteByte ==
  /\ mode = "w" /\ outcome = "run"
  /\ ~(RejectNegative /\ ext # 0)
  /\ LET lo == IF digits = <<>> THEN ext ELSE Head(digits)
         d2 == IF ext = 0 THEN Strip(Shifted) ELSE Shifted IN
       /\ out' = Append(out, lo + (IF IsPos(d2, ext) THEN 128 ELSE 0))
       /\ digits' = d2
       /\ outcome' = IF IsZero(d2, ext) THEN "bytes" ELSE "run"
  /\ UNCHANGED <<mode, mx, inp, pos, groups, enc, ext, src>>

Terminal == outcome # "run"

Done == Terminal /\ UNCHANGED vars

Next == ReadEof \/ ReadByte \/ WriteReject \/ WriteByte \/ Done

Spec == Init /\ [][Next]_vars /\ WF_vars(ReadEof \/ ReadByte \/ WriteReject \/ WriteByte)

\* the explored part of a diverging writer is cut off here
Bounded == Len(out) <= OutCap

----------------------------------------------------------------------------
(* Properties                                                              *)

TypeOK ==
  /\ mode \in {"r", "w"}
  /\ outcome \in {"run", "value", "eof", "toolong", "bytes", "raise"}
  /\ pos \in 0..Len(inp)

\* at most one byte more than the nominal maximum is ever consumed
ReadBounded == mode = "r" => pos <= mx + 1

\* never reads past the terminating byte
NoReadPastTerminator ==
  (mode = "r" /\ TermPos(inp) # 0) => pos <= TermPos(inp)

\* the model's verdicts are among those the property admits, with the right value
ReaderMeetsContract ==
  (mode = "r" /\ Terminal) =>
     /\ outcome \in AllowedRead(mx, inp)
     /\ outcome = "value" => /\ pos = TermPos(inp)
                             /\ groups = Payload(inp, pos)
     /\ \A i \in 1..Len(groups) : groups[i] \in 0..127

\* encoding a non-negative integer gives the canonical form; negatives raise
WriterMeetsContract ==
  (mode = "w" /\ Terminal) =>
     /\ outcome \in {"bytes", "raise"}
     /\ outcome = "raise" => ext # 0
     /\ outcome = "bytes" => ext = 0

\* canonical form, checked when the writer finishes (history-free: the input
\* is recovered from the output)
WriterCanonical ==
  (mode = "w" /\ outcome = "bytes") =>
     /\ out = Canonical([i \in 1..Len(out) |-> out[i] % 128])
     /\ out[Len(out)] < 128
     /\ \A i \in 1..(Len(out) - 1) : out[i] >= 128

\* decoding what was encoded gives the number back (inverse), and the size agrees
RoundTrip ==
  (mode = "w" /\ outcome = "bytes") =>
     /\ TermPos(out) = Len(out)
     /\ SizeOf(Payload(out, Len(out))) = Len(out)

\* termination as a safety property: the loop's variant.  A writer started on
\* <<d, e>> emits at most Len(d) + 1 bytes (one per digit, one for the value 0).
WriterVariant == mode = "w" => Len(out) <= Len(src[1]) + 1

\* liveness: reading and writing always finish
Terminates == <>Terminal

----------------------------------------------------------------------------
(* Rows for the S->I replay: printed once per terminal state.              *)

Row ==
  IF mode = "r"
  THEN [k |-> "r", mx |-> mx, inp |-> inp, o |-> outcome, c |-> pos, g |-> groups,
        allowed |-> AllowedRead(mx, inp), tp |-> TermPos(inp)]
  ELSE [k |-> "w", n |-> src[1], e |-> src[2], o |-> outcome, b |-> out,
        sz |-> IF src[2] = 0 THEN SizeOf(src[1]) ELSE 0]

\* three-digit writer inputs are model-checked in full but printed only at the corners (2 million rows are too
\* many to hand over; the harness sweeps every n < 2^21 through the code against its own reference instead)
Printed == mode = "r" \/ Len(src[1]) < 3 \/ (src[1][1] \in {0, 127} /\ src[1][2] \in {0, 127})
EmitRows == (Emit /\ Terminal /\ Printed) => PrintT(ToJson(Row))

=============================================================================
