SPECIFICATION Spec
CONSTANT Emit = TRUE
INVARIANT IdsDistinct
INVARIANT EmitRows
