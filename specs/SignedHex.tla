--------------------------------- MODULE SignedHex ---------------------------------
(***************************************************************************)
(* C17: Java's BigInteger(bytes).toString(16): the digest read as a signed *)
(* big-endian integer, lower-case hex, no leading zeros, "-" when negative. *)
(* Text is a sequence of character codes.                                   *)
(***************************************************************************)
EXTENDS Wire

\* hex digits of a magnitude given as big-endian bytes, without leading zeros ("0" for zero)
RECURSIVE StripZeroDigits(_)
StripZeroDigits(d) == IF Len(d) > 1 /\ d[1] = 48 THEN StripZeroDigits(Tail(d)) ELSE d
HexOfMagnitude(b) == IF b = <<>> THEN <<48>> ELSE StripZeroDigits(HexOfBytes(b))

SignedHexOf(digest) ==
  IF digest = <<>> THEN <<48>>
  ELSE IF digest[1] >= 128
       THEN <<45>> \o HexOfMagnitude(Inc(Complement(digest)))        \* -(2^(8n) - value)
       ELSE HexOfMagnitude(digest)
=============================================================================
