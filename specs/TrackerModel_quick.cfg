SPECIFICATION Spec
CONSTANTS
  Uuids <- MCUuids
  MapIds <- MCMapIds
  G = 4
  Alphabet <- MCAlphabet
  MaxLen = 3
  Emit = TRUE
INVARIANT AnglesWrapped
INVARIANT PresenceLaw
INVARIANT UpdatesNeverCreate
INVARIANT MapCreatedOnFirstSight
INVARIANT EmitRows
