---------------------------- MODULE MC_Position_thorough ---------------------------
EXTENDS MC_Position
MCCases == <<Probe, PosFull(0), PosWords, CspWords, CspEnc, CspAxis, RecNew, RecOld>>
=============================================================================
