---------------------------------- MODULE ConnWriter ----------------------------------
(***************************************************************************)
(* C12: concurrent writers of one connected Connection.  MODEL of          *)
(* write_packet (queued: deque.append without the lock; forced: lock +     *)
(* _write_packet), _write_packet / Packet.write (two socket sends per      *)
(* frame: length, then body), the networking thread's write loop (lock,    *)
(* pop up to W packets, unlock) and disconnect (lock; flush the queue      *)
(* unless immediate; interrupt; close), one action per lock operation,     *)
(* queue operation and socket send.                                        *)
(*                                                                         *)
(* Programs: sequences of <<"q", p>> (queued write of packet p),           *)
(* <<"f", p>> (forced write), <<"disc">>, <<"disc_now">>.                  *)
(* Locked = FALSE drops the lock from the forced write (a self-test:       *)
(* TLC must then find FramesContiguous violated).                          *)
(* With Login = TRUE the networking thread starts with LoginReactor's      *)
(* answer to an encryption request: forced write of the response (packet   *)
(* 0) under the lock, then installation of the cipher.  A chunk records     *)
(* whether the cipher was installed when it was sent.  SwapUnderLock =     *)
(* FALSE is the code as it was (the lock was released before the swap):    *)
(* TLC must find NoPlaintextAfterEncResponse violated.                     *)
(***************************************************************************)
EXTENDS Naturals, Sequences, FiniteSets, TLC

CONSTANTS Users, Progs,   \* Progs: set of functions from user to program (one is chosen in Init)
          W, Locked,
          Login,           \* TRUE: the networking thread first answers an encryption request (login)
          SwapUnderLock    \* TRUE: the cipher is installed before the write lock is released (code after the fix)

VARIABLES lock,       \* owner: a user, "nt" or "none"
          queue,      \* sequence of packets
          wire,       \* sequence of chunks <<by, packet, part>>
          closed,     \* the socket has been closed
          prog, upc, ucur,    \* per user: remaining program, pc, packet in flight
          npc, ncur, nw,      \* networking thread: pc, packet in flight, writes this round
          enq,        \* packets in the order they were enqueued (history)
          discAt,     \* 0, or Len(enq) at the moment a non-immediate disconnect acquired the lock
          immAt,      \* 0, or Len(wire) + 1 at the moment an immediate disconnect acquired the lock
          cipher      \* the encrypting socket wrapper is installed
vars == <<lock, queue, wire, closed, prog, upc, ucur, npc, ncur, nw, enq, discAt, immAt, cipher>>

Init == /\ lock = "none" /\ queue = <<>> /\ wire = <<>> /\ closed = FALSE
        /\ prog \in Progs /\ upc = [u \in Users |-> "idle"] /\ ucur = [u \in Users |-> 0]
        /\ npc = (IF Login THEN "e_lock" ELSE "top") /\ ncur = 0 /\ nw = 0 /\ enq = <<>> /\ discAt = 0 /\ immAt = 0
        /\ cipher = FALSE

Send(by, p, part) == wire' = IF closed THEN wire ELSE Append(wire, <<by, p, part, cipher>>)   \* after close the send raises

\* ---------------------------------------------------------------- user threads
Op(u) == Head(prog[u])
U_Start(u) ==
  /\ upc[u] = "idle" /\ prog[u] # <<>>
  /\ CASE Op(u)[1] = "q" ->       \* deque.append, no lock
            /\ queue' = Append(queue, Op(u)[2]) /\ enq' = Append(enq, Op(u)[2])
            /\ prog' = [prog EXCEPT ![u] = Tail(@)]
            /\ UNCHANGED <<lock, wire, closed, upc, ucur, discAt, immAt, cipher>>
       [] Op(u)[1] = "f" ->
            /\ IF Locked THEN upc' = [upc EXCEPT ![u] = "f_lock"] ELSE upc' = [upc EXCEPT ![u] = "f_len"]
            /\ ucur' = [ucur EXCEPT ![u] = Op(u)[2]]
            /\ UNCHANGED <<lock, queue, wire, closed, prog, enq, discAt, immAt, cipher>>
       [] OTHER ->
            /\ upc' = [upc EXCEPT ![u] = "d_lock"]
            /\ UNCHANGED <<lock, queue, wire, closed, prog, ucur, enq, discAt, immAt, cipher>>
  /\ UNCHANGED <<npc, ncur, nw, cipher>>

U_Lock(u) ==
  /\ upc[u] \in {"f_lock", "d_lock"} /\ lock = "none"
  /\ lock' = u
  /\ IF upc[u] = "f_lock" THEN /\ upc' = [upc EXCEPT ![u] = "f_len"] /\ UNCHANGED <<discAt, immAt, cipher>>
     ELSE /\ upc' = [upc EXCEPT ![u] = IF Op(u)[1] = "disc" THEN "d_flush" ELSE "d_close"]
          /\ discAt' = IF Op(u)[1] = "disc" /\ discAt = 0 THEN Len(enq) + 1 ELSE discAt
          /\ immAt' = IF Op(u)[1] = "disc_now" /\ immAt = 0 THEN Len(wire) + 1 ELSE immAt
  /\ UNCHANGED <<queue, wire, closed, prog, ucur, npc, ncur, nw, enq, cipher>>

U_Len(u) == /\ upc[u] = "f_len" /\ Send(u, ucur[u], "len") /\ upc' = [upc EXCEPT ![u] = "f_body"]
            /\ UNCHANGED <<lock, queue, closed, prog, ucur, npc, ncur, nw, enq, discAt, immAt, cipher>>
U_Body(u) == /\ upc[u] = "f_body" /\ Send(u, ucur[u], "body")
             /\ upc' = [upc EXCEPT ![u] = IF Locked THEN "f_unlock" ELSE "idle"]
             /\ prog' = IF Locked THEN prog ELSE [prog EXCEPT ![u] = Tail(@)]
             /\ UNCHANGED <<lock, queue, closed, ucur, npc, ncur, nw, enq, discAt, immAt, cipher>>
U_Unlock(u) == /\ upc[u] \in {"f_unlock", "d_unlock"} /\ lock' = "none" /\ upc' = [upc EXCEPT ![u] = "idle"]
               /\ prog' = [prog EXCEPT ![u] = Tail(@)]
               /\ UNCHANGED <<queue, wire, closed, ucur, npc, ncur, nw, enq, discAt, immAt, cipher>>
\* disconnect: while self._pop_packet(): pass
U_FlushPop(u) == /\ upc[u] = "d_flush"
                 /\ IF queue = <<>> THEN /\ upc' = [upc EXCEPT ![u] = "d_close"] /\ UNCHANGED <<queue, ucur>>
                    ELSE /\ ucur' = [ucur EXCEPT ![u] = Head(queue)] /\ queue' = Tail(queue)
                         /\ upc' = [upc EXCEPT ![u] = "d_len"]
                 /\ UNCHANGED <<lock, wire, closed, prog, npc, ncur, nw, enq, discAt, immAt, cipher>>
U_FlushLen(u) == /\ upc[u] = "d_len" /\ Send(u, ucur[u], "len") /\ upc' = [upc EXCEPT ![u] = "d_body"]
                 /\ UNCHANGED <<lock, queue, closed, prog, ucur, npc, ncur, nw, enq, discAt, immAt, cipher>>
U_FlushBody(u) == /\ upc[u] = "d_body" /\ Send(u, ucur[u], "body") /\ upc' = [upc EXCEPT ![u] = "d_flush"]
                  /\ UNCHANGED <<lock, queue, closed, prog, ucur, npc, ncur, nw, enq, discAt, immAt, cipher>>
\* interrupt, shutdown, close
U_Close(u) == /\ upc[u] = "d_close" /\ closed' = TRUE /\ upc' = [upc EXCEPT ![u] = "d_unlock"]
              /\ UNCHANGED <<lock, queue, wire, prog, ucur, npc, ncur, nw, enq, discAt, immAt, cipher>>

UStep(u) == U_Start(u) \/ U_Lock(u) \/ U_Len(u) \/ U_Body(u) \/ U_Unlock(u) \/ U_FlushPop(u) \/ U_FlushLen(u)
            \/ U_FlushBody(u) \/ U_Close(u)

\* ---------------------------------------------------------------- networking thread: login step, then write loop
\* LoginReactor: write_packet(encryption_response, force=True); then install the cipher wrappers
E_Lock == /\ npc = "e_lock" /\ lock = "none" /\ lock' = "nt" /\ npc' = "e_len"
          /\ UNCHANGED <<queue, wire, closed, prog, upc, ucur, ncur, nw, enq, discAt, immAt, cipher>>
E_Len == /\ npc = "e_len" /\ Send("nt", 0, "len") /\ npc' = "e_body"
         /\ UNCHANGED <<lock, queue, closed, prog, upc, ucur, ncur, nw, enq, discAt, immAt, cipher>>
E_Body == /\ npc = "e_body" /\ Send("nt", 0, "body") /\ npc' = (IF SwapUnderLock THEN "e_swap" ELSE "e_unlock")
          /\ UNCHANGED <<lock, queue, closed, prog, upc, ucur, ncur, nw, enq, discAt, immAt, cipher>>
E_Unlock == /\ npc = "e_unlock" /\ lock' = "none" /\ npc' = (IF SwapUnderLock THEN "top" ELSE "e_swap")
            /\ UNCHANGED <<queue, wire, closed, prog, upc, ucur, ncur, nw, enq, discAt, immAt, cipher>>
E_Swap == /\ npc = "e_swap" /\ cipher' = TRUE /\ npc' = (IF SwapUnderLock THEN "e_unlock" ELSE "top")
          /\ UNCHANGED <<lock, queue, wire, closed, prog, upc, ucur, ncur, nw, enq, discAt, immAt>>

N_Lock == /\ npc = "top" /\ ~closed /\ lock = "none" /\ lock' = "nt" /\ npc' = "pop" /\ nw' = 0
          /\ UNCHANGED <<queue, wire, closed, prog, upc, ucur, ncur, enq, discAt, immAt, cipher>>
N_Pop == /\ npc = "pop"
         /\ IF queue = <<>> \/ nw >= W \/ closed THEN npc' = "unlock" /\ UNCHANGED <<queue, ncur>>
            ELSE ncur' = Head(queue) /\ queue' = Tail(queue) /\ npc' = "len"
         /\ UNCHANGED <<lock, wire, closed, prog, upc, ucur, nw, enq, discAt, immAt, cipher>>
N_Len == /\ npc = "len" /\ Send("nt", ncur, "len") /\ npc' = "body"
         /\ UNCHANGED <<lock, queue, closed, prog, upc, ucur, ncur, nw, enq, discAt, immAt, cipher>>
N_Body == /\ npc = "body" /\ Send("nt", ncur, "body") /\ npc' = "pop" /\ nw' = nw + 1
          /\ UNCHANGED <<lock, queue, closed, prog, upc, ucur, ncur, enq, discAt, immAt, cipher>>
N_Unlock == /\ npc = "unlock" /\ lock' = "none" /\ npc' = "top"
            /\ UNCHANGED <<queue, wire, closed, prog, upc, ucur, ncur, nw, enq, discAt, immAt, cipher>>
NStep == E_Lock \/ E_Len \/ E_Body \/ E_Unlock \/ E_Swap \/ N_Lock \/ N_Pop \/ N_Len \/ N_Body \/ N_Unlock

Next == (\E u \in Users : UStep(u)) \/ NStep
\* strong fairness for user steps: a thread waiting for the lock eventually gets it (the networking thread
\* sleeps in select between rounds), weak fairness alone admits starvation by the write loop
Spec == Init /\ [][Next]_vars /\ WF_vars(NStep) /\ \A u \in Users : SF_vars(UStep(u))

----------------------------------------------------------------------------
\* the chunk sequence is a concatenation of <<len, body>> pairs of one packet by one thread
FramesContiguous ==
  \A i \in 1..Len(wire) :
     IF wire[i][3] = "len"
     THEN i = Len(wire) \/ (wire[i + 1][3] = "body" /\ wire[i + 1][2] = wire[i][2] /\ wire[i + 1][1] = wire[i][1])
     ELSE i > 1 /\ wire[i - 1][3] = "len" /\ wire[i - 1][2] = wire[i][2]
OnWire(p) == \E i \in 1..Len(wire) : wire[i][2] = p /\ wire[i][3] = "body"
ExactlyOnce == \A i, j \in 1..Len(wire) : (wire[i][2] = wire[j][2] /\ wire[i][3] = wire[j][3]) => i = j
\* queued packets go out in the order they were queued (hence per thread too)
QueuedFifo ==
  LET qs == SelectSeq(wire, LAMBDA c : c[3] = "body" /\ \E k \in 1..Len(enq) : enq[k] = c[2]) IN
  \A i \in 1..Len(qs) : qs[i][2] = enq[i]
SendOnlyUnderLock ==
  [][(Len(wire') > Len(wire)) => (lock = wire'[Len(wire')][1])]_vars
\* a non-immediate disconnect sends everything queued before it, then closes
FlushBeforeClose ==
  (closed /\ discAt > 0 /\ immAt = 0) => \A k \in 1..(discAt - 1) : OnWire(enq[k])
\* an immediate disconnect sends nothing further
NothingAfterImmediate ==
  (immAt > 0) => \A i \in immAt..Len(wire) : FALSE
\* everything after the encryption response is encrypted, the response itself and everything before it is not
RespBody == CHOOSE i \in 1..Len(wire) : wire[i][2] = 0 /\ wire[i][3] = "body"
NoPlaintextAfterEncResponse ==
  (Login /\ \E i \in 1..Len(wire) : wire[i][2] = 0 /\ wire[i][3] = "body") =>
     \A i \in 1..Len(wire) : wire[i][4] = (i > RespBody)
AllDone == (\A u \in Users : prog[u] = <<>> /\ upc[u] = "idle")
Terminates == <>AllDone
=============================================================================
