SPECIFICATION Spec
CONSTANTS
  Users <- MCUsers3
  Progs <- MCProgs3
  W = 2
  Locked = TRUE
INVARIANT FramesContiguous
INVARIANT ExactlyOnce
INVARIANT QueuedFifo
INVARIANT FlushBeforeClose
INVARIANT NothingAfterImmediate
PROPERTY SendOnlyUnderLock
