-------------------------------- MODULE Trace_Play --------------------------------
(***************************************************************************)
(* I->S validation for C11 (and the delivery clause of C01): traces        *)
(* recorded from real play-state executions are judged by the CONTRACT     *)
(* the property states, nothing more:                                      *)
(*   - packets are delivered to listeners in the order sent, each once,    *)
(*     unknown ids as generic packets (kind "unk" with the same id);       *)
(*   - every keep-alive is answered exactly once with the same id, in      *)
(*     arrival order; answers are never invented;                          *)
(*   - every position-and-look is acknowledged: teleport confirm with the  *)
(*     same id (tp) or a position echo with the same coordinates (~tp);    *)
(*   - after the server's disconnect packet: socket closed, exit callback  *)
(*     exactly once, no error, everything answered.                        *)
(* Events: [k |-> "srv"|"deliver"|"c2s", p |-> <<kind, key>>],             *)
(*         [k |-> "closed"|"exit"|"error"|"spawned"]                       *)
(* Keys are integer sequences (ids in 16-bit limbs), compared for equality. *)
(***************************************************************************)
EXTENDS Naturals, Sequences, TLC, Json, IOUtils

Traces == JsonDeserialize(IOEnv.TRACE_FILE)

VARIABLES tid, l, sent, ndel, kaQ, plQ, closed, exits, errs, spawned, rejected
vars == <<tid, l, sent, ndel, kaQ, plQ, closed, exits, errs, spawned, rejected>>

Ev == Traces[tid].ev
Tp == Traces[tid].tp

Init == /\ tid \in 1..Len(Traces) /\ l = 1
        /\ sent = <<>> /\ ndel = 0 /\ kaQ = <<>> /\ plQ = <<>>
        /\ closed = FALSE /\ exits = 0 /\ errs = 0 /\ spawned = FALSE /\ rejected = ""

Reject(why) == /\ rejected' = why
               /\ UNCHANGED <<tid, l, sent, ndel, kaQ, plQ, closed, exits, errs, spawned>>

Step ==
  /\ rejected = "" /\ l <= Len(Ev)
  /\ LET e == Ev[l] IN
     CASE e.k = "srv" ->
            /\ sent' = Append(sent, e.p)
            /\ kaQ' = IF e.p[1] = "ka" THEN Append(kaQ, e.p[2]) ELSE kaQ
            /\ plQ' = IF e.p[1] = "pl" THEN Append(plQ, e.p[2]) ELSE plQ
            /\ l' = l + 1
            /\ UNCHANGED <<tid, ndel, closed, exits, errs, spawned, rejected>>
       [] e.k = "deliver" ->
            IF ndel < Len(sent) /\ sent[ndel + 1] = e.p
            THEN /\ ndel' = ndel + 1 /\ l' = l + 1
                 /\ UNCHANGED <<tid, sent, kaQ, plQ, closed, exits, errs, spawned, rejected>>
            ELSE Reject("delivered packet is not the next packet the server sent")
       [] e.k = "c2s" ->
            IF e.p[1] = "ka"
            THEN IF kaQ # <<>> /\ Head(kaQ) = e.p[2] /\ ~closed
                 THEN /\ kaQ' = Tail(kaQ) /\ l' = l + 1
                      /\ UNCHANGED <<tid, sent, ndel, plQ, closed, exits, errs, spawned, rejected>>
                 ELSE Reject("keep-alive answer does not match the oldest unanswered keep-alive")
            ELSE IF e.p[1] = (IF Tp THEN "tc" ELSE "pos")
            THEN IF plQ # <<>> /\ Head(plQ) = e.p[2] /\ ~closed
                 THEN /\ plQ' = Tail(plQ) /\ l' = l + 1
                      /\ UNCHANGED <<tid, sent, ndel, kaQ, closed, exits, errs, spawned, rejected>>
                 ELSE Reject("teleport acknowledgement does not match the oldest unacknowledged position-and-look")
            ELSE Reject("unexpected client frame")
       [] e.k = "closed" ->
            /\ closed' = TRUE /\ l' = l + 1
            /\ UNCHANGED <<tid, sent, ndel, kaQ, plQ, exits, errs, spawned, rejected>>
       [] e.k = "exit" ->
            /\ exits' = exits + 1 /\ l' = l + 1
            /\ UNCHANGED <<tid, sent, ndel, kaQ, plQ, closed, errs, spawned, rejected>>
       [] e.k = "error" ->
            /\ errs' = errs + 1 /\ l' = l + 1
            /\ UNCHANGED <<tid, sent, ndel, kaQ, plQ, closed, exits, spawned, rejected>>
       [] e.k = "spawned" ->
            /\ spawned' = TRUE /\ l' = l + 1
            /\ UNCHANGED <<tid, sent, ndel, kaQ, plQ, closed, exits, errs, rejected>>
       [] OTHER -> Reject("unknown event")

Next == Step
Spec == Init /\ [][Next]_vars

Accepted == rejected = ""
\* at the end of a trace whose script ended with a disconnect packet
HasPl == \E i \in 1..Len(sent) : sent[i][1] = "pl"
FinalOk ==
  (rejected = "" /\ l = Len(Ev) + 1) =>
     /\ ndel = Len(sent)
     /\ kaQ = <<>> /\ plQ = <<>>
     /\ closed /\ exits = 1 /\ errs = 0
     /\ spawned = HasPl
=============================================================================
