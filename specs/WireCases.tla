------------------------------- MODULE WireCases -------------------------------
(***************************************************************************)
(* Case generator for C02 written as a small transition system so that     *)
(* TLC's state counts mean something: Init chooses a (type, value) case,   *)
(* the Encode step computes the reference bytes with Wire, and the row is  *)
(* printed for the S->I replay into types/basic.py.  Spec-level sanity     *)
(* (decode o encode = id for the integer codecs, prefix-freeness of the    *)
(* self-delimiting encodings) is checked as invariants.                    *)
(*                                                                         *)
(* type descriptors:  <<"Short">>, <<"FixedPoint", "Integer", 5>>,         *)
(*                    <<"PrefixedArray", "VarInt", elemType>>              *)
(***************************************************************************)
EXTENDS WireEnc

CONSTANTS Cases,     \* sequence of sets of <<type, value>> (kept apart: TLC set union is quadratic)
          Emit

VARIABLES c, b, alt, phase
vars == <<c, b, alt, phase>>

\* the exhaustive 16-bit domains are enumerated from intervals (building them as
\* sets first costs TLC most of a minute)
Init == /\ \/ \E i \in 1..Len(Cases) : c \in Cases[i]
           \/ \E n \in -32768..32767 : c = <<<<"Short">>, IntVal(n)>>
           \/ \E n \in 0..65535 : c = <<<<"UnsignedShort">>, IntVal(n)>>
        /\ b = <<>> /\ alt = {} /\ phase = "chosen"

Encode == /\ phase = "chosen"
          /\ b' = Enc(c[1], c[2])
          /\ alt' = Alt(c[1], c[2])
          /\ phase' = "encoded"
          /\ UNCHANGED c

Next == Encode \/ (phase = "encoded" /\ UNCHANGED vars)
Spec == Init /\ [][Next]_vars

----------------------------------------------------------------------------
AllBytes == phase = "encoded" => \A i \in 1..Len(b) : b[i] \in Bytes

\* the reference integer decoder inverts the reference encoder, widths are exact
IntRoundTrip ==
  (phase = "encoded" /\ c[1][1] \in IntTypes) =>
     LET t == c[1][1] IN
     /\ Len(b) = Width(t)
     /\ InDomain(Width(t), Signed(t), c[2])
     /\ DecInt(Width(t), Signed(t), b) = [s |-> IF IsZeroSeq(StripLeft(c[2].m)) THEN 0 ELSE c[2].s,
                                          m |-> StripLeft(c[2].m)]

\* the model's own choice for angle / fixed point is one of the admissible ones
ModelWithinQuantum == phase = "encoded" => b \in alt

\* a string's length prefix counts bytes, not characters
StringPrefix ==
  (phase = "encoded" /\ c[1][1] = "String") =>
     LET u == Utf8(c[2]) IN
     /\ \A i \in 1..Len(c[2]) : IsScalar(c[2][i])
     /\ Len(b) = Len(EncVarNat(Len(u))) + Len(u)
     /\ Len(u) >= Len(c[2])

\* a UUID value's text is the canonical hyphenated lower-case hex of its bytes
RECURSIVE UuidsOk(_, _)
UuidsOk(ty, v) ==
  CASE ty[1] = "UUID" -> Len(v.by) = 16 /\ v.txt = UuidText(v.by)
    [] ty[1] = "PrefixedArray" -> \A i \in 1..Len(v) : UuidsOk(ty[3], v[i])
    [] OTHER -> TRUE
UuidText36 == UuidsOk(c[1], c[2])

EmitRows == (Emit /\ phase = "encoded") =>
   PrintT(ToJson([ty |-> c[1], v |-> c[2], b |-> b, alt |-> alt]))
=============================================================================
