SPECIFICATION Spec
CONSTANTS
  Streams <- MCStreamsSmall
  EofCheck = TRUE
  MaxEmpty = 3
  Emit = FALSE
VIEW NoCuts
PROPERTY ReaderLeaves
