SPECIFICATION Spec
CONSTANTS
  Users <- MCUsers
  Progs <- MCProgs
  W = 2
  Locked = TRUE
  Login = FALSE
  SwapUnderLock = TRUE
PROPERTY Terminates
