SPECIFICATION Spec
CONSTANTS
  Users <- MCUsers1
  Programs <- P4
  MaxThreads = 4
  MaxSocks = 4
  ServerModes <- Both
  SrvMayClose = FALSE
  Reactions <- NoReactions
  HandlerReconnect = FALSE
  SrvMayStall = FALSE
  HEAtomic = TRUE
  ShutdownBoth = TRUE
  Fixed = TRUE
  Emit = TRUE
INVARIANT AtMostOneInIo
INVARIANT DisconnectNeverRaises
INVARIANT SlotsClearedWhenDead
INVARIANT EmitRows
