----------------------------- MODULE SessionNegotiate -----------------------------
(***************************************************************************)
(* C09: construction, version negotiation (connect) and plain status       *)
(* queries of one Connection.  MODEL of Connection.__init__, connect,      *)
(* status, StatusReactor and PlayingStatusReactor.                         *)
(*                                                                         *)
(* Versions are abstract: a chronological list Order of version tokens, a  *)
(* subset Supported, and the token "x" for a number pyCraft does not know. *)
(* The harness instantiates them with several concrete protocol maps.      *)
(*                                                                         *)
(* Scenario (chosen in Init):                                              *)
(*   mode     "connect" | "status"                                         *)
(*   allowed  set of tokens passed as allowed_versions ("all": none given) *)
(*   initial  token passed as initial_version or "none"                    *)
(*   srv      what the server's status reply says: <<"proto", v>> |        *)
(*            <<"noproto">> (version object without protocol) |            *)
(*            <<"noversion">> | <<"empty">> ({}) | <<"eof">> (closes       *)
(*            without replying)                                            *)
(*   hs, hp   status(): handler modes "default" | "custom" | "off"         *)
(***************************************************************************)
EXTENDS Naturals, Sequences, FiniteSets, TLC, Json

CONSTANTS Order,        \* sequence of known version tokens, chronological
          Supported,    \* subset of tokens
          AllowedSets,  \* the allowed-version sets explored (sets of tokens; {} means "not given")
          Initials,     \* initial_version values explored (tokens or "none")
          Replies,      \* server behaviours explored
          Emit

VARIABLES mode, allowed, initial, srv, hs, hp,      \* scenario (constant)
          pc, cur, ctx, dflt, tcp, frames, outcome, statusCalls, pingCalls, exits
vars == <<mode, allowed, initial, srv, hs, hp, pc, cur, ctx, dflt, tcp, frames, outcome, statusCalls, pingCalls, exits>>

Rank(v) == CHOOSE i \in 1..Len(Order) : Order[i] = v
Known == {Order[i] : i \in 1..Len(Order)}
Latest(S) == CHOOSE v \in S : \A w \in S : Rank(w) <= Rank(v)
AllSupported == Supported

Init == /\ mode \in {"connect", "status"}
        /\ allowed \in AllowedSets /\ initial \in Initials /\ srv \in Replies
        /\ hs \in (IF mode = "status" THEN {"default", "custom", "off"} ELSE {"default"})
        /\ hp \in (IF mode = "status" THEN {"default", "custom", "off"} ELSE {"off"})
        /\ pc = "construct" /\ cur = {} /\ ctx = "none" /\ dflt = "none" /\ tcp = 0 /\ frames = <<>>
        /\ outcome = "none" /\ statusCalls = 0 /\ pingCalls = 0 /\ exits = 0

\* Connection.__init__: every given version must be supported
Construct ==
  /\ pc = "construct"
  /\ IF (allowed # {} /\ ~(allowed \subseteq Supported)) \/ (initial # "none" /\ initial \notin Supported)
     THEN /\ outcome' = "ValueError" /\ pc' = "done" /\ UNCHANGED <<cur, ctx, dflt>>
     ELSE LET a == IF allowed = {} THEN AllSupported ELSE allowed IN
          /\ cur' = a /\ ctx' = Latest(a)
          /\ dflt' = IF initial = "none" THEN Latest(a) ELSE initial
          /\ pc' = mode /\ UNCHANGED outcome
  /\ UNCHANGED <<mode, allowed, initial, srv, hs, hp, tcp, frames, statusCalls, pingCalls, exits>>

Hs(v, next) == <<"handshake", v, next>>

\* connect() with exactly one allowed version: straight to login
ConnectDirect ==
  /\ pc = "connect" /\ Cardinality(cur) = 1
  /\ LET v == Latest(cur) IN
       /\ ctx' = v /\ tcp' = tcp + 1
       /\ frames' = frames \o <<Hs(v, "login"), <<"login_start">>>>
  /\ outcome' = "login" /\ pc' = "done"
  /\ UNCHANGED <<mode, allowed, initial, srv, hs, hp, cur, dflt, statusCalls, pingCalls, exits>>

\* connect() with several: status query first
ConnectQuery ==
  /\ pc = "connect" /\ Cardinality(cur) > 1
  /\ ctx' = Latest(cur) /\ tcp' = tcp + 1
  /\ frames' = frames \o <<Hs(Latest(cur), "status"), <<"request">>>>
  /\ pc' = "negotiate"
  /\ UNCHANGED <<mode, allowed, initial, srv, hs, hp, cur, dflt, outcome, statusCalls, pingCalls, exits>>

\* PlayingStatusReactor.handle_status / handle_exception(EOFError)
Negotiate ==
  /\ pc = "negotiate"
  /\ CASE srv[1] = "empty" ->
            /\ outcome' = "InvalidStatus" /\ pc' = "done" /\ UNCHANGED <<cur>>
       [] srv[1] \in {"noproto", "noversion", "eof"} ->
            /\ cur' = {dflt} /\ pc' = "connect" /\ UNCHANGED outcome
       [] OTHER ->      \* <<"proto", v>>
            IF srv[2] \in cur
            THEN /\ cur' = {srv[2]} /\ pc' = "connect" /\ UNCHANGED outcome
            ELSE /\ outcome' = IF srv[2] \in Supported THEN "Mismatch:not-allowed" ELSE "Mismatch:not-supported"
                 /\ pc' = "done" /\ UNCHANGED cur
  /\ UNCHANGED <<mode, allowed, initial, srv, hs, hp, ctx, dflt, tcp, frames, statusCalls, pingCalls, exits>>

\* status(): handshake with the context version, request; reply handled by StatusReactor
Status ==
  /\ pc = "status"
  /\ tcp' = tcp + 1
  /\ IF srv[1] = "eof"
     THEN /\ frames' = frames \o <<Hs(ctx, "status"), <<"request">>>>
          /\ outcome' = "EOFError" /\ UNCHANGED <<statusCalls, pingCalls, exits>>
     ELSE IF hp = "off"
     THEN /\ frames' = frames \o <<Hs(ctx, "status"), <<"request">>>>
          /\ statusCalls' = 1 /\ pingCalls' = 0 /\ exits' = 1 /\ outcome' = "status"
     ELSE /\ frames' = frames \o <<Hs(ctx, "status"), <<"request">>, <<"ping">>>>
          /\ statusCalls' = 1 /\ pingCalls' = 1 /\ exits' = 1 /\ outcome' = "status"
  /\ pc' = "done"
  /\ UNCHANGED <<mode, allowed, initial, srv, hs, hp, cur, ctx, dflt>>

Next == Construct \/ ConnectDirect \/ ConnectQuery \/ Negotiate \/ Status \/ (pc = "done" /\ UNCHANGED vars)
Spec == Init /\ [][Next]_vars /\ WF_vars(Construct \/ ConnectDirect \/ ConnectQuery \/ Negotiate \/ Status)

----------------------------------------------------------------------------
Given == IF allowed = {} THEN AllSupported ELSE allowed
LoginHs == SelectSeq(frames, LAMBDA f : f[1] = "handshake" /\ f[3] = "login")

\* the login handshake carries the server's version if allowed, else the default after a reply without version
NeverLoginWithDisallowed ==
  \A i \in 1..Len(LoginHs) :
     LET v == LoginHs[i][2] IN
     \/ v \in Given
     \/ (srv[1] \in {"noproto", "noversion", "eof"} /\ v = dflt)
ExactlyServersVersion ==
  (outcome = "login" /\ Cardinality(Given) > 1 /\ srv[1] = "proto") =>
     LoginHs[1][2] = srv[2]
FallbackOnlyWhenNoVersion ==
  (outcome = "login" /\ Cardinality(Given) > 1 /\ LoginHs[1][2] = dflt /\ dflt \notin Given) =>
     srv[1] \in {"noproto", "noversion", "eof"}
AtMostTwoTcpConnections == tcp <= 2
SingletonSkipsStatus == (pc = "done" /\ mode = "connect" /\ Cardinality(Given) = 1 /\ outcome # "ValueError") => tcp = 1
ExitOnceAfterStatus == (outcome = "status") => (exits = 1 /\ statusCalls = 1 /\ pingCalls = (IF hp = "off" THEN 0 ELSE 1))
Terminates == <>(pc = "done")

EmitRows == (Emit /\ pc = "done") =>
  PrintT(ToJson([mode |-> mode, allowed |-> allowed, initial |-> initial, srv |-> srv, hs |-> hs, hp |-> hp,
                 tcp |-> tcp, frames |-> frames, outcome |-> outcome, final |-> cur,
                 statusCalls |-> statusCalls, pingCalls |-> pingCalls, exits |-> exits]))
=============================================================================
