----------------------------- MODULE MC_Position_quick -----------------------------
EXTENDS MC_Position
MCCases == <<Probe, PosQuick(0), PosAxisX, PosAxisY, PosAxisZ, PosWords, CspWords, CspEnc, CspAxis, RecNew, RecOld>>
=============================================================================
