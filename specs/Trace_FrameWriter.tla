--------------------------- MODULE Trace_FrameWriter ---------------------------
(***************************************************************************)
(* C01 write direction, I->S: frames written by the real Packet.write are  *)
(* measured by the harness without trusting the declared lengths (the end  *)
(* of the deflate stream is found by inflating) and judged here.           *)
(*  [n, thr, c, plv, plb, dlv, dlb, written, ok]                           *)
(*   n payload bytes, thr threshold (Off: none), c bytes of the (possibly  *)
(*   deflated) body as found on the wire, plv/plb value and size of the    *)
(*   length prefix, dlv/dlb of the data length field (-1/0: absent),       *)
(*   written = all bytes the writer produced, ok = payload recovered       *)
(* Contract: the prefix announces exactly the bytes that follow; the data  *)
(* length field is 0 with the plain payload or n with a deflate stream,    *)
(* and only payloads of at least threshold bytes are deflated.             *)
(* Model (drift only): the fields equal FrameWriter!Envelope.              *)
(***************************************************************************)
EXTENDS Integers, Sequences, TLC, Json, IOUtils
Obs == JsonDeserialize(IOEnv.TRACE_FILE)
OffV == -2
FW == INSTANCE FrameEnvelope WITH Off <- OffV, Variant <- "code"

VARIABLE i
Init == i \in 1..Len(Obs)
Spec == Init /\ [][UNCHANGED i]_i

Contract(o) ==
  /\ o.ok
  /\ o.written = o.plb + o.plv                      \* nothing written beyond / short of the announced frame
  /\ o.plv = o.dlb + o.c
  /\ o.plb = FW!VarIntSize(o.plv)
  /\ IF o.thr = OffV THEN o.dlv = -1 /\ o.dlb = 0 /\ o.c = o.n
     ELSE /\ o.dlb = FW!VarIntSize(o.dlv)
          /\ \/ o.dlv = 0 /\ o.c = o.n
             \/ o.dlv = o.n /\ o.n > 0 /\ o.thr >= 0 /\ o.n >= o.thr
Law == Contract(Obs[i])
ModelMatches == LET o == Obs[i] e == FW!Envelope(o.n, o.thr, o.c)
                IN  (e.pl = o.plv /\ e.plb = o.plb /\ e.dl = o.dlv /\ e.dlb = o.dlb /\ e.body = o.c) \/ PrintT(ToJson([drift |-> i])) 
=============================================================================
