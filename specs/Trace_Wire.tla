-------------------------------- MODULE Trace_Wire --------------------------------
(***************************************************************************)
(* I->S validation for C02: (type, value, bytes) observations recorded     *)
(* from the real wire types on seeded random values are re-computed with   *)
(* the reference encoders.  ok = the code decoded its own bytes back to    *)
(* the value, consuming exactly the encoding.                              *)
(***************************************************************************)
EXTENDS WireCases, IOUtils

Obs == JsonDeserialize(IOEnv.TRACE_FILE)
NoCases == <<>>

VARIABLE tid
TraceInit == tid \in 1..Len(Obs) /\ c = <<Obs[tid].ty, Obs[tid].v>> /\ b = <<>> /\ alt = {} /\ phase = "chosen"
TraceNext == Next /\ UNCHANGED tid
TraceSpec == TraceInit /\ [][TraceNext]_<<vars, tid>>

BytesMatch == phase = "encoded" => (Obs[tid].b \in alt /\ Obs[tid].ok)
=============================================================================
