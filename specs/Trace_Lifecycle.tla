------------------------------ MODULE Trace_Lifecycle ------------------------------
(***************************************************************************)
(* I->S for C16: traces of real executions (two user threads calling       *)
(* connect / status / disconnect, listeners and handlers reconnecting,     *)
(* servers accepting / refusing / disconnecting / failing, under seeded    *)
(* and preemption-bounded schedules) judged by the CONTRACT of the         *)
(* property:                                                               *)
(*  (a) at most one networking thread performs I/O at any time;            *)
(*  (b) a connect()/status() refused with InvalidState met an active       *)
(*      connection and had no effect (no TCP connection, no thread, no     *)
(*      queued packet); one that met an idle object is not refused;        *)
(*  (c) when every networking thread has ended the object is not active    *)
(*      (no stale slot): it can connect again;                             *)
(*  (d) disconnect() never raises, and every networking thread alive when  *)
(*      it returns has ended by the end of the execution.                  *)
(*  (e) the error handling of a failed connection does not tear down a      *)
(*      connection that had been made before the failure occurred (and has  *)
(*      not been disconnected by anybody): [k |-> "raise", who] marks the   *)
(*      moment a listener of thread `who` is about to raise, [k |->         *)
(*      "teardown", by, victim, intr] a disconnect(immediate) issued by the *)
(*      dying thread `by` while `victim` holds the slot.                    *)
(*  (f) the disconnect that ends a thread's own error handling             *)
(*      (Connection._handle_exception) never takes down a connection that  *)
(*      belongs to another thread and has not been disconnected by anybody:*)
(*      [k |-> "he_teardown", by, victim, intr] is that disconnect at the  *)
(*      moment it holds the lock, `victim` holding the slot then.          *)
(*  (g) the library's own reaction to a packet (a disconnect packet of the   *)
(*      old session, say) never takes down a connection that a listener    *)
(*      made in the meantime: "teardown" events carry src = "react" for    *)
(*      disconnects issued by a reactor's react().                         *)
(* Events: [k |-> "call"|"ret", t, op, r], [k |-> "check", t, active],      *)
(*   [k |-> "effect", t, what], [k |-> "start", who], [k |-> "io", t],      *)
(*   [k |-> "disc_point", t] (a disconnect call acquired the lock),         *)
(*   [k |-> "end", who], [k |-> "final"]                                    *)
(***************************************************************************)
EXTENDS Naturals, Sequences, FiniteSets, TLC, Json, IOUtils

Traces == JsonDeserialize(IOEnv.TRACE_FILE)

VARIABLES tid, l, alive, lastIo, past, calls, mustEnd, rejected,
          started,      \* every networking thread started so far
          beforeRaise   \* per thread: the threads that existed when one of its listeners was about to raise
vars == <<tid, l, alive, lastIo, past, calls, mustEnd, rejected, started, beforeRaise>>
Ev == Traces[tid].ev

\* calls: function from thread name to [op, active (as checked), effects]
NoCall == [op |-> "none", active |-> FALSE, checked |-> FALSE, effects |-> 0]

Init == /\ tid \in 1..Len(Traces) /\ l = 1 /\ alive = {} /\ lastIo = "none" /\ past = {} /\ mustEnd = {} /\ rejected = ""
        /\ started = {} /\ beforeRaise = [t \in {"net1", "net2", "net3", "net4", "net5", "net6", "net7", "net8"} |-> {}]
        /\ calls = [t \in {"u1", "u2", "u3", "u4", "net1", "net2", "net3", "net4", "net5", "net6", "net7", "net8"} |-> NoCall]

Reject(why) == rejected' = why /\ UNCHANGED <<tid, l, alive, lastIo, past, calls, mustEnd, started, beforeRaise>>
Adv == l' = l + 1 /\ UNCHANGED <<tid, rejected>>
KeepE == UNCHANGED <<started, beforeRaise>>
AdvK == Adv /\ KeepE
InDom(t) == t \in DOMAIN calls

Step ==
  /\ rejected = "" /\ l <= Len(Ev)
  /\ LET e == Ev[l] IN
     CASE e.k = "call" ->
            IF ~InDom(e.t) THEN Reject("unknown thread")
            ELSE /\ AdvK /\ calls' = [calls EXCEPT ![e.t] = [op |-> e.op, active |-> FALSE, checked |-> FALSE, effects |-> 0]]
                 /\ UNCHANGED <<alive, lastIo, past, mustEnd>>
       [] e.k = "check" ->
            IF InDom(e.t) /\ calls[e.t].op \in {"connect", "status"} /\ ~calls[e.t].checked
            THEN IF e.active /\ alive = {}
                 THEN Reject("the object reports an active connection although every networking thread has ended (stale slot)")
                 ELSE /\ AdvK /\ calls' = [calls EXCEPT ![e.t].active = e.active, ![e.t].checked = TRUE]
                      /\ UNCHANGED <<alive, lastIo, past, mustEnd>>
            ELSE AdvK /\ UNCHANGED <<alive, lastIo, past, calls, mustEnd>>
       [] e.k = "effect" ->
            IF InDom(e.t) /\ calls[e.t].op \in {"connect", "status"}
            THEN AdvK /\ calls' = [calls EXCEPT ![e.t].effects = @ + 1] /\ UNCHANGED <<alive, lastIo, past, mustEnd>>
            ELSE AdvK /\ UNCHANGED <<alive, lastIo, past, calls, mustEnd>>
       [] e.k = "ret" ->
            LET c == calls[e.t] IN
            IF c.op \in {"disc", "disc_now"}
            THEN IF e.r # "ok" THEN Reject("disconnect() raised")
                 ELSE /\ AdvK /\ calls' = [calls EXCEPT ![e.t] = NoCall]
                      /\ UNCHANGED <<alive, lastIo, past, mustEnd>>
            ELSE IF e.r = "InvalidState"
                 THEN IF ~c.active THEN Reject("connect()/status() refused although the connection was not active")
                      ELSE IF c.effects > 0 THEN Reject("a refused connect()/status() disturbed the connection (TCP connect, thread or queued packet)")
                      ELSE AdvK /\ calls' = [calls EXCEPT ![e.t] = NoCall] /\ UNCHANGED <<alive, lastIo, past, mustEnd>>
            ELSE IF e.r \in {"ok", "Refused"}
                 THEN IF c.active THEN Reject("connect()/status() went ahead although a connection was active")
                      ELSE AdvK /\ calls' = [calls EXCEPT ![e.t] = NoCall] /\ UNCHANGED <<alive, lastIo, past, mustEnd>>
            ELSE Reject("connect()/status() raised an unexpected exception")
       [] e.k = "disc_point" ->     \* the disconnect takes effect (it holds the lock): everything alive now must end
            AdvK /\ mustEnd' = mustEnd \cup alive /\ UNCHANGED <<alive, lastIo, past, calls>>
       [] e.k = "start" -> /\ l' = l + 1 /\ UNCHANGED <<tid, rejected>> /\ alive' = alive \cup {e.who} /\ started' = started \cup {e.who}
                            /\ UNCHANGED <<lastIo, past, calls, mustEnd, beforeRaise>>
       [] e.k = "io" ->     \* the I/O periods of distinct networking threads must be disjoint intervals
            IF e.t \in past
            THEN Reject("two networking threads perform I/O at the same time (their I/O interleaves)")
            ELSE /\ AdvK /\ lastIo' = e.t
                 /\ past' = IF lastIo \notin {"none", e.t} THEN past \cup {lastIo} ELSE past
                 /\ UNCHANGED <<alive, calls, mustEnd>>
       [] e.k = "end" ->
            /\ AdvK /\ alive' = alive \ {e.who} /\ mustEnd' = mustEnd \ {e.who}
            /\ UNCHANGED <<calls, lastIo, past>>
       [] e.k = "final" ->
            IF mustEnd # {} THEN Reject("a networking thread alive at a disconnect() never terminated")
            ELSE AdvK /\ UNCHANGED <<alive, lastIo, past, calls, mustEnd>>
       [] e.k = "raise" ->
            /\ l' = l + 1 /\ UNCHANGED <<tid, rejected>>
            /\ beforeRaise' = IF e.who \in DOMAIN beforeRaise THEN [beforeRaise EXCEPT ![e.who] = started] ELSE beforeRaise
            /\ UNCHANGED <<alive, lastIo, past, calls, mustEnd, started>>
       [] e.k = "teardown" ->
            IF e.by \in DOMAIN beforeRaise /\ e.victim # e.by /\ e.victim \in beforeRaise[e.by] /\ ~e.intr
            THEN Reject("the error handling of a failed connection tore down a connection that had been made before the failure")
            ELSE IF e.src = "react" /\ e.victim # e.by /\ ~e.intr
            THEN Reject("the default reaction to a packet of an ended connection tore down the connection a listener had made in the meantime")
            ELSE AdvK /\ UNCHANGED <<alive, lastIo, past, calls, mustEnd>>
       [] e.k = "he_teardown" ->
            IF e.victim # e.by /\ ~e.intr
            THEN Reject("the error handling of a dying thread disconnected a connection made by another thread in the meantime")
            ELSE AdvK /\ UNCHANGED <<alive, lastIo, past, calls, mustEnd>>
       [] OTHER -> Reject("unknown event")

Spec == Init /\ [][Step]_vars
Accepted == rejected = ""
=============================================================================
