--------------------------------- MODULE IdTables ---------------------------------
(***************************************************************************)
(* C06: per-version packet id tables are total and injective, hence an     *)
(* incoming id selects at most one decoder, independent of set iteration   *)
(* order.                                                                  *)
(*                                                                         *)
(* T-mode: Table is the table the running code exhibits, emitted by the    *)
(* harness for every protocol version x 4 states x 2 directions:           *)
(*   <<[v, sup, st, dir, ids |-> <<[cls, id, isint], ...>>], ...>>          *)
(* The static facts are ASSUMEs; the consumer (PacketReactor's dict build  *)
(* and lookup) is a small transition system over the same constant:        *)
(* Build inserts the classes in ANY order (that is the set iteration       *)
(* order), Lookup(id) dispatches.                                          *)
(***************************************************************************)
EXTENDS Naturals, Sequences, FiniteSets, TLC, Json, IOUtils

Table == JsonDeserialize(IOEnv.TRACE_FILE)

Entries == 1..Len(Table)
Ids(e) == Table[e].ids
Supported(e) == Table[e].sup

Total(e) == \A i \in 1..Len(Ids(e)) : Ids(e)[i].isint /\ Ids(e)[i].id >= 0
Injective(e) == \A i, j \in 1..Len(Ids(e)) : Ids(e)[i].id = Ids(e)[j].id => i = j

ASSUME TotalOnSupported == \A e \in Entries : Supported(e) => Total(e)
\* exc: the entry's collisions are all listed in known_findings.json (reported by
\* the harness as KNOWN-FINDING lines); any other collision falsifies the assumption
ASSUME InjectiveOnSupported == \A e \in Entries : (Supported(e) /\ ~Table[e].exc) => Injective(e)

\* collisions outside the property's quantifier are only reported
Collisions == {e \in Entries : ~Supported(e) /\ ~Injective(e)}
ASSUME PrintT(ToJson([collisions_at_unsupported |-> {Table[e].v : e \in Collisions}]))

----------------------------------------------------------------------------
(* the consumer: build a dict id -> class by inserting in arbitrary order  *)
CONSTANT MaxClasses     \* only tables with at most this many classes are walked exhaustively

VARIABLES e, todo, dict, phase
vars == <<e, todo, dict, phase>>

Small == {x \in Entries : Supported(x) /\ ~Table[x].exc /\ Table[x].dir = "clientbound" /\ Len(Ids(x)) <= MaxClasses /\ Len(Ids(x)) > 0}

Init == e \in Small /\ todo = 1..Len(Ids(e)) /\ dict = <<>> /\ phase = "build"

\* dict is a sequence of <<id, classIndex>> pairs with unique ids (later insert overwrites)
Put(d, id, k) == IF \E i \in 1..Len(d) : d[i][1] = id
                 THEN [i \in 1..Len(d) |-> IF d[i][1] = id THEN <<id, k>> ELSE d[i]]
                 ELSE Append(d, <<id, k>>)

Insert == /\ phase = "build" /\ todo # {}
          /\ \E k \in todo : /\ dict' = Put(dict, Ids(e)[k].id, k)
                             /\ todo' = todo \ {k}
          /\ UNCHANGED <<e, phase>>
Finish == /\ phase = "build" /\ todo = {} /\ phase' = "ready" /\ UNCHANGED <<e, todo, dict>>
Next == Insert \/ Finish \/ (phase = "ready" /\ UNCHANGED vars)
Spec == Init /\ [][Next]_vars

\* whatever the insertion order: every class is reachable by its own id and nothing else is
DispatchRight ==
  phase = "ready" =>
     /\ Len(dict) = Len(Ids(e))
     /\ \A k \in 1..Len(Ids(e)) : \E i \in 1..Len(dict) : dict[i] = <<Ids(e)[k].id, k>>
=============================================================================
