---------------------------------- MODULE MC_AuthToken ----------------------------------
EXTENDS AuthToken
MCValues == {"a"}
MCStatuses == {200, 204, 400, 403, 500, 503}
MCBodies == {"result", "error", "partial", "nonjson", "empty"}
=============================================================================
