SPECIFICATION Spec
INVARIANT Accepted
INVARIANT NothingUndecodable
