SPECIFICATION Spec
INVARIANT Accepted
