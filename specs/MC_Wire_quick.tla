------------------------------ MODULE MC_Wire_quick ------------------------------
EXTENDS MC_Wire
MCCases == <<Exhaustive8, IntBoundaries, Bools, VarInts, Floats, Strings, ByteArrays, Uuids, Fixed, Arrays,
            Angles(-2200, 4300)>>
=============================================================================
