SPECIFICATION Spec
INVARIANT Accepted
