-------------------------------- MODULE MC_Position --------------------------------
EXTENDS PositionCodec

P(k) == Pow2(k)
\* boundary values of a signed w-bit field
Bnd(w) == {0, 1, -1, 2, -2, 3, P(w - 1) - 1, 0 - P(w - 1), P(w - 1) - 2, 1 - P(w - 1)}
          \cup {P(k) : k \in 1..(w - 2)} \cup {0 - P(k) : k \in 1..(w - 2)}
Few(w) == {0, 1, -1, P(w - 1) - 1, 0 - P(w - 1), 5, -6, P(w - 2), 0 - P(w - 2) - 1}
Lay == {"XYZ", "XZY"}

\* the discriminating probe set used to determine the layout the code uses at a version
Probe == {[k |-> "pe", lay |-> l, x |-> t[1], y |-> t[2], z |-> t[3]] : l \in Lay,
           t \in {<<1, 2, 3>>, <<-1, 0, 0>>, <<0, -1, 0>>, <<0, 0, -1>>, <<0, 2047, -33554432>>,
                  <<33554431, -2048, 1>>, <<-33554432, 1, 33554431>>, <<5, -6, 7>>, <<0, 1, 0>>,
                  <<0, 0, 1>>, <<1, 0, 0>>, <<-2, 100, -300>>}}

PosFull(u) == {[k |-> "pe", lay |-> l, x |-> x, y |-> y, z |-> z] : l \in Lay, x \in Bnd(26), y \in Bnd(12), z \in Bnd(26)}
PosQuick(u) ==
  {[k |-> "pe", lay |-> l, x |-> x, y |-> y, z |-> z] : l \in Lay, x \in Few(26), y \in Few(12), z \in Few(26)}
PosAxisX == {[k |-> "pe", lay |-> l, x |-> x, y |-> y, z |-> z] : l \in Lay, x \in Bnd(26), y \in {0, -1, 2047}, z \in {0, -1, 33554431}}
PosAxisY == {[k |-> "pe", lay |-> l, x |-> x, y |-> y, z |-> z] : l \in Lay, x \in {0, -1, 33554431}, y \in Bnd(12), z \in {0, -1, -33554432}}
PosAxisZ == {[k |-> "pe", lay |-> l, x |-> x, y |-> y, z |-> z] : l \in Lay, x \in {0, -1, -33554432}, y \in {0, -1, -2048}, z \in Bnd(26)}

\* 64-bit words: every single-bit word, its complement, sign-boundary words
OneBit(i) == BitsToBytes([j \in 1..64 |-> IF j = i THEN 1 ELSE 0])
NotOneBit(i) == BitsToBytes([j \in 1..64 |-> IF j = i THEN 0 ELSE 1])
UpTo(i) == BitsToBytes([j \in 1..64 |-> IF j <= i THEN 1 ELSE 0])
From(i) == BitsToBytes([j \in 1..64 |-> IF j >= i THEN 1 ELSE 0])
Words == {OneBit(i) : i \in 1..64} \cup {NotOneBit(i) : i \in 1..64} \cup {UpTo(i) : i \in 0..64} \cup {From(i) : i \in 1..64}
         \cup {<<18, 52, 86, 120, 154, 188, 222, 240>>, <<255, 0, 255, 0, 170, 85, 1, 128>>}
PosWords == {[k |-> "pd", lay |-> l, w |-> w] : l \in Lay, w \in Words}
CspWords == {[k |-> "cd", w |-> w] : w \in Words}
CspEnc == {[k |-> "ce", x |-> x, y |-> y, z |-> z] : x \in Few(22) \cup {P(20), 0 - P(20)}, y \in Few(20) \cup {P(10)}, z \in Few(22) \cup {-3}}
CspAxis == {[k |-> "ce", x |-> x, y |-> 0, z |-> -1] : x \in Bnd(22)} \cup {[k |-> "ce", x |-> -1, y |-> y, z |-> 0] : y \in Bnd(20)}
           \cup {[k |-> "ce", x |-> 0, y |-> -1, z |-> z] : z \in Bnd(22)}

\* block records
States == {<<>>, <<1>>, <<1, 1, 1, 1>>, <<1, 0, 0, 0, 0>>, [i \in 1..14 |-> 1], <<1>> \o Zeros(14),
           [i \in 1..31 |-> 1], [i \in 1..32 |-> i % 2], <<1>> \o Zeros(50), [i \in 1..51 |-> 1]}
RecNew == {[k |-> "rn", st |-> s, x |-> x, y |-> y, z |-> z] : s \in States, x \in {0, 1, 8, 15}, y \in {0, 1, 7, 15}, z \in {0, 2, 15}}
RecOld == {[k |-> "ro", st |-> s, x |-> x, y |-> y, z |-> z] :
             s \in {s2 \in States : Len(s2) <= 32}, x \in {0, 1, 8, 15}, y \in {0, 1, 127, 128, 255}, z \in {0, 2, 15}}
=============================================================================
