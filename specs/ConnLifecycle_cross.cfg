\* self-test: the code as it was before fix 29c3a80 (check outside the lock, disconnect later) must violate
\* NoCrossTeardown (a dying thread's deferred disconnect(immediate=True) tears down a successor started in between)
SPECIFICATION Spec
CONSTANTS
  Users <- MCUsers1
  Programs <- P3
  MaxThreads = 3
  MaxSocks = 3
  ServerModes <- Both
  SrvMayClose = TRUE
  Reactions <- AllReactions
  HandlerReconnect = TRUE
  SrvMayStall = FALSE
  HEAtomic = FALSE
  ShutdownBoth = TRUE
  Fixed = TRUE
  Emit = FALSE
PROPERTY NoCrossTeardown
