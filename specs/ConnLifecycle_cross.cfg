\* observation outside the listed properties: expected to be violated (a dying thread's deferred
\* disconnect(immediate=True) tears down a successor connection started in between)
SPECIFICATION Spec
CONSTANTS
  Users <- MCUsers1
  Programs <- P3
  MaxThreads = 3
  MaxSocks = 3
  ServerModes <- Both
  SrvMayClose = TRUE
  Reactions <- AllReactions
  HandlerReconnect = TRUE
  SrvMayStall = FALSE
  ShutdownBoth = TRUE
  Fixed = TRUE
  Emit = FALSE
PROPERTY NoCrossTeardown
