------------------------------------ MODULE Trackers ------------------------------------
(***************************************************************************)
(* C20: the tracker objects replay packet histories.                       *)
(*  players  uuid -> [present, name, gm, ping, disp]   (PlayerList)        *)
(*  maps     id -> [present, scale, tracking, locked, icons, cells]        *)
(*           cells: a G x G window of the 128 x 128 pixel array (MapSet)   *)
(*  pos      [x, y, z, yaw, pitch]                     (PositionAndLook)   *)
(* Packets:                                                                *)
(*  <<"pl", kind, actions>> kind in add|gm|lat|disp|rem, an action is      *)
(*      <<uuid, name, gm, ping, disp>> (unused parts ignored)              *)
(*  <<"map", id, scale, tracking, locked, icons, w, ox, oz, pixels>>       *)
(*      w = 0: no pixel data                                               *)
(*  <<"pos", flags, x, y, z, yaw, pitch>>  flags: 1 x, 2 y, 4 z, 8 yaw,    *)
(*      16 pitch relative                                                  *)
(***************************************************************************)
EXTENDS Integers, Sequences, FiniteSets, TLC, Json

CONSTANTS Uuids, MapIds, G

Absent == [present |-> FALSE, name |-> "", gm |-> 0, ping |-> 0, disp |-> "none"]
NoMap == [present |-> FALSE, scale |-> 0, tracking |-> TRUE, locked |-> FALSE, icons |-> <<>>, cells |-> [i \in 1..(G * G) |-> 0]]

InitPlayers == [u \in Uuids |-> Absent]
InitMaps == [m \in MapIds |-> NoMap]
InitPos == [x |-> 0, y |-> 0, z |-> 0, yaw |-> 0, pitch |-> 0]

ApplyAction(pl, kind, a) ==
  LET u == a[1] IN
  CASE kind = "add"  -> [pl EXCEPT ![u] = [present |-> TRUE, name |-> a[2], gm |-> a[3], ping |-> a[4], disp |-> a[5]]]
    [] kind = "gm"   -> IF pl[u].present THEN [pl EXCEPT ![u].gm = a[3]] ELSE pl       \* unknown player: no-op
    [] kind = "lat"  -> IF pl[u].present THEN [pl EXCEPT ![u].ping = a[4]] ELSE pl
    [] kind = "disp" -> IF pl[u].present THEN [pl EXCEPT ![u].disp = a[5]] ELSE pl
    [] kind = "rem"  -> [pl EXCEPT ![u] = Absent]

RECURSIVE ApplyActions(_, _, _, _)
ApplyActions(pl, kind, as, i) == IF i > Len(as) THEN pl ELSE ApplyActions(ApplyAction(pl, kind, as[i]), kind, as, i + 1)

\* pixel i (0-based) of the update lands at (ox + i mod w, oz + i div w); only the window is tracked
RECURSIVE Paint(_, _, _, _, _, _)
Paint(cells, w, ox, oz, px, i) ==
  IF i > Len(px) THEN cells
  ELSE LET x == ox + ((i - 1) % w)  z == oz + ((i - 1) \div w) IN
       Paint(IF x < G /\ z < G THEN [cells EXCEPT ![x + G * z + 1] = px[i]] ELSE cells, w, ox, oz, px, i + 1)

ApplyMap(ms, p) ==
  LET id == p[2]
      old == IF ms[id].present THEN ms[id] ELSE [NoMap EXCEPT !.present = TRUE]
      cells2 == IF p[7] = 0 THEN old.cells ELSE Paint(old.cells, p[7], p[8], p[9], p[10], 1)
  IN [ms EXCEPT ![id] = [present |-> TRUE, scale |-> p[3], tracking |-> p[4], locked |-> p[5], icons |-> p[6], cells |-> cells2]]

Bit(f, b) == (f \div b) % 2 = 1
ApplyPos(ps, p) ==
  LET f == p[2] IN
  [x |-> IF Bit(f, 1) THEN ps.x + p[3] ELSE p[3],
   y |-> IF Bit(f, 2) THEN ps.y + p[4] ELSE p[4],
   z |-> IF Bit(f, 4) THEN ps.z + p[5] ELSE p[5],
   yaw |-> (IF Bit(f, 8) THEN ps.yaw + p[6] ELSE p[6]) % 360,
   pitch |-> (IF Bit(f, 16) THEN ps.pitch + p[7] ELSE p[7]) % 360]

Apply(S, p) ==
  CASE p[1] = "pl"  -> [S EXCEPT !.players = ApplyActions(S.players, p[2], p[3], 1)]
    [] p[1] = "map" -> [S EXCEPT !.maps = ApplyMap(S.maps, p)]
    [] p[1] = "pos" -> [S EXCEPT !.pos = ApplyPos(S.pos, p)]

InitState == [players |-> InitPlayers, maps |-> InitMaps, pos |-> InitPos]
=============================================================================
