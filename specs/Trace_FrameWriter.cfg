SPECIFICATION Spec
INVARIANT Law
INVARIANT ModelMatches
