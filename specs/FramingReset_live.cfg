SPECIFICATION RSpec
CONSTANTS
  Streams <- MCStreamsSmall
  EofCheck = TRUE
  MaxEmpty = 3
  Emit = FALSE
  ErrBitsMeanIdle = FALSE
VIEW NoCuts
PROPERTY ResetLeaves
PROPERTY EndLeaves
