SPECIFICATION Spec
INVARIANT Monotone
