-------------------------------- MODULE VersionTables --------------------------------
(***************************************************************************)
(* C08, static part (T-mode): the version records, the seven derived       *)
(* tables and the order predicates, all as exhibited by the running code,  *)
(* are checked against the projections defined in Versions.tla and against *)
(* the order of first occurrence.                                          *)
(*  D.records  <<<<id, p, sup>>, ...>>      D.known, D.sup, D.rel  ordered maps        *)
(*  D.knownP, D.supP, D.relP  sequences     D.idx  <<<<p, rank>>, ...>> by rank         *)
(*  D.releaseIds  ids of D.records matching \d+(\.\d+)+                                  *)
(*  D.lt, D.le, D.gt, D.ge, D.clt, D.cle: 0/1 matrices over ranks: the five predicates  *)
(*  (and the context variants) evaluated on every ordered pair of known protocols       *)
(***************************************************************************)
EXTENDS Versions, IOUtils

D == JsonDeserialize(IOEnv.TRACE_FILE)
Recs == [i \in 1..Len(D.records) |-> [id |-> D.records[i][1], p |-> D.records[i][2], sup |-> D.records[i][3]]]
N == Len(D.knownP)
PREBIT == 1073741824

ASSUME KnownIsProjection   == D.known = KnownMapOf(Recs)
ASSUME KnownPIsProjection  == D.knownP = KnownProtosOf(Recs)
ASSUME SupIsProjection     == D.sup = SupMapOf(Recs)
ASSUME SupPIsProjection    == D.supP = ProtosOf(D.sup)
ASSUME RelIsProjection     == D.rel = SelectSeq(D.sup, LAMBDA e : e[1] \in {D.releaseIds[i] : i \in 1..Len(D.releaseIds)})
ASSUME RelPIsProjection    == D.relP = ProtosOf(D.rel)
ASSUME IdxIsRank           == D.idx = IndexOf(D.knownP)

\* numeric order for ordinary numbers; PRE-flagged numbers are placed by the list alone
ASSUME OrdinaryNumbersAscend ==
  \A i, j \in 1..N : (i < j /\ D.knownP[i] < PREBIT /\ D.knownP[j] < PREBIT) => D.knownP[i] < D.knownP[j]

\* the predicates are the strict / non-strict order of ranks
Bit(b) == IF b THEN 1 ELSE 0
ASSUME EarlierIsRankOrder    == \A i, j \in 1..N : D.lt[i][j] = Bit(i < j)
ASSUME EarlierEqIsRankOrder  == \A i, j \in 1..N : D.le[i][j] = Bit(i <= j)
ASSUME LaterIsRankOrder      == \A i, j \in 1..N : D.gt[i][j] = Bit(i > j)
ASSUME LaterEqIsRankOrder    == \A i, j \in 1..N : D.ge[i][j] = Bit(i >= j)
ASSUME CtxEarlierIsRankOrder == \A i, j \in 1..N : D.clt[i][j] = Bit(i < j) /\ D.cle[i][j] = Bit(i <= j)

\* consequences (strict total order, mutual consistency), stated for the record
ASSUME StrictTotalOrder ==
  /\ \A i \in 1..N : D.lt[i][i] = 0
  /\ \A i, j \in 1..N : i # j => (D.lt[i][j] = 1) # (D.lt[j][i] = 1)
  /\ \A i, j \in 1..N : D.le[i][j] = 1 <=> (D.lt[i][j] = 1 \/ i = j)
  /\ \A i, j \in 1..N : D.gt[i][j] = D.lt[j][i] /\ D.ge[i][j] = D.le[j][i]
=============================================================================
