------------------------------- MODULE FrameEnvelope -------------------------------
(***************************************************************************)
(* The sizes of the frame Packet._write_buffer puts on the wire (pure      *)
(* definitions, shared by FrameWriter.tla - checked by TLC - and           *)
(* FrameEnvelopeProofs.tla - proved by TLAPS for all sizes).               *)
(***************************************************************************)
EXTENDS Integers

CONSTANTS Off,          \* the threshold value standing for "compression not enabled"
          Variant       \* "code" | "sizeByCompressed" (a seeded change)

VarIntSize(v) == IF v < 128 THEN 1 ELSE IF v < 16384 THEN 2 ELSE IF v < 2097152 THEN 3 ELSE IF v < 268435456 THEN 4 ELSE 5

\* does the code compress?  (len > threshold, threshold # -1)
Compresses(n, thr) == thr # Off /\ thr # -1 /\ n > thr

\* what the code writes: [pl |-> declared packet length, plb |-> bytes of that prefix, dl |-> data length value (-1: field absent),
\*                        dlb |-> bytes of the data length field, body |-> bytes after it]
Envelope(n, thr, c) ==
  IF thr = Off THEN [pl |-> n, plb |-> VarIntSize(n), dl |-> -1, dlb |-> 0, body |-> n]
  ELSE IF Compresses(n, thr)
       THEN LET dlb == VarIntSize(n)
                declared == IF Variant = "sizeByCompressed" THEN VarIntSize(c) + c ELSE dlb + c
            IN [pl |-> declared, plb |-> VarIntSize(declared), dl |-> n, dlb |-> dlb, body |-> c]
       ELSE [pl |-> 1 + n, plb |-> VarIntSize(1 + n), dl |-> 0, dlb |-> 1, body |-> n]
=============================================================================
