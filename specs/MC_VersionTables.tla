------------------------------ MODULE MC_VersionTables ------------------------------
EXTENDS VersionTables
MCBase == <<>>
MCNew == {}
MCNewSup == {}
MCRelease == {}
=============================================================================
