SPECIFICATION Spec
CONSTANTS
  Uuids <- TUuids
  MapIds <- TMapIds
  G = 4
INVARIANT Accepted
INVARIANT AnglesWrapped
