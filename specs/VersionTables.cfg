SPECIFICATION Spec
CONSTANTS
  BaseRecords <- MCBase
  NewRecords <- MCNew
  NewSupported <- MCNewSup
  ReleaseIds <- MCRelease
  MaxOps = 0
  Emit = FALSE
