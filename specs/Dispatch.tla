---------------------------------- MODULE Dispatch ----------------------------------
(***************************************************************************)
(* C13: listener dispatch.  MODEL of Connection._react, _write_packet,     *)
(* PacketListener.call_packet and the reactor's place between the early    *)
(* and ordinary incoming listeners.                                        *)
(*                                                                         *)
(* Packet kinds and their classes (a small poset, concretised per state):  *)
(*   "A"  incoming, the reaction queues the answer "RA"   {Packet, Abs, A} *)
(*   "RA" outgoing answer                                 {Packet, Abs, RA}*)
(*   "B"  incoming, known, no reaction                    {Packet, B}      *)
(*   "U"  incoming, unknown id (generic packet)           {Packet}         *)
(*   "C"  incoming set-compression (login; play up to protocol 47): the    *)
(*        reaction switches the compression envelope on   {Packet, C}      *)
(*   "D"  final incoming packet; in the play state it is the disconnect     *)
(*        packet (the reaction flushes and closes), in the login state it   *)
(*        is login success (the reaction only switches reactor) {Packet, D} *)
(* A listener is [f |-> set of class names, ig |-> raises IgnorePacket,    *)
(* dc |-> calls disconnect(immediate=True) on its connection (early        *)
(* incoming listeners only): the packet at hand still goes through every   *)
(* later stage - only 'ignore' stops stages - and nothing is read after.   *)
(* late |-> an incoming listener registered only after packet number lateK *)
(* has been dispatched (listeners may be registered at any time): it takes *)
(* part in every later packet, whatever was dispatched before.             *)
(* Four lists: early incoming, incoming, early outgoing, outgoing.         *)
(* The reaction of a packet occurrence takes effect between its early and  *)
(* its ordinary listeners: every log entry records whether the effect was  *)
(* already visible when the listener ran (answer queued / compression on / *)
(* reactor switched / connection closed).                                  *)
(***************************************************************************)
EXTENDS Naturals, Sequences, FiniteSets, TLC, Json

CONSTANTS Filters,      \* filter sets a listener may register
          MaxIn, MaxOut,\* bounds on list lengths (incoming lists, outgoing lists)
          States,       \* connection states explored: subset of {"play", "login"}
          Histories,    \* set of incoming packet histories (sequences over {"A","B","U"}); "D" is appended
          Emit

VARIABLES EI, OI, EO, OO, hist, batch, st, forced, lateK,  \* configuration; forced: the user finally calls write_packet(force=True)
                                                    \* with a packet of kind "RA" (occurrence 99) (constant); batch: the server sends the whole
                                        \* history at once (one read batch, no write phase in between)
          k, stage, queue, log, wire, closed, ignored, nw, fdone,
          reacted,      \* occurrences whose built-in reaction has taken effect
          comp          \* compression envelope switched on
cfgv == <<EI, OI, EO, OO, hist, batch, st, forced, lateK>>
vars == <<EI, OI, EO, OO, hist, batch, st, forced, lateK, k, stage, queue, log, wire, closed, ignored, nw, fdone, reacted, comp>>

Classes(p) == CASE p = "A" -> {"Packet", "Abs", "A"} [] p = "RA" -> {"Packet", "Abs", "RA"}
                [] p = "B" -> {"Packet", "B"} [] p = "U" -> {"Packet"} [] p = "D" -> {"Packet", "D"} [] p = "C" -> {"Packet", "C"}
HasReaction(p) == p \in {"A", "C", "D"}

Listener == [f : Filters, ig : BOOLEAN, dc : {FALSE}, late : {FALSE}]
EarlyListener == Listener \cup [f : Filters, ig : {FALSE}, dc : {TRUE}, late : {FALSE}]
Lists(n) == UNION {[1..m -> Listener] : m \in 0..n}
EarlyLists(n) == UNION {[1..m -> EarlyListener] : m \in 0..n}

Matches(l, p) == l.f \cap Classes(p) # {}

\* run one list on packet p: the calls made, and whether one of them raised IgnorePacket
\* log entries are <<list, index, packet kind, occurrence>>; the occurrence of an incoming packet is its
\* position in the history, that of an answer is the position of the packet it answers
\* the fifth component: 1 iff the reaction to this occurrence is already in effect when the listener runs
RECURSIVE RunFrom(_, _, _, _, _, _)
RunFrom(L, name, p, occ, i, seen) ==
  IF i > Len(L) THEN [calls |-> <<>>, ig |-> FALSE, dc |-> FALSE]
  ELSE IF ~Matches(L[i], p) \/ (L[i].late /\ occ <= lateK) THEN RunFrom(L, name, p, occ, i + 1, seen)
  ELSE IF L[i].ig THEN [calls |-> <<<<name, i, p, occ, seen>>>>, ig |-> TRUE, dc |-> FALSE]
  ELSE LET r == RunFrom(L, name, p, occ, i + 1, seen) IN
       [calls |-> <<<<name, i, p, occ, seen>>>> \o r.calls, ig |-> r.ig, dc |-> (L[i].dc \/ r.dc)]
RunList(L, name, p, occ) == RunFrom(L, name, p, occ, 1, IF name \in {"EI", "OI"} /\ occ \in reacted THEN 1 ELSE 0)

Init == /\ EI \in EarlyLists(MaxIn) /\ OI \in Lists(MaxIn) /\ EO \in Lists(MaxOut) /\ OO \in Lists(MaxOut)
        /\ \E h \in Histories : hist = h \o <<"D">>
        /\ batch \in BOOLEAN /\ st \in States /\ lateK = 0 /\ forced = TRUE     \* (a run without the final forced write is a prefix of one with it)
        /\ k = 1 /\ stage = "early" /\ queue = <<>> /\ log = <<>> /\ wire = <<>> /\ closed = FALSE /\ ignored = FALSE /\ nw = 0 /\ fdone = FALSE
        /\ reacted = {} /\ comp = FALSE

Cur == hist[k]

\* for listener in early_packet_listeners: listener.call_packet(packet)
Early == /\ stage = "early" /\ k <= Len(hist) /\ ~closed
         /\ LET r == RunList(EI, "EI", Cur, k) IN
              /\ log' = log \o r.calls
              /\ IF r.ig THEN stage' = "after" ELSE stage' = "react"       \* IgnorePacket: skip reactor and listeners
              /\ ignored' = r.ig
              /\ closed' = (closed \/ r.dc)          \* a listener disconnected: the stages of this packet go on regardless
         /\ UNCHANGED <<cfgv, k, queue, wire, nw, fdone, reacted, comp>>

\* self.reactor.react(packet)
ReactStep == /\ stage = "react"
             /\ queue' = IF Cur = "A" THEN Append(queue, k) ELSE queue        \* the answer to packet number k
             /\ stage' = IF Cur = "D" /\ st = "play" THEN "closing" ELSE "ordinary"
             /\ reacted' = IF HasReaction(Cur) THEN reacted \cup {k} ELSE reacted
             /\ comp' = (comp \/ Cur = "C")
             /\ UNCHANGED <<cfgv, k, log, wire, closed, ignored, nw, fdone>>

\* disconnect(): flush the queue through _write_packet, then close; then the ordinary listeners still run
Closing == /\ stage = "closing"
           /\ IF queue # <<>> /\ ~closed THEN
                LET e == RunList(EO, "EO", "RA", Head(queue)) IN
                IF e.ig THEN /\ log' = log \o e.calls /\ UNCHANGED wire
                ELSE LET o == RunList(OO, "OO", "RA", Head(queue)) IN
                     /\ log' = log \o e.calls \o o.calls /\ wire' = Append(wire, Head(queue))
              ELSE UNCHANGED <<log, wire>>
           /\ queue' = IF queue # <<>> /\ ~closed THEN Tail(queue) ELSE queue
           /\ nw' = IF queue # <<>> /\ ~closed THEN nw + 1 ELSE nw
           /\ IF closed \/ queue = <<>> \/ Len(queue) = 1 THEN closed' = TRUE /\ stage' = "ordinary"
              ELSE UNCHANGED <<closed, stage>>
           /\ UNCHANGED <<cfgv, k, ignored, fdone, reacted, comp>>

\* for listener in packet_listeners: listener.call_packet(packet)
Ordinary == /\ stage = "ordinary"
            /\ log' = log \o RunList(OI, "OI", Cur, k).calls
            /\ stage' = "after"
            /\ UNCHANGED <<cfgv, k, queue, wire, closed, ignored, nw, fdone, reacted, comp>>

\* end of one packet: in a batch the next packet is read straight away
After == /\ stage = "after"
         /\ IF batch /\ k < Len(hist) /\ ~closed
            THEN k' = k + 1 /\ stage' = "early"
            ELSE k' = k /\ stage' = "flush"
         /\ UNCHANGED <<cfgv, queue, log, wire, closed, ignored, nw, fdone, reacted, comp>>

\* next write phase of the networking thread: _pop_packet -> _write_packet for everything queued
Flush == /\ stage = "flush"
         /\ IF queue = <<>> \/ closed
            THEN /\ k' = k + 1 /\ stage' = "early" /\ UNCHANGED <<queue, log, wire, nw>>
            ELSE LET e == RunList(EO, "EO", "RA", Head(queue)) IN
                 /\ queue' = Tail(queue) /\ nw' = nw + 1
                 /\ IF e.ig THEN /\ log' = log \o e.calls /\ UNCHANGED wire
                    ELSE LET o == RunList(OO, "OO", "RA", Head(queue)) IN
                         /\ log' = log \o e.calls \o o.calls /\ wire' = Append(wire, Head(queue))
                 /\ UNCHANGED <<k, stage>>
         /\ UNCHANGED <<cfgv, closed, ignored, fdone, reacted, comp>>

HistDone == (k > Len(hist) \/ (closed /\ stage = "early"))
\* write_packet(packet, force=True) from the user: lock, early outgoing listeners, write, outgoing listeners;
\* IgnorePacket never escapes to the caller
Forced == /\ HistDone /\ forced /\ ~fdone /\ ~closed
          /\ LET e == RunList(EO, "EO", "RA", 99) IN
               IF e.ig THEN /\ log' = log \o e.calls /\ UNCHANGED wire
               ELSE LET o == RunList(OO, "OO", "RA", 99) IN
                    /\ log' = log \o e.calls \o o.calls /\ wire' = Append(wire, 99)
          /\ fdone' = TRUE
          /\ UNCHANGED <<cfgv, k, stage, queue, closed, ignored, nw, reacted, comp>>
Done == HistDone /\ (fdone \/ ~forced \/ closed)
Next == Early \/ ReactStep \/ Closing \/ Ordinary \/ After \/ Flush \/ Forced \/ (Done /\ UNCHANGED vars)
Spec == Init /\ [][Next]_vars /\ WF_vars(Early \/ ReactStep \/ Closing \/ Ordinary \/ After \/ Flush \/ Forced)

----------------------------------------------------------------------------
(* C13 as invariants over the call log                                     *)
Idx(name) == CASE name = "EI" -> 1 [] name = "OI" -> 2 [] name = "EO" -> 3 [] name = "OO" -> 4

\* each listener at most once per packet occurrence (log entries of one packet occurrence are contiguous per stage)
NoDoubleCall ==
  \A i, j \in 1..Len(log) : log[i] = log[j] => i = j
\* only matching listeners are called
OnlyMatching ==
  \A i \in 1..Len(log) :
     LET L == CASE log[i][1] = "EI" -> EI [] log[i][1] = "OI" -> OI [] log[i][1] = "EO" -> EO [] log[i][1] = "OO" -> OO IN
     Matches(L[log[i][2]], log[i][3])
\* within one list, calls for one packet are in registration order; early before ordinary
OrderWithinPacket ==
  \A i, j \in 1..Len(log) :
     (i < j /\ log[i][3] = log[j][3] /\ log[i][4] = log[j][4] /\ log[i][3] # "RA") =>
        \/ Idx(log[i][1]) < Idx(log[j][1])
        \/ (log[i][1] = log[j][1] /\ log[i][2] < log[j][2])
\* an ignoring listener is the last one called for that packet occurrence in its direction
IgnoreStops ==
  \A i, j \in 1..Len(log) :
     LET L == CASE log[i][1] = "EI" -> EI [] log[i][1] = "OI" -> OI [] log[i][1] = "EO" -> EO [] log[i][1] = "OO" -> OO IN
     (i < j /\ L[log[i][2]].ig /\ log[i][3] = log[j][3] /\ log[i][4] = log[j][4]) =>
        (log[i][1] \in {"EI", "OI"}) # (log[j][1] \in {"EI", "OI"})
\* an answer is on the wire iff no early outgoing listener ignored it
WireIffNotSuppressed ==
  Done => Len(wire) <= Cardinality({j \in 1..Len(hist) : hist[j] = "A"}) + 1
\* the built-in reaction sits between the early and the ordinary incoming listeners: no early listener sees its effect, every
\* ordinary listener of a reacting packet does; and a reaction that an early listener ignored never happens
ReactionBetweenStages ==
  \A i \in 1..Len(log) : (log[i][5] = 1) <=> (log[i][1] = "OI" /\ HasReaction(log[i][3]))
IgnoredNeverReacts ==
  \A i \in 1..Len(log) :
     (log[i][1] = "EI" /\ EI[log[i][2]].ig) => log[i][4] \notin reacted
\* only 'ignore' stops stages: after an early listener has disconnected, the ordinary listeners matching that packet still run
PacketDone(occ) == k > occ \/ (k = occ /\ stage \in {"after", "flush"})
IgnoredAtEarly(occ) == \E m \in 1..Len(log) : log[m][1] = "EI" /\ log[m][4] = occ /\ EI[log[m][2]].ig
DisconnectingListenerStopsNothing ==
  \A i \in 1..Len(log) :
     (log[i][1] = "EI" /\ EI[log[i][2]].dc /\ PacketDone(log[i][4]) /\ ~IgnoredAtEarly(log[i][4])) =>
        \A j \in 1..Len(OI) :
           (Matches(OI[j], log[i][3]) /\ \A j2 \in 1..(j - 1) : ~(Matches(OI[j2], log[i][3]) /\ OI[j2].ig))
              => \E m \in 1..Len(log) : log[m][1] = "OI" /\ log[m][2] = j /\ log[m][4] = log[i][4]
Terminates == <>Done

EmitRows == (Emit /\ Done) =>
  PrintT(ToJson([EI |-> EI, OI |-> OI, EO |-> EO, OO |-> OO, hist |-> hist, batch |-> batch, st |-> st, forced |-> forced, log |-> log, wire |-> wire, closed |-> closed, reacted |-> reacted, comp |-> comp]))
=============================================================================
