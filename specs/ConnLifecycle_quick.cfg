SPECIFICATION Spec
CONSTANTS
  Users <- MCUsers2
  Programs <- P2
  MaxThreads = 3
  MaxSocks = 3
  ServerModes <- Both
  SrvMayClose = TRUE
  Reactions <- SomeReactions
  HandlerReconnect = FALSE
  SrvMayStall = TRUE
  HEAtomic = TRUE
  ShutdownBoth = TRUE
  Fixed = TRUE
  Emit = FALSE
INVARIANT AtMostOneInIo
INVARIANT DisconnectNeverRaises
INVARIANT SlotsClearedWhenDead
INVARIANT IdleMeansConnectable
INVARIANT SuccessorAfterPredecessor
PROPERTY RefusalIsClean
PROPERTY InvalidStateIffActive
PROPERTY NoCrossTeardown
