---------------------------------- MODULE Trace_Values ----------------------------------
(***************************************************************************)
(* C20 (helper value types): observations of the real Vector / record /    *)
(* alias / flag-enum code are judged by the laws the property states.      *)
(*  [k |-> "vec", op, a, b, n, r, tin, tout]  component-wise, type kept    *)
(*  [k |-> "rec", same, fields, eq, ne, heq]  eq <=> same type and fields; *)
(*                                            ne = ~eq; eq => equal hashes *)
(*  [k |-> "alias", set, got]                 aliases read back            *)
(*  [k |-> "flag", members, own, v, names]    the printed name parses back *)
(*     (members: every name as attribute lookup on the enum resolves it -  *)
(*      a subclass's value wins over its base's; own: declared in the enum) *)
(***************************************************************************)
EXTENDS Integers, Sequences, FiniteSets, Bitwise, TLC, Json, IOUtils
Obs == JsonDeserialize(IOEnv.TRACE_FILE)

VARIABLE i
Init == i \in 1..Len(Obs)
Spec == Init /\ [][UNCHANGED i]_i

VecLaw(o) ==
  /\ o.tout = o.tin
  /\ CASE o.op = "add" -> o.r = <<o.a[1] + o.b[1], o.a[2] + o.b[2], o.a[3] + o.b[3]>>
       [] o.op = "sub" -> o.r = <<o.a[1] - o.b[1], o.a[2] - o.b[2], o.a[3] - o.b[3]>>
       [] o.op = "neg" -> o.r = <<0 - o.a[1], 0 - o.a[2], 0 - o.a[3]>>
       [] o.op \in {"mul", "rmul"} -> o.r = <<o.a[1] * o.n, o.a[2] * o.n, o.a[3] * o.n>>
       [] o.op = "floordiv" -> o.r = <<o.a[1] \div o.n, o.a[2] \div o.n, o.a[3] \div o.n>>
       [] o.op = "truediv" -> <<o.r[1] * o.n, o.r[2] * o.n, o.r[3] * o.n>> = o.a    \* operands chosen divisible
RecLaw(o) == /\ o.eq = (o.same /\ o.fields) /\ o.ne = ~o.eq /\ (o.eq => o.heq)
AliasLaw(o) == o.got = o.set

MemberVal(ms, nm) == IF nm = "0" THEN 0 ELSE ms[CHOOSE j \in 1..Len(ms) : ms[j][1] = nm][2]
IsMember(ms, nm) == nm = "0" \/ \E j \in 1..Len(ms) : ms[j][1] = nm
RECURSIVE OrAll(_, _, _)
OrAll(ms, names, j) == IF j > Len(names) THEN 0 ELSE MemberVal(ms, names[j]) | OrAll(ms, names, j + 1)
RECURSIVE Reach(_, _)
\* values obtainable by OR-ing members (closure)
Reach(ms, acc) == LET nxt == acc \cup {a | ms[j][2] : a \in acc, j \in 1..Len(ms)} IN IF nxt = acc THEN acc ELSE Reach(ms, nxt)
FlagLaw(o) ==
  IF o.names = <<"None">>
  THEN o.v \notin Reach(o.own, {0})                     \* no name only when the value is not a union of the enum's own members
  ELSE /\ \A j \in 1..Len(o.names) : IsMember(o.members, o.names[j])
       /\ OrAll(o.members, o.names, 1) = o.v

Law == LET o == Obs[i] IN
       CASE o.k = "vec" -> VecLaw(o) [] o.k = "rec" -> RecLaw(o) [] o.k = "alias" -> AliasLaw(o) [] o.k = "flag" -> FlagLaw(o)
=============================================================================
