SPECIFICATION PSpec
CONSTANTS
  Emit = FALSE
  FieldPool <- NoPool
  LastPool <- NoPool
  MaxFields = 0
INVARIANT ObservedMatches
