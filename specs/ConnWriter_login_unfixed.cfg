SPECIFICATION Spec
CONSTANTS
  Users <- MCUsers
  Progs <- MCProgs
  W = 2
  Locked = TRUE
  Login = TRUE
  SwapUnderLock = FALSE
INVARIANT FramesContiguous
INVARIANT ExactlyOnce
INVARIANT QueuedFifo
INVARIANT FlushBeforeClose
INVARIANT NothingAfterImmediate
INVARIANT NoPlaintextAfterEncResponse
PROPERTY SendOnlyUnderLock
