---------------------------------- MODULE ExcChain ----------------------------------
(***************************************************************************)
(* C14: an exception in the networking thread is contained and routed like *)
(* a try/except chain.  MODEL of NetworkingThread.run's except/finally and *)
(* Connection._handle_exception, one action per step.                      *)
(*                                                                         *)
(* Scenario (chosen in Init):                                              *)
(*   origin   where the exception arises: "early" | "listener" |           *)
(*            "reaction" | "decoder" | "exit"                              *)
(*   handlers sequence of [f, b, early] in REGISTRATION order:             *)
(*            f: "all" | "orig" | "repl" | "none"  which exceptions the    *)
(*               handler's types match                                     *)
(*            b: "return" | "raise" | "reconnect"                          *)
(*            early: registered with early=True (goes to the front)        *)
(*   final    "None" | "False" | "return" | "raise"                        *)
(* Exception kinds: <<"orig", 0>> (the original), <<"repl", i>> raised by  *)
(* the handler registered i-th, <<"final", 0>> raised by the final handler. *)
(***************************************************************************)
EXTENDS Naturals, Sequences, FiniteSets, TLC, Json

CONSTANTS MaxHandlers, Filters, Behaviours, Origins, Finals, Emit

VARIABLES origin, handlers, final,                   \* scenario (constant)
          order,       \* effective handler order (indices into handlers)
          pc, k, exc, caught, log, finalCalled, recorded, reraised, intr, closed, reconnected, slot
vars == <<origin, handlers, final, order, pc, k, exc, caught, log, finalCalled, recorded, reraised, intr, closed, reconnected, slot>>

Handler == [f : Filters, b : Behaviours, early : BOOLEAN]
Chains == UNION {[1..n -> Handler] : n \in 0..MaxHandlers}

\* early handlers are inserted at the front (so later early registrations come first), others appended
RECURSIVE Effective(_, _)
Effective(hs, i) ==
  IF i > Len(hs) THEN <<>>
  ELSE LET rest == Effective(hs, i + 1) IN
       IF hs[i].early THEN rest ELSE <<i>> \o rest
RECURSIVE Earlies(_, _)
Earlies(hs, i) == IF i = 0 THEN <<>> ELSE (IF hs[i].early THEN <<i>> ELSE <<>>) \o Earlies(hs, i - 1)
OrderOf(hs) == Earlies(hs, Len(hs)) \o Effective(hs, 1)

Matches(h, e) ==
  CASE h.f = "all" -> TRUE
    [] h.f = "orig" -> e[1] = "orig"
    [] h.f = "repl" -> e[1] = "repl"
    [] OTHER -> FALSE

Init == /\ origin \in Origins /\ handlers \in Chains /\ final \in Finals
        /\ order = OrderOf(handlers)
        /\ pc = "raise" /\ k = 1 /\ exc = <<"orig", 0>> /\ caught = FALSE /\ log = <<>> /\ finalCalled = <<"no", 0>>
        /\ recorded = <<"none", 0>> /\ reraised = FALSE /\ intr = FALSE /\ closed = (origin = "exit") /\ reconnected = FALSE
        /\ slot = "self"

\* except Exception as e: self.interrupt = True
Except == /\ pc = "raise" /\ intr' = TRUE /\ pc' = "handlers"
          /\ UNCHANGED <<origin, handlers, final, order, k, exc, caught, log, finalCalled, recorded, reraised, closed, reconnected, slot>>

\* for handler, exc_types in self._exception_handlers: ...
HE_User ==
  /\ pc = "handlers"
  /\ IF k > Len(order) THEN /\ pc' = "final" /\ UNCHANGED <<k, exc, caught, log, reconnected, slot>>
     ELSE LET h == handlers[order[k]] IN
          IF ~Matches(h, exc) THEN /\ k' = k + 1 /\ UNCHANGED <<pc, exc, caught, log, reconnected, slot>>
          ELSE /\ log' = Append(log, <<order[k], exc>>)
               /\ CASE h.b = "return" -> /\ caught' = TRUE /\ pc' = "final" /\ UNCHANGED <<k, exc, reconnected, slot>>
                    [] h.b = "reconnect" -> /\ caught' = TRUE /\ pc' = "final" /\ reconnected' = TRUE /\ slot' = "successor"
                                            /\ UNCHANGED <<k, exc>>
                    [] h.b = "raise" -> /\ exc' = <<"repl", order[k]>> /\ k' = k + 1
                                        /\ UNCHANGED <<pc, caught, reconnected, slot>>
  /\ UNCHANGED <<origin, handlers, final, order, finalCalled, recorded, reraised, intr, closed>>

\* if final_handler not in (None, False): final_handler(exc, exc_info)
HE_Final ==
  /\ pc = "final"
  /\ IF final \in {"None", "False"} THEN UNCHANGED <<finalCalled, exc>>
     ELSE /\ finalCalled' = exc
          /\ exc' = IF final = "raise" THEN <<"final", 0>> ELSE exc
  /\ pc' = "record"
  /\ UNCHANGED <<origin, handlers, final, order, k, caught, log, recorded, reraised, intr, closed, reconnected, slot>>

HE_Record == /\ pc = "record" /\ recorded' = exc /\ pc' = "check"
             /\ UNCHANGED <<origin, handlers, final, order, k, exc, caught, log, finalCalled, reraised, intr, closed, reconnected, slot>>

\* if (new or current).interrupt: disconnect(immediate=True)
HE_Check == /\ pc = "check"
            /\ closed' = (IF reconnected THEN closed ELSE TRUE)
            /\ pc' = "reraise"
            /\ UNCHANGED <<origin, handlers, final, order, k, exc, caught, log, finalCalled, recorded, reraised, intr, reconnected, slot>>

\* if final_handler is None and not caught: raise
HE_Reraise == /\ pc = "reraise" /\ reraised' = ((final = "None") /\ ~caught) /\ pc' = "finally"
              /\ UNCHANGED <<origin, handlers, final, order, k, exc, caught, log, finalCalled, recorded, intr, closed, reconnected, slot>>

\* finally: networking_thread = None (the successor adopts the slot later)
Finally == /\ pc = "finally" /\ slot' = (IF reconnected THEN "successor" ELSE "none") /\ pc' = "dead"
           /\ UNCHANGED <<origin, handlers, final, order, k, exc, caught, log, finalCalled, recorded, reraised, intr, closed, reconnected>>

Next == Except \/ HE_User \/ HE_Final \/ HE_Record \/ HE_Check \/ HE_Reraise \/ Finally \/ (pc = "dead" /\ UNCHANGED vars)
Spec == Init /\ [][Next]_vars /\ WF_vars(Except \/ HE_User \/ HE_Final \/ HE_Record \/ HE_Check \/ HE_Reraise \/ Finally)

----------------------------------------------------------------------------
(* try/except semantics as properties of the call log                      *)
Dead == pc = "dead"
\* at most one handler returns normally (the first that catches ends the search); handlers are tried in order
OneCatch == Cardinality({i \in 1..Len(log) : handlers[log[i][1]].b # "raise"}) <= 1
InOrder == \A i, j \in 1..Len(log) : i < j =>
              (CHOOSE a \in 1..Len(order) : order[a] = log[i][1]) < (CHOOSE a \in 1..Len(order) : order[a] = log[j][1])
\* a handler is called with the exception current at that point: the original until a handler raised
ReplacementFlows ==
  \A i \in 1..Len(log) : log[i][2] = IF i = 1 THEN <<"orig", 0>> ELSE <<"repl", log[i - 1][1]>>
FinalAlwaysRuns == Dead => ((final \in {"return", "raise"}) <=> (finalCalled[1] # "no"))
LastRecorded == Dead => (recorded = exc /\ recorded[1] # "none")
ReraiseOnlyIfUncaughtAndNoFinal == Dead => (reraised <=> (final = "None" /\ ~caught))
ClosedUnlessReconnected == Dead => (closed \/ reconnected)
ThreadEndsSlotFree == Dead => (intr /\ (slot = "none" \/ reconnected))
Terminates == <>Dead

EmitRows == (Emit /\ Dead) =>
  PrintT(ToJson([origin |-> origin, handlers |-> handlers, final |-> final, log |-> log, finalCalled |-> finalCalled,
                 recorded |-> recorded, reraised |-> reraised, closed |-> closed, reconnected |-> reconnected, caught |-> caught]))
=============================================================================
