---------------------------------- MODULE MC_ExcChain ----------------------------------
EXTENDS ExcChain
MCFilters == {"all", "orig", "repl", "none"}
MCBehaviours == {"return", "raise", "reconnect"}
MCOrigins == {"early", "listener", "reaction", "decoder", "exit"}
MCFinals == {"None", "False", "return", "raise"}
=============================================================================
