SPECIFICATION TraceSpec
CONSTANTS
  Cases <- NoCases
  Emit = FALSE
INVARIANT BytesMatch
INVARIANT AllBytes
INVARIANT UuidText36
