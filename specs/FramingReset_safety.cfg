SPECIFICATION RSpec
CONSTANTS
  Streams <- MCStreamsBig
  EofCheck = TRUE
  MaxEmpty = 3
  Emit = FALSE
  ErrBitsMeanIdle = FALSE
VIEW NoCuts
CONSTRAINT Bounded
INVARIANT DeliveredIsPrefix
INVARIANT DispatchAtBoundary
INVARIANT NoPartialDelivery
INVARIANT RNoPartialDelivery
INVARIANT UnknownSkippedWhole
INVARIANT DecryptOnceInOrder
INVARIANT BoundedReadsAfterEof
INVARIANT RAllCompleteDelivered
INVARIANT ResetOutcome
INVARIANT ResetNeverEof
