SPECIFICATION Spec
CONSTANTS
  ReaderInputs <- MCReaderInputs
  WriterInputs <- MCWriterInputs
  WriterDigits = 3
  RejectNegative = TRUE
  OutCap = 16
  Emit = TRUE
CONSTRAINT Bounded
INVARIANT TypeOK
INVARIANT ReadBounded
INVARIANT NoReadPastTerminator
INVARIANT ReaderMeetsContract
INVARIANT WriterMeetsContract
INVARIANT WriterCanonical
INVARIANT RoundTrip
INVARIANT WriterVariant
INVARIANT EmitRows
