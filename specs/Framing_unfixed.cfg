\* the body loop as it was before the fix: TLC must report BoundedReadsAfterEof violated (the spin)
SPECIFICATION Spec
CONSTANTS
  Streams <- MCStreamsSmall
  EofCheck = FALSE
  MaxEmpty = 3
  Emit = FALSE
VIEW NoCuts
CONSTRAINT Bounded
INVARIANT BoundedReadsAfterEof
