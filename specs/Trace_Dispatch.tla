------------------------------- MODULE Trace_Dispatch -------------------------------
(***************************************************************************)
(* I->S for C13: configurations larger than the exhaustive bound are drawn *)
(* by the harness, run against the real Connection, and the recorded call  *)
(* log and wire are validated by running the Dispatch model itself from    *)
(* the recorded configuration.                                             *)
(***************************************************************************)
EXTENDS Dispatch, IOUtils
Obs == JsonDeserialize(IOEnv.TRACE_FILE)
NoFilters == {}
NoStates == {}
NoHist == {}
VARIABLE tid
Conv(L) == [i \in 1..Len(L) |-> [f |-> {L[i].f[j] : j \in 1..Len(L[i].f)}, ig |-> L[i].ig, dc |-> L[i].dc, late |-> L[i].late]]
TraceInit ==
  /\ tid \in 1..Len(Obs)
  /\ LET o == Obs[tid] IN
       /\ EI = Conv(o.EI) /\ OI = Conv(o.OI) /\ EO = Conv(o.EO) /\ OO = Conv(o.OO)
       /\ hist = o.hist /\ batch = o.batch /\ st = o.st /\ forced = o.forced /\ lateK = o.lateK
  /\ k = 1 /\ stage = "early" /\ queue = <<>> /\ log = <<>> /\ wire = <<>> /\ closed = FALSE /\ ignored = FALSE /\ nw = 0 /\ fdone = FALSE
  /\ reacted = {} /\ comp = FALSE
TraceSpec == TraceInit /\ [][Next /\ UNCHANGED tid]_<<vars, tid>>
\* when one callable is registered several times in a list the harness cannot tell its registrations apart: the index is 0
NoIndex(lg) == [i \in 1..Len(lg) |-> <<lg[i][1], 0, lg[i][3], lg[i][4], lg[i][5]>>]
LogMatches == Done => ((IF Obs[tid].shared THEN NoIndex(log) ELSE log) = Obs[tid].log /\ wire = Obs[tid].wire /\ comp = Obs[tid].comp)
=============================================================================
