-------------------------------- MODULE Trace_Session --------------------------------
(***************************************************************************)
(* The client side of one TCP connection, whatever scenario produced it:   *)
(* every frame the real client sent in any execution of any dynamic check  *)
(* is decoded by the independent peer and must follow the grammar of the   *)
(* protocol's connection state machine.                                    *)
(*                                                                         *)
(*   start  --handshake(next=1)-->  status : request, then at most a ping  *)
(*          --handshake(next=2)-->  login  : login start first, then at    *)
(*                                           most one encryption response, *)
(*                                           plugin responses              *)
(*   login  --(server: success)-->  play   : play packets of that version  *)
(*                                                                         *)
(* A frame is [st, t, enc, env, ok, nxt]: the state the server was in when *)
(* it arrived, its type as parsed in that state, whether it arrived        *)
(* encrypted / in the compression envelope, whether it parsed exactly      *)
(* (known id, no trailing bytes), and the handshake's next-state field.    *)
(*  - the encryption response is the last plaintext frame; everything      *)
(*    after it is encrypted, nothing before it is;                         *)
(*  - once a frame came in the compression envelope all later ones do;     *)
(*  - states only move forward; nothing undecodable is ever sent.          *)
(* A trace also carries derr: the number of bytes the peer's deframer      *)
(* could not make a frame of (must be 0).                                  *)
(***************************************************************************)
EXTENDS Naturals, Sequences, TLC, Json, IOUtils

Traces == JsonDeserialize(IOEnv.TRACE_FILE)

VARIABLES tid, l, phase, encOn, envOn, nLogin, nReq, nPing, nEncResp, rejected
vars == <<tid, l, phase, encOn, envOn, nLogin, nReq, nPing, nEncResp, rejected>>

Fr == Traces[tid].fr

Init == /\ tid \in 1..Len(Traces) /\ l = 1 /\ phase = "start" /\ encOn = FALSE /\ envOn = FALSE
        /\ nLogin = 0 /\ nReq = 0 /\ nPing = 0 /\ nEncResp = 0 /\ rejected = ""

Reject(why) == rejected' = why /\ UNCHANGED <<tid, l, phase, encOn, envOn, nLogin, nReq, nPing, nEncResp>>

Rank(p) == CASE p = "start" -> 0 [] p = "handshake" -> 0 [] p = "status" -> 1 [] p = "login" -> 1 [] p = "play" -> 2

Step ==
  /\ rejected = "" /\ l <= Len(Fr)
  /\ LET f == Fr[l] IN
     IF ~f.ok THEN Reject("a frame does not parse exactly in the state it arrived in (unknown id, short or trailing bytes)")
     ELSE IF f.enc # encOn THEN Reject("plaintext after the encryption response, or ciphertext before it")
     ELSE IF envOn /\ ~f.env THEN Reject("a frame outside the compression envelope after one inside it")
     ELSE IF phase = "start" THEN
            IF f.t = "handshake" /\ f.nxt \in {1, 2}
            THEN /\ phase' = (IF f.nxt = 1 THEN "status" ELSE "login") /\ l' = l + 1 /\ envOn' = f.env
                 /\ UNCHANGED <<tid, encOn, nLogin, nReq, nPing, nEncResp, rejected>>
            ELSE Reject("the first frame of a connection is not a handshake")
     ELSE IF f.st = "status" THEN
            IF phase # "status" THEN Reject("a status frame on a connection that asked for login")
            ELSE IF f.t = "status_request" /\ nReq = 0 /\ nPing = 0
                 THEN /\ nReq' = 1 /\ l' = l + 1 /\ envOn' = f.env
                      /\ UNCHANGED <<tid, phase, encOn, nLogin, nPing, nEncResp, rejected>>
            ELSE IF f.t = "status_ping" /\ nReq = 1 /\ nPing = 0
                 THEN /\ nPing' = 1 /\ l' = l + 1 /\ envOn' = f.env
                      /\ UNCHANGED <<tid, phase, encOn, nLogin, nReq, nEncResp, rejected>>
            ELSE Reject("status conversation is not: request, then at most one ping")
     ELSE IF f.st = "login" THEN
            IF phase # "login" THEN Reject("a login frame outside the login state")
            ELSE IF nLogin = 0
                 THEN IF f.t = "login_start"
                      THEN /\ nLogin' = 1 /\ l' = l + 1 /\ envOn' = f.env
                           /\ UNCHANGED <<tid, phase, encOn, nReq, nPing, nEncResp, rejected>>
                      ELSE Reject("login does not begin with login start")
            ELSE IF f.t = "enc_response" /\ nEncResp = 0
                 THEN /\ nEncResp' = 1 /\ encOn' = TRUE /\ l' = l + 1 /\ envOn' = f.env
                      /\ UNCHANGED <<tid, phase, nLogin, nReq, nPing, rejected>>
            ELSE IF f.t = "plugin_response"
                 THEN /\ l' = l + 1 /\ envOn' = f.env
                      /\ UNCHANGED <<tid, phase, encOn, nLogin, nReq, nPing, nEncResp, rejected>>
            ELSE Reject("unexpected frame in the login state")
     ELSE IF f.st = "play" THEN
            IF phase \notin {"login", "play"} \/ nLogin = 0 THEN Reject("a play frame on a connection that never logged in")
            ELSE /\ phase' = "play" /\ l' = l + 1 /\ envOn' = f.env
                 /\ UNCHANGED <<tid, encOn, nLogin, nReq, nPing, nEncResp, rejected>>
     ELSE Reject("frame in an unknown state")

Done == rejected # "" \/ l > Len(Fr)
Next == Step \/ (Done /\ UNCHANGED vars)
Spec == Init /\ [][Next]_vars

Accepted == rejected = ""
NothingUndecodable == Traces[tid].derr = 0
=============================================================================
