------------------------------ MODULE Trace_VarInt ------------------------------
(***************************************************************************)
(* I->S validation for C03: observations recorded from the real            *)
(* VarInt/VarLong code (random long inputs chosen by the harness) are      *)
(* judged by the CONTRACT of VarIntCodec, while the MODEL runs next to     *)
(* them so that a disagreement with the step-by-step model is reported as  *)
(* drift (printed), never as a violation.                                  *)
(* Observation: [k |-> "r", mx, inp, o, c, g]  or                          *)
(*              [k |-> "w", n, e, o, b, sz]   (sz = -1: size() raised)     *)
(***************************************************************************)
EXTENDS VarIntCodec, IOUtils

Obs == JsonDeserialize(IOEnv.TRACE_FILE)
NoneSet == {}
NoStreams0 == <<>>

VARIABLE tid
tvars == <<vars, tid>>

TraceInit ==
  /\ tid \in 1..Len(Obs)
  /\ LET t == Obs[tid] IN
     IF t.k = "r"
     THEN /\ mode = "r" /\ mx = t.mx /\ inp = t.inp
          /\ pos = 0 /\ groups = <<>> /\ enc = 0
          /\ digits = <<>> /\ ext = 0 /\ out = <<>> /\ outcome = "run" /\ src = <<>>
     ELSE /\ mode = "w" /\ digits = t.n /\ ext = t.e /\ src = <<t.n, t.e>>
          /\ mx = 0 /\ inp = <<>> /\ pos = 0 /\ groups = <<>> /\ enc = 0
          /\ out = <<>> /\ outcome = "run"

TraceNext == Next /\ UNCHANGED tid
TraceSpec == TraceInit /\ [][TraceNext]_tvars

\* the contract, applied to what the code did
ObsMeetsContract ==
  LET t == Obs[tid] IN
  IF t.k = "r"
  THEN /\ t.o \in AllowedRead(t.mx, t.inp)
       /\ t.c <= t.mx + 1
       /\ t.c <= Len(t.inp)
       /\ t.o = "value" => /\ t.c = TermPos(t.inp)
                           /\ t.g = Strip(Payload(t.inp, t.c))
  ELSE /\ t.o \in {"bytes", "raise"}                 \* terminated
       /\ (t.o = "raise") => t.e # 0                 \* in-domain values never fail
       /\ (t.o = "bytes" /\ t.e = 0 /\ Len(t.n) <= 10) =>   \* n < 2^70 covers [0, 2^64)
              /\ t.b = Canonical(t.n)
              /\ t.sz = SizeOf(t.n)

\* model agreement (drift only)
Drift ==
  (Terminal /\ Obs[tid].o # outcome) => PrintT(ToJson([drift |-> tid, model |-> outcome]))

Count == (Terminal) => PrintT(ToJson([done |-> tid]))
=============================================================================
