------------------------------ MODULE MC_FramingReset ------------------------------
EXTENDS FramingReset
Fr(pl, b, kn) == [pl |-> pl, body |-> b, known |-> kn]
Kinds(pls, bodies) == {Fr(p, b, kn) : p \in pls, b \in bodies, kn \in BOOLEAN}
Seqs(K, n) == UNION {[1..m -> K] : m \in 0..n}
MCStreamsBig == Seqs(Kinds({1, 2}, {1, 2, 3}), 3)
MCStreamsSmall == Seqs(Kinds({1}, {1, 3}), 2) \cup Seqs(Kinds({2}, {2}), 2)
NoCuts == <<frames, total, arrived, eof, pos, fed, pc, f, lenRead, need, delivered, empties, outcome, rst>>
=============================================================================
