SPECIFICATION Spec
CONSTANTS
  Cases <- MCCases
  Emit = TRUE
INVARIANT PosInverse
INVARIANT PosDecodeInRange
INVARIANT CspInverse
INVARIANT LayoutsDiffer
INVARIANT EmitRows
