SPECIFICATION Spec
CONSTANTS
  ReaderInputs <- MCReaderInputs
  WriterInputs <- MCWriterInputs
  WriterDigits = 2
  RejectNegative = TRUE
  OutCap = 16
  Emit = FALSE
PROPERTY Terminates
