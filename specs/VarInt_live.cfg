SPECIFICATION Spec
CONSTANTS
  ReaderInputs <- MCReaderInputs
  WriterInputs <- MCWriterInputs
  RejectNegative = TRUE
  OutCap = 16
  Emit = FALSE
PROPERTY Terminates
