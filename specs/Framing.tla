---------------------------------- MODULE Framing ----------------------------------
(***************************************************************************)
(* C01 / C15: the framed packet stream as the reader sees it.              *)
(*                                                                         *)
(* MODEL of PacketReactor.read_packet statement by statement, against an   *)
(* environment that delivers the server's byte stream in arrivals of any   *)
(* size and may end it at any offset:                                      *)
(*     select -> VarInt.read(stream) byte by byte -> stream.read(length)   *)
(*     -> while len(buf) < length: buf += stream.read(rest)                *)
(*     -> [data-length VarInt, inflate, size assertion] -> id -> dispatch  *)
(* The stream is a sequence of frames; a frame is [pl, body, known]:       *)
(* pl bytes of length prefix, body bytes of content, known id or not.      *)
(* read(n) on the unbuffered file object returns min(n, arrived) bytes if  *)
(* any have arrived, blocks if none and the stream is open, and returns    *)
(* nothing at end of stream.  With a cipher every byte read from the       *)
(* socket passes the decryptor exactly once, in order (fed).               *)
(*                                                                         *)
(* EofCheck = TRUE is the code after the fix (an empty read inside the     *)
(* body loop raises EOFError); FALSE is the loop as it was: it spins.      *)
(***************************************************************************)
EXTENDS Naturals, Sequences, FiniteSets, TLC, Json

CONSTANTS Streams,      \* set of frame sequences explored
          EofCheck, MaxEmpty, Emit

VARIABLES frames,       \* the stream (constant)
          total,        \* how many bytes of it the server sends before closing (cut point; = full length: no cut)
          arrived, eof, \* environment
          pos,          \* bytes consumed from the socket
          fed,          \* bytes passed through the decryptor
          pc,           \* "select" | "len" | "body" | "more" | "parse" | "left"
          f,            \* index of the frame being read
          lenRead, need, delivered, empties, outcome, cuts
vars == <<frames, total, arrived, eof, pos, fed, pc, f, lenRead, need, delivered, empties, outcome, cuts>>

FrameLen(fr) == fr.pl + fr.body
RECURSIVE Sum(_, _)
Sum(s, n) == IF n = 0 THEN 0 ELSE Sum(s, n - 1) + FrameLen(s[n])
StreamLen(s) == Sum(s, Len(s))
End(i) == Sum(frames, i)                     \* offset just after frame i

Init == /\ frames \in Streams
        /\ total \in 0..StreamLen(frames)
        /\ arrived = 0 /\ eof = FALSE /\ pos = 0 /\ fed = 0 /\ pc = "select" /\ f = 1
        /\ lenRead = 0 /\ need = 0 /\ delivered = <<>> /\ empties = 0 /\ outcome = "run" /\ cuts = <<>>

\* ---- environment
Arrive == /\ ~eof /\ arrived < total
          /\ \E k \in 1..(total - arrived) : arrived' = arrived + k /\ cuts' = Append(cuts, arrived + k)
          /\ UNCHANGED <<frames, total, eof, pos, fed, pc, f, lenRead, need, delivered, empties, outcome>>
EofArrive == /\ ~eof /\ arrived = total
             /\ eof' = TRUE
             /\ UNCHANGED <<frames, total, arrived, pos, fed, pc, f, lenRead, need, delivered, empties, outcome, cuts>>

Avail == arrived - pos
\* ---- reader
Select == /\ pc = "select" /\ outcome = "run" /\ (Avail > 0 \/ eof)
          /\ pc' = "len" /\ lenRead' = 0
          /\ UNCHANGED <<frames, total, arrived, eof, pos, fed, f, need, delivered, empties, outcome, cuts>>

\* VarInt.read: one byte per read; an empty read raises EOFError
LenByte == /\ pc = "len" /\ outcome = "run"
           /\ IF Avail > 0
              THEN /\ pos' = pos + 1 /\ fed' = fed + 1 /\ lenRead' = lenRead + 1
                   /\ IF lenRead + 1 = frames[f].pl THEN pc' = "body" /\ need' = frames[f].body
                                                    ELSE UNCHANGED <<pc, need>>
                   /\ UNCHANGED <<outcome, empties>>
              ELSE /\ eof /\ outcome' = "EOFError" /\ pc' = "left" /\ empties' = empties + 1
                   /\ UNCHANGED <<pos, fed, lenRead, need>>
           /\ UNCHANGED <<frames, total, arrived, eof, f, delivered, cuts>>

\* stream.read(length), then the while loop of further reads
Take == IF Avail < need THEN Avail ELSE need
BodyRead == /\ pc \in {"body", "more"} /\ outcome = "run" /\ need > 0
            /\ IF Avail > 0
               THEN /\ pos' = pos + Take /\ fed' = fed + Take /\ need' = need - Take
                    /\ pc' = IF need - Take = 0 THEN "parse" ELSE "more"
                    /\ UNCHANGED <<outcome, empties>>
               ELSE /\ eof
                    /\ empties' = empties + 1
                    /\ IF EofCheck
                       THEN outcome' = "EOFError" /\ pc' = "left"
                       ELSE outcome' = outcome /\ pc' = "more"          \* the loop reads again: a spin
                    /\ UNCHANGED <<pos, fed, need>>
            /\ UNCHANGED <<frames, total, arrived, eof, f, lenRead, delivered, cuts>>

\* [decompress,] read the id, build the packet (generic for unknown ids), hand it over
Dispatch == /\ pc = "parse" /\ outcome = "run"
            /\ delivered' = Append(delivered, [i |-> f, at |-> pos, known |-> frames[f].known])
            /\ f' = f + 1 /\ pc' = "select"
            /\ UNCHANGED <<frames, total, arrived, eof, pos, fed, lenRead, need, empties, outcome, cuts>>

Left == outcome # "run"
Next == Arrive \/ EofArrive \/ Select \/ LenByte \/ BodyRead \/ Dispatch \/ (Left /\ UNCHANGED vars)
Reader == Select \/ LenByte \/ BodyRead \/ Dispatch
Spec == Init /\ [][Next]_vars /\ WF_vars(Reader) /\ WF_vars(Arrive) /\ WF_vars(EofArrive)

Bounded == empties <= MaxEmpty

----------------------------------------------------------------------------
\* delivered = the first k frames, in order, each once
DeliveredIsPrefix == \A j \in 1..Len(delivered) : delivered[j].i = j
\* at every dispatch the reader stands exactly at the end of that frame: nothing leaks into the next
DispatchAtBoundary == \A j \in 1..Len(delivered) : delivered[j].at = End(j)
\* never deliver a frame whose last byte has not arrived
NoPartialDelivery == \A j \in 1..Len(delivered) : End(j) <= total /\ End(j) <= arrived
\* unknown ids are skipped as whole frames: the next frame is delivered from its own boundary (same invariant), and
\* knownness is reported as sent
UnknownSkippedWhole == \A j \in 1..Len(delivered) : delivered[j].known = frames[j].known
DecryptOnceInOrder == fed = pos /\ pos <= arrived
\* C15: inside one read_packet at most one read returns empty
BoundedReadsAfterEof == empties <= 1
\* C15 liveness: once the stream has ended the reader leaves (with everything complete delivered)
ReaderLeaves == eof ~> Left
AllCompleteDelivered == Left => \A j \in 1..Len(frames) : (End(j) <= total) => (j <= Len(delivered))

EmitRows == (Emit /\ Left) =>
  PrintT(ToJson([frames |-> frames, total |-> total, cuts |-> cuts, delivered |-> Len(delivered), outcome |-> outcome]))
=============================================================================
