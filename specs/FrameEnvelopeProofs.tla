---------------------------- MODULE FrameEnvelopeProofs ----------------------------
(***************************************************************************)
(* C01, write direction, for ALL sizes (TLC checks boundary sizes only):   *)
(* the frame the library's envelope announces is exactly the frame it      *)
(* writes, and the reader is handed the n payload bytes.  Proved with      *)
(* TLAPS (tlapm); run by tools/prove.sh in C01's thorough tier.            *)
(***************************************************************************)
EXTENDS FrameEnvelope, TLAPS

\* n ranges over Nat \ {0}: a payload always contains the packet id.  (For n = 0 and a threshold below -1 the code would
\* announce data length 0 in front of a deflate stream: PlainPayloadInEnvelope is not provable without the restriction,
\* which is how the restriction was found.  No packet has an empty payload, and thresholds below -1 are not sent by servers.)
ASSUME CodeVariant == Variant = "code"
ASSUME OffIsNotASize == Off \in Int /\ Off < -1

\* the bytes after the prefix are exactly the announced ones
THEOREM WellFramedForAllSizes ==
  \A n \in Nat \ {0}, c \in Nat, thr \in Int :
     Envelope(n, thr, c).pl = Envelope(n, thr, c).dlb + Envelope(n, thr, c).body
  BY CodeVariant DEF Envelope, Compresses, VarIntSize

\* what the reader hands to the decoder has n bytes: the plain payload, or a deflate stream announced as n bytes
\* (three theorems: tlapm's normaliser does not terminate on their conjunction)
THEOREM PlainPayloadWhenOff ==
  \A n \in Nat \ {0}, c \in Nat, thr \in Int : Envelope(n, thr, c).dl = -1 => Envelope(n, thr, c).pl = n
  BY CodeVariant DEF Envelope, Compresses, VarIntSize
THEOREM PlainPayloadInEnvelope ==
  \A n \in Nat \ {0}, c \in Nat, thr \in Int : Envelope(n, thr, c).dl = 0 => Envelope(n, thr, c).body = n   \* with WellFramedForAllSizes: pl - dlb = n
  BY CodeVariant DEF Envelope, Compresses, VarIntSize
THEOREM DeflatedAnnouncedAsN ==
  \A n \in Nat \ {0}, c \in Nat, thr \in Int : Envelope(n, thr, c).dl > 0 => Envelope(n, thr, c).dl = n
  BY CodeVariant DEF Envelope, Compresses, VarIntSize

\* compression is never applied when it is off or the threshold is -1, nor at or below the threshold
THEOREM NeverCompressedBelowThreshold ==
  \A n \in Nat \ {0}, c \in Nat, thr \in Int :
     Envelope(n, thr, c).dl > 0 => (thr # Off /\ thr # -1 /\ n > thr)
  BY CodeVariant, OffIsNotASize DEF Envelope, Compresses, VarIntSize

\* the prefix is the canonical VarInt size of what it announces
THEOREM PrefixSize ==
  \A n \in Nat \ {0}, c \in Nat, thr \in Int :
     Envelope(n, thr, c).plb = VarIntSize(Envelope(n, thr, c).pl)
  BY CodeVariant DEF Envelope, Compresses
=============================================================================
