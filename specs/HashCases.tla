--------------------------------- MODULE HashCases ---------------------------------
(***************************************************************************)
(* C17 as a transition system.                                             *)
(*  kind "fmt":  Init chooses a digest (every 1- and 2-byte digest, and    *)
(*               20-byte digests with set top bit / leading zero nibbles   *)
(*               and bytes), Step computes the signed-hex text;            *)
(*  kind "hash": observations recorded from the real                       *)
(*               generate_verification_hash, and of the string the login   *)
(*               reactor hands to the session join for the server id, the  *)
(*               secret the key holder recovers and the key bytes the      *)
(*               server sent: the result must be                           *)
(*               SignedHex(SHA1(utf8(id) \o secret \o key)).  (The update() *)
(*               calls are recorded for diagnosis only: how the input is   *)
(*               chunked is not part of the property.)                     *)
(***************************************************************************)
EXTENDS SignedHex, SHA1, Json, IOUtils

CONSTANTS FmtCases, Emit
Obs == IF "TRACE_FILE" \in DOMAIN IOEnv THEN JsonDeserialize(IOEnv.TRACE_FILE) ELSE <<>>

VARIABLES c, res, phase
vars == <<c, res, phase>>

Init == /\ \/ \E d \in FmtCases : c = [k |-> "fmt", d |-> d]
           \/ \E n \in 0..255 : c = [k |-> "fmt", d |-> <<n>>]
           \/ \E a \in 0..255, b \in 0..255 : c = [k |-> "fmt", d |-> <<a, b>>]
           \/ \E i \in 1..Len(Obs) : c = [k |-> "hash", i |-> i]
        /\ res = <<>> /\ phase = "chosen"

Step == /\ phase = "chosen" /\ phase' = "done" /\ UNCHANGED c
        /\ res' = IF c.k = "fmt" THEN SignedHexOf(c.d)
                  ELSE LET o == Obs[c.i] IN SignedHexOf(Digest(Utf8(o.sid) \o o.secret \o o.key))
Next == Step \/ (phase = "done" /\ UNCHANGED vars)
Spec == Init /\ [][Next]_vars

\* the real function's observations agree with the specification
HashMatches ==
  (phase = "done" /\ c.k = "hash") =>
     LET o == Obs[c.i] IN
     o.result = res
\* formatter sanity: minus sign iff top bit set, no leading zero, lower-case hex only
FormatShape ==
  (phase = "done" /\ c.k = "fmt" /\ c.d # <<>>) =>
     /\ (res[1] = 45) = (c.d[1] >= 128)
     /\ LET digits == IF res[1] = 45 THEN Tail(res) ELSE res IN
          /\ digits # <<>>
          /\ (Len(digits) > 1 => digits[1] # 48)
          /\ \A i \in 1..Len(digits) : digits[i] \in (48..57) \cup (97..102)
EmitRows == (Emit /\ phase = "done" /\ c.k = "fmt") => PrintT(ToJson([d |-> c.d, t |-> res]))
=============================================================================
