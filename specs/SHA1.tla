----------------------------------- MODULE SHA1 -----------------------------------
(***************************************************************************)
(* SHA-1 (FIPS 180-4) over byte sequences, written for TLC: 32-bit words   *)
(* are pairs <<hi, lo>> of 16-bit limbs (TLC integers are 32 bit signed),  *)
(* heavy primitives are TLA+ FUNCTIONS or fold steps so that arguments are *)
(* evaluated once (see the evaluation pitfalls recorded in DESIGN.md).     *)
(* Checked against the published "abc" vector with an ASSUME.              *)
(***************************************************************************)
EXTENDS Naturals, Sequences, SequencesExt, Bitwise, TLC

M16 == 65536
W(hi, lo) == <<hi, lo>>

P2(n) == CASE n = 0 -> 1 [] n = 1 -> 2 [] n = 2 -> 4 [] n = 3 -> 8 [] n = 4 -> 16 [] n = 5 -> 32 [] n = 6 -> 64
           [] n = 7 -> 128 [] n = 8 -> 256 [] n = 9 -> 512 [] n = 10 -> 1024 [] n = 11 -> 2048 [] n = 12 -> 4096
           [] n = 13 -> 8192 [] n = 14 -> 16384 [] n = 15 -> 32768 [] n = 16 -> 65536

Add2(a, b) == LET lo == a[2] + b[2] IN <<(a[1] + b[1] + (lo \div M16)) % M16, lo % M16>>
Add5(a, b, c, d, e) == Add2(Add2(Add2(Add2(a, b), c), d), e)
XorW(a, b) == <<a[1] ^^ b[1], a[2] ^^ b[2]>>
AndW(a, b) == <<a[1] & b[1], a[2] & b[2]>>
OrW(a, b) == <<a[1] | b[1], a[2] | b[2]>>
NotW(a) == <<65535 - a[1], 65535 - a[2]>>

\* rotate left by n (0 < n < 32)
RotlSmall(w, n) ==      \* 0 < n < 16
  <<((w[1] * P2(n)) % M16) + (w[2] \div P2(16 - n)), ((w[2] * P2(n)) % M16) + (w[1] \div P2(16 - n))>>
Rotl(w, n) == IF n = 16 THEN <<w[2], w[1]>>
              ELSE IF n < 16 THEN RotlSmall(w, n)
              ELSE RotlSmall(<<w[2], w[1]>>, n - 16)

Ch(b, c, d) == OrW(AndW(b, c), AndW(NotW(b), d))
Parity(b, c, d) == XorW(XorW(b, c), d)
Maj(b, c, d) == OrW(OrW(AndW(b, c), AndW(b, d)), AndW(c, d))

F(t, b, c, d) == IF t < 20 THEN Ch(b, c, d) ELSE IF t < 40 THEN Parity(b, c, d) ELSE IF t < 60 THEN Maj(b, c, d) ELSE Parity(b, c, d)
K(t) == IF t < 20 THEN <<23170, 31129>>      \* 5A827999
        ELSE IF t < 40 THEN <<28377, 60321>> \* 6ED9EBA1
        ELSE IF t < 60 THEN <<36635, 48348>> \* 8F1BBCDC
        ELSE <<51810, 49622>>                \* CA62C1D6

H0 == << <<26437, 8961>>, <<61389, 43913>>, <<39098, 56574>>, <<4146, 21622>>, <<50130, 57840>> >>
      \* 67452301 EFCDAB89 98BADCFE 10325476 C3D2E1F0

\* ---- padding: message bytes -> sequence of 64-byte blocks
\* bit length as 8 bytes big-endian, for messages shorter than 2^28 bytes
LenBytes(n) == <<0, 0, 0, 0, (n * 8) \div 16777216, ((n * 8) \div 65536) % 256, ((n * 8) \div 256) % 256, (n * 8) % 256>>
Pad(msg) ==
  LET n == Len(msg)
      z == (119 - (n % 64)) % 64          \* zero bytes so that n + 1 + z + 8 is a multiple of 64
  IN msg \o <<128>> \o [i \in 1..z |-> 0] \o LenBytes(n)

WordAt(bytes, i) == <<bytes[i] * 256 + bytes[i + 1], bytes[i + 2] * 256 + bytes[i + 3]>>

\* message schedule of one block: 80 words
Schedule(block) ==
  LET w16 == [t \in 1..16 |-> WordAt(block, 4 * t - 3)] IN
  FoldLeft(LAMBDA w, t : Append(w, Rotl(XorW(XorW(w[t - 3], w[t - 8]), XorW(w[t - 14], w[t - 16])), 1)), w16, [i \in 1..64 |-> 16 + i])

\* one round on the working state <<a, b, c, d, e>>
Round(st, t, w) ==
  LET tmp == Add5(Rotl(st[1], 5), F(t, st[2], st[3], st[4]), st[5], K(t), w[t + 1]) IN
  <<tmp, st[1], Rotl(st[2], 30), st[3], st[4]>>

Compress(h, block) ==
  LET w == Schedule(block)
      st == FoldLeft(LAMBDA s, t : Round(s, t, w), h, [i \in 1..80 |-> i - 1])
  IN [i \in 1..5 |-> Add2(h[i], st[i])]

Blocks(p) == [i \in 1..(Len(p) \div 64) |-> SubSeq(p, 64 * i - 63, 64 * i)]

Digest(msg) ==
  LET h == FoldLeft(LAMBDA acc, blk : Compress(acc, blk), H0, Blocks(Pad(msg)))
  IN FlattenSeq([i \in 1..5 |-> <<h[i][1] \div 256, h[i][1] % 256, h[i][2] \div 256, h[i][2] % 256>>])

\* SHA-1("abc") = a9993e36 4706816a ba3e2571 7850c26c 9cd0d89d
ASSUME AbcVector ==
  Digest(<<97, 98, 99>>) = <<169, 153, 62, 54, 71, 6, 129, 106, 186, 62, 37, 113, 120, 80, 194, 108, 156, 208, 216, 157>>
\* SHA-1("") = da39a3ee 5e6b4b0d 3255bfef 95601890 afd80709
ASSUME EmptyVector ==
  Digest(<<>>) = <<218, 57, 163, 238, 94, 107, 75, 13, 50, 85, 191, 239, 149, 96, 24, 144, 175, 216, 7, 9>>
=============================================================================
