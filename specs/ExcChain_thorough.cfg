SPECIFICATION Spec
CONSTANTS
  MaxHandlers = 3
  Filters <- MCFilters
  Behaviours <- MCBehaviours
  Origins <- MCOrigins
  Finals <- MCFinals
  Emit = TRUE
INVARIANT OneCatch
INVARIANT InOrder
INVARIANT ReplacementFlows
INVARIANT FinalAlwaysRuns
INVARIANT LastRecorded
INVARIANT ReraiseOnlyIfUncaughtAndNoFinal
INVARIANT ClosedUnlessReconnected
INVARIANT ThreadEndsSlotFree
INVARIANT EmitRows
PROPERTY Terminates
