SPECIFICATION Spec
CONSTANTS
  Thresholds <- MCThresholds
  PlugIds <- MCPlugIds
  DiscKinds <- MCDiscKinds
  MaxLen = 3
  Emit = TRUE
INVARIANT NoPlaintextAfterEncResponse
INVARIANT ThresholdApplied
INVARIANT PluginAnsweredExactlyOnce
INVARIANT DisconnectAlwaysSurfaces
INVARIANT JoinOnlyOnlineWithToken
INVARIANT EmitRows
PROPERTY Terminates
