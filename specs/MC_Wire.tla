--------------------------------- MODULE MC_Wire ---------------------------------
(* Case sets for WireCases.  Big sets are parameterised (TLC evaluates every    *)
(* zero-arity constant definition at start-up).                                 *)
EXTENDS WireCases

P2(j) == CASE j = 0 -> 1 [] j = 1 -> 2 [] j = 2 -> 4 [] j = 3 -> 8
           [] j = 4 -> 16 [] j = 5 -> 32 [] j = 6 -> 64 [] j = 7 -> 128
\* magnitude of 2^k as big-endian bytes
Pow2B(k) == [i \in 1..((k \div 8) + 1) |-> IF i = 1 THEN P2(k % 8) ELSE 0]
Pos(m) == [s |-> 0, m |-> m]
Neg(m) == [s |-> 1, m |-> m]

IntCase(t, n) == <<<<t>>, IntVal(n)>>

Exhaustive8  == {IntCase("Byte", n) : n \in -128..127} \cup {IntCase("UnsignedByte", n) : n \in 0..255}
Short16(u)  == {IntCase("Short", n) : n \in -32768..32767}
UShort16(u) == {IntCase("UnsignedShort", n) : n \in 0..65535}

\* boundary values of a signed type of `bits' bits
SignedBoundary(t, bits) ==
  {<<<<t>>, Pos(<<>>)>>}
  \cup {<<<<t>>, Pos(Pow2B(k))>> : k \in 0..(bits - 2)}
  \cup {<<<<t>>, Pos(Dec(Pow2B(k)))>> : k \in 1..(bits - 1)}
  \cup {<<<<t>>, Neg(Pow2B(k))>> : k \in 0..(bits - 1)}
  \cup {<<<<t>>, Neg(Dec(Pow2B(k)))>> : k \in 1..(bits - 1)}
UnsignedBoundary(t, bits) ==
  {<<<<t>>, Pos(<<>>)>>}
  \cup {<<<<t>>, Pos(Pow2B(k))>> : k \in 0..(bits - 1)}
  \cup {<<<<t>>, Pos(Dec(Pow2B(k)))>> : k \in 1..bits}

IntBoundaries == SignedBoundary("Integer", 32) \cup SignedBoundary("Long", 64)
                 \cup UnsignedBoundary("UnsignedLong", 64)
                 \cup SignedBoundary("Short", 16) \cup SignedBoundary("Byte", 8)
                 \cup UnsignedBoundary("UnsignedShort", 16) \cup UnsignedBoundary("UnsignedByte", 8)

Bools == {<<<<"Boolean">>, TRUE>>, <<<<"Boolean">>, FALSE>>}

\* VarInt values as digits (C03 covers the codec in depth; here as a wire type)
VarInts == {<<<<"VarInt">>, d>> : d \in {<<>>, <<1>>, <<127>>, <<0, 1>>, <<127, 127>>, <<0, 0, 1>>,
                                          <<127, 127, 127, 127, 7>>, <<127, 127, 127, 127, 15>>}}
           \cup {<<<<"VarLong">>, d>> : d \in {<<>>, <<127, 127, 127, 127, 127, 127, 127, 127, 127>>,
                                               <<127, 127, 127, 127, 127, 127, 127, 127, 127, 1>>}}

\* ---- floats
Ones(n) == [i \in 1..n |-> 1]
Alt10(n) == [i \in 1..n |-> i % 2]
Alt01(n) == [i \in 1..n |-> (i + 1) % 2]
Lsb(n) == [i \in 1..n |-> IF i = n THEN 1 ELSE 0]
Mix(n) == [i \in 1..n |-> IF (i * i + 3 * i) % 7 < 3 THEN 1 ELSE 0]
FPats(fw) == {<<>>, Ones(fw), <<1>>, Lsb(fw), Alt10(fw), Alt01(fw), Mix(fw), <<0, 1>>, <<1, 1, 0, 1>>}
FloatCases(t, fw, exps) ==
  {<<<<t>>, [cls |-> "zero", s |-> s, e |-> 0, f |-> <<>>]>> : s \in {0, 1}}
  \cup {<<<<t>>, [cls |-> "inf", s |-> s, e |-> 0, f |-> <<>>]>> : s \in {0, 1}}
  \cup {<<<<t>>, [cls |-> "nan", s |-> 0, e |-> 0, f |-> <<>>]>>}
  \cup {<<<<t>>, [cls |-> "sub", s |-> s, e |-> 0, f |-> f]>> : s \in {0, 1}, f \in FPats(fw) \ {<<>>}}
  \cup {<<<<t>>, [cls |-> "normal", s |-> s, e |-> e, f |-> f]>> : s \in {0, 1}, e \in exps, f \in FPats(fw)}
Floats == FloatCases("Float", 23, {-126, -125, -24, -1, 0, 1, 2, 23, 24, 100, 126, 127})
          \cup FloatCases("Double", 52, {-1022, -1021, -53, -1, 0, 1, 2, 52, 53, 500, 1022, 1023})

\* ---- strings
Rep(x, n) == [i \in 1..n |-> x]
Cps == {65, 0, 127, 128, 2047, 2048, 55295, 57344, 65535, 65536, 1114111, 8364, 128512, 233, 65279, 65534, 10, 167, 34, 92, 8232}   \* incl. U+FEFF (a byte order mark is a character like any other)
Strings ==
  {<<<<"String">>, <<>>>>}
  \cup {<<<<"String">>, <<a>>>> : a \in Cps}
  \cup {<<<<"String">>, <<a, b2>>>> : a \in Cps, b2 \in Cps}
  \cup {<<<<"String">>, s>> : s \in {
         Rep(97, 127), Rep(97, 128), Rep(97, 16383), Rep(97, 16384),
         Rep(233, 63), Rep(233, 64), Rep(97, 125) \o <<233>>, Rep(97, 126) \o <<233>>,
         Rep(8364, 5461), Rep(8364, 5461) \o <<97>>, Rep(128512, 4096), Rep(128512, 4095) \o Rep(97, 3),
         \* at most 32767 characters (the protocol's limit) but more than 32767 bytes; and the longest ASCII string
         Rep(233, 16400), Rep(8364, 11000), Rep(97, 32767),
         <<72, 233, 108, 108, 8364, 32, 128512, 33>> }}

\* ---- byte arrays
Ramp(n) == [i \in 1..n |-> (i * 7 + 250) % 256]
ByteArrays ==
  {<<<<"ShortPrefixedByteArray">>, Ramp(n)>> : n \in {0, 1, 2, 127, 128, 255, 256, 257, 32767}}
  \cup {<<<<"VarIntPrefixedByteArray">>, Ramp(n)>> : n \in {0, 1, 2, 127, 128, 129, 16383, 16384}}
  \cup {<<<<"TrailingByteArray">>, Ramp(n)>> : n \in {0, 1, 300}}

U(by) == [by |-> by, txt |-> UuidText(by)]
Uuids == {<<<<"UUID">>, U(u)>> : u \in {Rep(0, 16), Rep(255, 16), [i \in 1..16 |-> i - 1],
                                     [i \in 1..16 |-> (i * 17 + 130) % 256],
                                     [i \in 1..16 |-> IF i = 7 THEN 64 ELSE IF i = 9 THEN 128 ELSE 10 * i],
                                     [i \in 1..16 |-> 256 - i]}}

Angles(lo, hi) == {<<<<"Angle">>, j>> : j \in lo..hi}

Fixed ==
  {<<<<"FixedPoint", "Byte", 5>>, <<k, h>>>> : k \in -128..126, h \in {0, 1}}
  \cup {<<<<"FixedPoint", "Byte", 5>>, <<127, 0>>>>}
  \cup {<<<<"FixedPoint", "Short", 12>>, <<k, h>>>> :
          k \in {-32768, -32767, -4097, -4096, -4095, -2, -1, 0, 1, 2, 4095, 4096, 4097, 32766}, h \in {0, 1}}
  \cup {<<<<"FixedPoint", "Short", 12>>, <<32767, 0>>>>}
  \cup {<<<<"FixedPoint", "Integer", 5>>, <<k, h>>>> :
          k \in {-2147483647, -65537, -33, -32, -31, -2, -1, 0, 1, 2, 31, 32, 33, 65535, 2147483646}, h \in {0, 1}}
  \cup {<<<<"FixedPoint", "Integer", 5>>, <<2147483647, 0>>>>}

\* ---- arrays
PA(l, e) == <<"PrefixedArray", l, e>>
ShortVals(n) == [i \in 1..n |-> IntVal(((i * 7919) % 65536) - 32768)]
ByteVals(n) == [i \in 1..n |-> IntVal(((i * 37) % 256) - 128)]
Arrays ==
  {<<PA("VarInt", <<"Short">>), ShortVals(n)>> : n \in {0, 1, 3, 127, 128, 300}}
  \cup {<<PA("Short", <<"String">>), v>> : v \in {<<>>, <<<<>>>>, <<<<97>>, <<233, 8364>>, <<>>, Rep(98, 130)>>}}
  \cup {<<PA("Integer", <<"Byte">>), ByteVals(n)>> : n \in {0, 2, 256}}
  \cup {<<PA("VarInt", PA("Short", <<"VarInt">>)), v>> :
          v \in {<<>>, <<<<>>>>, <<<<<<1>>, <<0, 1>>>>, <<>>, <<<<127, 127, 1>>>>>>}}
  \cup {<<PA("VarInt", PA("VarInt", PA("UnsignedByte", <<"Boolean">>))), v>> :
          v \in {<<>>, <<<<<<TRUE, FALSE>>, <<>>>>, <<>>, <<<<FALSE>>>>>>}}
  \cup {<<PA("VarInt", <<"UUID">>), <<U(Rep(1, 16)), U([i \in 1..16 |-> 16 * i - 1])>>>>}
  \cup {<<PA("Byte", <<"Double">>), <<[cls |-> "normal", s |-> 1, e |-> 3, f |-> <<1, 0, 1>>],
                                       [cls |-> "zero", s |-> 0, e |-> 0, f |-> <<>>]>>>>}

=============================================================================
