SPECIFICATION Spec
CONSTANTS
  Alphabet <- MCAlphabet
  MaxLen = 6
  W = 3
  R = 2
  Teleport <- Both
  Emit = TRUE
INVARIANT EchoFifo
INVARIANT SpawnedIffPosLook
INVARIANT DeliveredInOrder
INVARIANT DisconnectClean
INVARIANT EmitRows
