SPECIFICATION Spec
INVARIANT Accepted
INVARIANT FinalOk
