-------------------------------- MODULE Trace_Login --------------------------------
(***************************************************************************)
(* I->S validation for C10: login traces recorded from the real client are *)
(* judged by the contract the property states:                             *)
(*  - the encryption response is sent in the clear, carries the 16-byte    *)
(*    secret and the server's verify token (as recovered by the key        *)
(*    holder), and every later client frame is encrypted, no earlier one;  *)
(*  - every client frame written after the server announced a threshold    *)
(*    carries the compression envelope (a compressed frame is never smaller *)
(*    than the threshold), no earlier one does;                            *)
(*  - every plugin request is answered exactly once, in order, with        *)
(*    successful = FALSE unless the user handler took over;                *)
(*  - session join is called before the response iff the server id is      *)
(*    online and a token is configured, with the right hash;               *)
(*  - success -> play state; disconnect -> LoginDisconnect carrying the    *)
(*    message, or VersionMismatch naming the version for "Outdated ...".   *)
(* Events: [k |-> "srv", s |-> <<step...>>], [k |-> "c2s", f |-> [t, e, c, ok, a]], *)
(*         [k |-> "join", ok], [k |-> "outcome", o, ok]                     *)
(***************************************************************************)
EXTENDS Integers, Sequences, TLC, Json, IOUtils

Traces == JsonDeserialize(IOEnv.TRACE_FILE)
NoComp == -9

VARIABLES tid, l, encOn, thr, pend, joinsDue, joinsDone, last, nframes, outcome, rejected
vars == <<tid, l, encOn, thr, pend, joinsDue, joinsDone, last, nframes, outcome, rejected>>

Ev == Traces[tid].ev
Token == Traces[tid].token
UserPlug == Traces[tid].userPlug

Init == /\ tid \in 1..Len(Traces) /\ l = 1 /\ encOn = FALSE /\ thr = NoComp /\ pend = <<>>
        /\ joinsDue = 0 /\ joinsDone = 0 /\ last = "none" /\ nframes = 0 /\ outcome = "none" /\ rejected = ""

Reject(why) == rejected' = why /\ UNCHANGED <<tid, l, encOn, thr, pend, joinsDue, joinsDone, last, nframes, outcome>>
Adv == l' = l + 1 /\ UNCHANGED <<tid, rejected>>

Step ==
  /\ rejected = "" /\ l <= Len(Ev)
  /\ LET e == Ev[l] IN
     CASE e.k = "srv" ->
            /\ Adv
            /\ last' = e.s[1]
            /\ thr' = IF e.s[1] = "comp" THEN e.s[2] ELSE thr
            /\ pend' = IF e.s[1] = "plug" THEN Append(pend, e.s[2]) ELSE pend
            /\ joinsDue' = IF e.s[1] = "enc" /\ e.s[2] /\ Token THEN joinsDue + 1 ELSE joinsDue
            /\ UNCHANGED <<encOn, joinsDone, nframes, outcome>>
       [] e.k = "join" ->
            IF joinsDone < joinsDue /\ e.ok
            THEN /\ Adv /\ joinsDone' = joinsDone + 1
                 /\ UNCHANGED <<encOn, thr, pend, joinsDue, last, nframes, outcome>>
            ELSE Reject("session join not due, or with a wrong hash")
       [] e.k = "c2s" ->
            LET f == e.f IN
            IF f.e # encOn THEN Reject("client frame encrypted state is wrong (encrypted before the response or plaintext after it)")
            ELSE IF f.c # thr THEN Reject("client frame does not use the compression envelope in force")
            ELSE IF ~f.ok THEN Reject("client frame is malformed or carries wrong fields")
            ELSE IF f.t = "enc_response"
                 THEN IF last = "enc" /\ joinsDone = joinsDue
                      THEN /\ Adv /\ encOn' = TRUE /\ nframes' = nframes + 1
                           /\ UNCHANGED <<thr, pend, joinsDue, joinsDone, last, outcome>>
                      ELSE Reject("encryption response not due, or sent before the session join")
            ELSE IF f.t = "plugin_response"
                 THEN IF pend # <<>> /\ f.a = <<Head(pend), UserPlug>>
                      THEN /\ Adv /\ pend' = Tail(pend) /\ nframes' = nframes + 1
                           /\ UNCHANGED <<encOn, thr, joinsDue, joinsDone, last, outcome>>
                      ELSE Reject("plugin response does not answer the oldest unanswered request (exactly once, in order)")
            ELSE IF f.t \in {"handshake", "login_start"} /\ nframes < 2
                 THEN /\ Adv /\ nframes' = nframes + 1
                      /\ UNCHANGED <<encOn, thr, pend, joinsDue, joinsDone, last, outcome>>
            ELSE Reject("unexpected client frame")
       [] e.k = "outcome" ->
            IF e.ok /\ ((last = "succ" /\ e.o = "play") \/
                        (last = "disc_plain" /\ e.o = "LoginDisconnect") \/
                        (last = "disc_outdated" /\ e.o = "VersionMismatch"))
            THEN /\ Adv /\ outcome' = e.o
                 /\ UNCHANGED <<encOn, thr, pend, joinsDue, joinsDone, last, nframes>>
            ELSE Reject("login outcome does not match the server's last step")
       [] OTHER -> Reject("unknown event")

Spec == Init /\ [][Step]_vars
Accepted == rejected = ""
FinalOk == (rejected = "" /\ l = Len(Ev) + 1) =>
              /\ pend = <<>> /\ joinsDone = joinsDue /\ outcome # "none" /\ nframes >= 2
=============================================================================
