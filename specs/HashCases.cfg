SPECIFICATION Spec
CONSTANTS
  FmtCases <- MCFmt
  Emit = TRUE
INVARIANT HashMatches
INVARIANT FormatShape
INVARIANT EmitRows
