------------------------------ MODULE PositionCodec ------------------------------
(***************************************************************************)
(* Bit-level packing of block positions (C04), written from the protocol:  *)
(*   Position, layout "XYZ" (up to 1.13.2):  x:26 | y:12 | z:26            *)
(*   Position, layout "XZY" (from 1.14):     x:26 | z:26 | y:12            *)
(*   chunk section position:                 x:22 | z:22 | y:20            *)
(*   multi-block-change record < 741:  byte x<<4|z, byte y, VarInt state   *)
(*   multi-block-change record >= 741: VarLong state<<12 | x<<8 | z<<4 | y *)
(* Every field is two's complement of its width, the 64-bit word is        *)
(* big-endian.  Words are bit sequences (most significant first), so the   *)
(* oracle is independent of Python's shifts and masks.                     *)
(*                                                                         *)
(* The module is a transition system: Init chooses a case, Step computes   *)
(* the reference result (encode: bytes, decode: coordinates).              *)
(***************************************************************************)
EXTENDS Wire, TLC, Json

CONSTANTS Cases,   \* sequence of sets of cases (records, see below)
          Emit

VARIABLES c, res, phase
vars == <<c, res, phase>>

Pow2(n) == IF n = 0 THEN 1 ELSE 2 * BitsVal(<<1>> \o Zeros(n - 1))     \* 2^n for n <= 30

\* two's complement of n in w bits (n may be negative), w <= 30
TwoC(n, w) == NatBits(n % Pow2(w), w)
FromTwoC(bits) == BitsVal(bits) - (IF bits[1] = 1 THEN Pow2(Len(bits)) ELSE 0)

InRange(n, w) == n >= 0 - Pow2(w - 1) /\ n < Pow2(w - 1)

PosBits(layout, x, y, z) ==
  IF layout = "XYZ" THEN TwoC(x, 26) \o TwoC(y, 12) \o TwoC(z, 26)
                    ELSE TwoC(x, 26) \o TwoC(z, 26) \o TwoC(y, 12)
PosDecode(layout, bits) ==
  IF layout = "XYZ"
  THEN <<FromTwoC(SubSeq(bits, 1, 26)), FromTwoC(SubSeq(bits, 27, 38)), FromTwoC(SubSeq(bits, 39, 64))>>
  ELSE <<FromTwoC(SubSeq(bits, 1, 26)), FromTwoC(SubSeq(bits, 53, 64)), FromTwoC(SubSeq(bits, 27, 52))>>

CspBits(x, y, z) == TwoC(x, 22) \o TwoC(z, 22) \o TwoC(y, 20)
CspDecode(bits) == <<FromTwoC(SubSeq(bits, 1, 22)), FromTwoC(SubSeq(bits, 45, 64)), FromTwoC(SubSeq(bits, 23, 44))>>

BytesToBits(by) == FlattenSeq([i \in 1..Len(by) |-> NatBits(by[i], 8)])

\* bits (msb first) of a non-negative number -> canonical VarInt/VarLong bytes
RECURSIVE StripLeadZeroBits(_)
StripLeadZeroBits(bits) == IF bits # <<>> /\ bits[1] = 0 THEN StripLeadZeroBits(Tail(bits)) ELSE bits
BitsToDigits128(bits) ==
  LET s == StripLeadZeroBits(bits)
      n == (Len(s) + 6) \div 7
      p == Zeros(7 * n - Len(s)) \o s
  IN [i \in 1..n |-> BitsVal(SubSeq(p, 7 * (n - i) + 1, 7 * (n - i) + 7))]     \* little-endian digits
VarOfBits(bits) == EncVarDigits(BitsToDigits128(bits))

\* record: state given as bits (msb first), x, y, z small naturals
RecordNew(st, x, y, z) == VarOfBits(st \o NatBits(x, 4) \o NatBits(z, 4) \o NatBits(y, 4))
RecordOld(st, x, y, z) == <<16 * x + z, y>> \o VarOfBits(st)

\* case kinds:
\*   [k |-> "pe", lay, x, y, z]      encode a position under layout lay
\*   [k |-> "pd", lay, w]            decode the 8-byte word w under layout lay
\*   [k |-> "ce", x, y, z] / [k |-> "cd", w]     chunk section position
\*   [k |-> "rn" | "ro", st, x, y, z]            record, new / old format
Result(cs) ==
  CASE cs.k = "pe" -> BitsToBytes(PosBits(cs.lay, cs.x, cs.y, cs.z))
    [] cs.k = "pd" -> PosDecode(cs.lay, BytesToBits(cs.w))
    [] cs.k = "ce" -> BitsToBytes(CspBits(cs.x, cs.y, cs.z))
    [] cs.k = "cd" -> CspDecode(BytesToBits(cs.w))
    [] cs.k = "rn" -> RecordNew(cs.st, cs.x, cs.y, cs.z)
    [] cs.k = "ro" -> RecordOld(cs.st, cs.x, cs.y, cs.z)

Init == /\ \E i \in 1..Len(Cases) : c \in Cases[i]
        /\ res = <<>> /\ phase = "chosen"
Step == /\ phase = "chosen" /\ res' = Result(c) /\ phase' = "done" /\ UNCHANGED c
Next == Step \/ (phase = "done" /\ UNCHANGED vars)
Spec == Init /\ [][Next]_vars

----------------------------------------------------------------------------
\* the reference packing is an exact inverse on its range (spec-level sanity)
PosInverse ==
  (phase = "done" /\ c.k = "pe") =>
     /\ InRange(c.x, 26) /\ InRange(c.y, 12) /\ InRange(c.z, 26)
     /\ Len(res) = 8
     /\ PosDecode(c.lay, BytesToBits(res)) = <<c.x, c.y, c.z>>
PosDecodeInRange ==
  (phase = "done" /\ c.k = "pd") =>
     /\ InRange(res[1], 26) /\ InRange(res[2], 12) /\ InRange(res[3], 26)
     /\ BitsToBytes(PosBits(c.lay, res[1], res[2], res[3])) = c.w
CspInverse ==
  /\ (phase = "done" /\ c.k = "ce") => CspDecode(BytesToBits(res)) = <<c.x, c.y, c.z>>
  /\ (phase = "done" /\ c.k = "cd") => BitsToBytes(CspBits(res[1], res[2], res[3])) = c.w
\* the two layouts differ exactly when y and z fields differ as bit strings
LayoutsDiffer ==
  (phase = "done" /\ c.k = "pe" /\ (c.y # 0 \/ c.z # 0) /\ ~(c.y = -1 /\ c.z = -1)) =>
     PosBits("XYZ", c.x, c.y, c.z) # PosBits("XZY", c.x, c.y, c.z)

EmitRows == (Emit /\ phase = "done") => PrintT(ToJson([c |-> c, r |-> res]))
=============================================================================
