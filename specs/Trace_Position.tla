------------------------------ MODULE Trace_Position ------------------------------
(* I->S for C04: positions encoded by the real code at random versions are   *)
(* recomputed with the bit-level reference packing of the version's layout.   *)
EXTENDS PositionCodec, IOUtils
Obs == JsonDeserialize(IOEnv.TRACE_FILE)
NoCases == <<>>
VARIABLE tid
TraceInit == /\ tid \in 1..Len(Obs)
             /\ c = [k |-> "pe", lay |-> Obs[tid].lay, x |-> Obs[tid].x, y |-> Obs[tid].y, z |-> Obs[tid].z]
             /\ res = <<>> /\ phase = "chosen"
TraceSpec == TraceInit /\ [][Next /\ UNCHANGED tid]_<<vars, tid>>
BytesMatch == phase = "done" => (res = Obs[tid].b /\ Obs[tid].ok)
=============================================================================
