----------------------------------- MODULE AES128 -----------------------------------
(***************************************************************************)
(* AES-128 encryption of one block (FIPS-197), all that CFB mode needs.    *)
(* The state is a sequence of 16 bytes in the order of the input block     *)
(* (column-major: byte 4c + r + 1 is row r of column c).  Heavy steps are  *)
(* TLA+ functions / folds so that TLC evaluates arguments once.  Checked   *)
(* against the FIPS-197 Appendix B vector with an ASSUME.                  *)
(***************************************************************************)
EXTENDS Naturals, Sequences, SequencesExt, Bitwise, TLC

SBoxTable == <<
  99, 124, 119, 123, 242, 107, 111, 197, 48, 1, 103, 43, 254, 215, 171, 118,
  202, 130, 201, 125, 250, 89, 71, 240, 173, 212, 162, 175, 156, 164, 114, 192,
  183, 253, 147, 38, 54, 63, 247, 204, 52, 165, 229, 241, 113, 216, 49, 21,
  4, 199, 35, 195, 24, 150, 5, 154, 7, 18, 128, 226, 235, 39, 178, 117,
  9, 131, 44, 26, 27, 110, 90, 160, 82, 59, 214, 179, 41, 227, 47, 132,
  83, 209, 0, 237, 32, 252, 177, 91, 106, 203, 190, 57, 74, 76, 88, 207,
  208, 239, 170, 251, 67, 77, 51, 133, 69, 249, 2, 127, 80, 60, 159, 168,
  81, 163, 64, 143, 146, 157, 56, 245, 188, 182, 218, 33, 16, 255, 243, 210,
  205, 12, 19, 236, 95, 151, 68, 23, 196, 167, 126, 61, 100, 93, 25, 115,
  96, 129, 79, 220, 34, 42, 144, 136, 70, 238, 184, 20, 222, 94, 11, 219,
  224, 50, 58, 10, 73, 6, 36, 92, 194, 211, 172, 98, 145, 149, 228, 121,
  231, 200, 55, 109, 141, 213, 78, 169, 108, 86, 244, 234, 101, 122, 174, 8,
  186, 120, 37, 46, 28, 166, 180, 198, 232, 221, 116, 31, 75, 189, 139, 138,
  112, 62, 181, 102, 72, 3, 246, 14, 97, 53, 87, 185, 134, 193, 29, 158,
  225, 248, 152, 17, 105, 217, 142, 148, 155, 30, 135, 233, 206, 85, 40, 223,
  140, 161, 137, 13, 191, 230, 66, 104, 65, 153, 45, 15, 176, 84, 187, 22 >>
SBox(b) == SBoxTable[b + 1]

X2(b) == LET d == 2 * b IN IF d >= 256 THEN (d - 256) ^^ 27 ELSE d       \* multiplication by x in GF(2^8)
X3(b) == X2(b) ^^ b
Xor4(a, b, c, d) == (a ^^ b) ^^ (c ^^ d)

SubBytes(s) == [i \in 1..16 |-> SBox(s[i])]
\* row r of column c moves to column (c - r) mod 4
ShiftRows(s) == [i \in 1..16 |-> LET c == (i - 1) \div 4  r == (i - 1) % 4 IN s[4 * ((c + r) % 4) + r + 1]]
MixColumn(a0, a1, a2, a3) ==
  << Xor4(X2(a0), X3(a1), a2, a3), Xor4(a0, X2(a1), X3(a2), a3), Xor4(a0, a1, X2(a2), X3(a3)), Xor4(X3(a0), a1, a2, X2(a3)) >>
MixColumns(s) == FlattenSeq([c \in 1..4 |-> MixColumn(s[4 * c - 3], s[4 * c - 2], s[4 * c - 1], s[4 * c])])
AddRoundKey(s, k) == [i \in 1..16 |-> s[i] ^^ k[i]]

Rcon == <<1, 2, 4, 8, 16, 32, 64, 128, 27, 54>>
\* next round key from the previous one
NextKey(k, r) ==
  LET t == << SBox(k[14]) ^^ Rcon[r], SBox(k[15]), SBox(k[16]), SBox(k[13]) >>
      w0 == [i \in 1..4 |-> k[i] ^^ t[i]]
      w1 == [i \in 1..4 |-> k[4 + i] ^^ w0[i]]
      w2 == [i \in 1..4 |-> k[8 + i] ^^ w1[i]]
      w3 == [i \in 1..4 |-> k[12 + i] ^^ w2[i]]
  IN w0 \o w1 \o w2 \o w3
\* round keys 0..10 as a sequence of 11 blocks
KeySchedule(key) == FoldLeft(LAMBDA ks, r : Append(ks, NextKey(ks[r], r)), <<key>>, [i \in 1..10 |-> i])

EncryptWith(ks, block) ==
  LET s0 == AddRoundKey(block, ks[1])
      s9 == FoldLeft(LAMBDA s, r : AddRoundKey(MixColumns(ShiftRows(SubBytes(s))), ks[r + 1]), s0, [i \in 1..9 |-> i])
  IN AddRoundKey(ShiftRows(SubBytes(s9)), ks[11])
Encrypt(key, block) == EncryptWith(KeySchedule(key), block)

\* FIPS-197 Appendix B
ASSUME Fips197B ==
  Encrypt(<<43, 126, 21, 22, 40, 174, 210, 166, 171, 247, 21, 136, 9, 207, 79, 60>>,
          <<50, 67, 246, 168, 136, 90, 48, 141, 49, 49, 152, 162, 224, 55, 7, 52>>)
    = <<57, 37, 132, 29, 2, 220, 9, 251, 220, 17, 133, 151, 25, 106, 11, 50>>
\* FIPS-197 Appendix C.1
ASSUME Fips197C1 ==
  Encrypt([i \in 1..16 |-> i - 1], [i \in 1..16 |-> 17 * (i - 1)])
    = <<105, 196, 224, 216, 106, 123, 4, 48, 216, 205, 183, 128, 112, 180, 197, 90>>
=============================================================================
