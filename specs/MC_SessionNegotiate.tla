---------------------------- MODULE MC_SessionNegotiate ----------------------------
EXTENDS SessionNegotiate
MCOrder == <<"k0", "s1", "s2", "k", "s3">>
MCSupported == {"s1", "s2", "s3"}
MCAllowedSets == {{}, {"s1"}, {"s2"}, {"s3"}, {"s1", "s2"}, {"s2", "s3"}, {"s1", "s3"}, {"s1", "s2", "s3"},
                  {"s1", "k"}, {"x"}, {"s2", "x"}}
MCInitials == {"none", "s1", "s2", "s3", "k", "x"}
MCReplies == {<<"proto", v>> : v \in {"s1", "s2", "s3", "k", "x"}} \cup {<<"noproto">>, <<"noversion">>, <<"empty">>, <<"eof">>}
=============================================================================
