SPECIFICATION Spec
CONSTANTS
  Users <- MCUsers1
  Programs <- P3
  MaxThreads = 3
  MaxSocks = 3
  ServerModes <- Both
  SrvMayClose = TRUE
  Reactions <- AllReactions
  HandlerReconnect = TRUE
  SrvMayStall = TRUE
  HEAtomic = TRUE
  ShutdownBoth = TRUE
  Fixed = TRUE
  Emit = FALSE
PROPERTY InterruptLeadsToTermination
