------------------------------- MODULE SessionPlay -------------------------------
(***************************************************************************)
(* C11: the play state of one connection against a scripted server.        *)
(* MODEL of connection.py: NetworkingThread._run's batching loop (write up *)
(* to W queued packets under the lock, then read and react to up to        *)
(* R - written packets; real values 300 / 50, scaled here), PlayingReactor *)
(* (keep-alive echo is QUEUED, teleport confirm from protocol 107, position *)
(* echo before, spawned flag, disconnect -> Connection.disconnect(): flush  *)
(* the queue, interrupt, close), generic packets for unknown ids, listener  *)
(* delivery, _handle_exit.                                                  *)
(*                                                                         *)
(* Server packets:  <<"ka", id>>  <<"pl", tid>>  <<"unk", k>>  <<"known", k>> *)
(*                  <<"disc">>                                              *)
(* Client frames:   <<"ka", id>>  <<"tc", tid>>  <<"pos", tid>>             *)
(***************************************************************************)
EXTENDS Naturals, Sequences, FiniteSets, TLC, Json

CONSTANTS Alphabet,   \* server packets other than <<"disc">> a script may contain
          MaxLen,     \* script length bound (excluding the final disconnect)
          W, R,       \* scaled batch limits: writes per round, packets per round
          Teleport,   \* set of BOOLEAN: version classes explored (TRUE: protocol >= 107)
          Emit

VARIABLES
  script,     \* the whole server script (chosen in Init; constant)
  tp,         \* version class: teleport confirm exists
  inq,        \* server packets not yet read by the client
  outq,       \* the connection's outgoing queue
  wire,       \* frames the server has received, in order
  delivered,  \* packets handed to ordinary listeners, in order
  spawned, connected, closed, exits, errors,
  pc,         \* "top" | "write" | "read" | "exit" | "done"
  nw, nr      \* packets written / handled in the current round

vars == <<script, tp, inq, outq, wire, delivered, spawned, connected, closed, exits, errors, pc, nw, nr>>

Scripts == UNION {[1..n -> Alphabet] : n \in 0..MaxLen}

Init == /\ \E s \in Scripts : script = s \o <<<<"disc">>>>
        /\ tp \in Teleport
        /\ inq = script /\ outq = <<>> /\ wire = <<>> /\ delivered = <<>>
        /\ spawned = FALSE /\ connected = TRUE /\ closed = FALSE /\ exits = 0 /\ errors = 0
        /\ pc = "top" /\ nw = 0 /\ nr = 0

\* while not self.interrupt:  (the thread is interrupted by disconnect())
Top == /\ pc = "top"
       /\ IF closed THEN pc' = "exit" ELSE pc' = "write"
       /\ nw' = 0 /\ nr' = 0
       /\ UNCHANGED <<script, tp, inq, outq, wire, delivered, spawned, connected, closed, exits, errors>>

\* with write_lock: while _pop_packet(): num += 1; if num >= 300: break
WriteOne == /\ pc = "write" /\ outq # <<>> /\ nw < W
            /\ wire' = Append(wire, Head(outq)) /\ outq' = Tail(outq) /\ nw' = nw + 1
            /\ UNCHANGED <<script, tp, inq, delivered, spawned, connected, closed, exits, errors, pc, nr>>
WriteDone == /\ pc = "write" /\ (outq = <<>> \/ nw >= W)
             /\ pc' = "read" /\ nr' = nw
             /\ UNCHANGED <<script, tp, inq, outq, wire, delivered, spawned, connected, closed, exits, errors, nw>>

React(p) ==
  CASE p[1] = "ka"  -> [q |-> Append(outq, <<"ka", p[2]>>), sp |-> spawned, disc |-> FALSE]
    [] p[1] = "pl"  -> [q |-> Append(outq, IF tp THEN <<"tc", p[2]>> ELSE <<"pos", p[2]>>), sp |-> TRUE, disc |-> FALSE]
    [] p[1] = "disc" -> [q |-> outq, sp |-> spawned, disc |-> TRUE]
    [] OTHER        -> [q |-> outq, sp |-> spawned, disc |-> FALSE]

\* while num < 50 and not interrupt: packet = read_packet(); if not packet: break; react
ReadOne == /\ pc = "read" /\ nr < R /\ inq # <<>> /\ ~closed
           /\ LET p == Head(inq) r == React(p) IN
                /\ inq' = Tail(inq)
                /\ delivered' = Append(delivered, p)
                /\ spawned' = r.sp
                /\ IF r.disc
                   THEN \* Connection.disconnect(): connected = False, flush the queue, interrupt, close
                        /\ connected' = FALSE /\ closed' = TRUE
                        /\ wire' = wire \o r.q /\ outq' = <<>>
                   ELSE /\ outq' = r.q /\ UNCHANGED <<wire, connected, closed>>
                /\ nr' = nr + 1
           /\ UNCHANGED <<script, tp, exits, errors, pc, nw>>
ReadDone == /\ pc = "read" /\ (nr >= R \/ inq = <<>> \/ closed)
            /\ pc' = "top"
            /\ UNCHANGED <<script, tp, inq, outq, wire, delivered, spawned, connected, closed, exits, errors, nw, nr>>

\* _handle_exit: if not connected and handle_exit is not None: handle_exit()
Exit == /\ pc = "exit"
        /\ exits' = IF ~connected THEN exits + 1 ELSE exits
        /\ pc' = "done"
        /\ UNCHANGED <<script, tp, inq, outq, wire, delivered, spawned, connected, closed, errors, nw, nr>>

Next == Top \/ WriteOne \/ WriteDone \/ ReadOne \/ ReadDone \/ Exit \/ (pc = "done" /\ UNCHANGED vars)
Spec == Init /\ [][Next]_vars /\ WF_vars(Top \/ WriteOne \/ WriteDone \/ ReadOne \/ ReadDone \/ Exit)

----------------------------------------------------------------------------
(* Properties (C11)                                                        *)
Sel(s, kinds) == SelectSeq(s, LAMBDA p : p[1] \in kinds)
IsPrefix(a, b) == Len(a) <= Len(b) /\ SubSeq(b, 1, Len(a)) = a

\* what the client must answer to the packets it has read so far
Expected(rd) == [i \in 1..Len(Sel(rd, {"ka", "pl"})) |->
                   LET p == Sel(rd, {"ka", "pl"})[i] IN
                   IF p[1] = "ka" THEN <<"ka", p[2]>> ELSE IF tp THEN <<"tc", p[2]>> ELSE <<"pos", p[2]>>]

\* answers go out exactly once, in arrival order, never invented
EchoFifo == IsPrefix(wire, Expected(delivered)) /\ wire \o outq = Expected(delivered)
SpawnedIffPosLook == spawned = (Sel(delivered, {"pl"}) # <<>>)
DeliveredInOrder == IsPrefix(delivered, script)
\* at the end: everything answered, all packets delivered, exit callback exactly once, no error
DisconnectClean ==
  pc = "done" => /\ delivered = script /\ wire = Expected(script) /\ outq = <<>>
                 /\ closed /\ exits = 1 /\ errors = 0
Terminates == <>(pc = "done")

EmitRows == (Emit /\ pc = "done") =>
   PrintT(ToJson([script |-> script, tp |-> tp, wire |-> wire, spawned |-> spawned, exits |-> exits]))
=============================================================================
