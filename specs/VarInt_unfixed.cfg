\* The writer as it was before the fix (no rejection of negatives): TLC is
\* expected to report WriterVariant violated (the loop never ends for n < 0).
SPECIFICATION Spec
CONSTANTS
  ReaderInputs <- NoStreams
  WriterInputs <- NegativeOnly
  WriterDigits = 0
  RejectNegative = FALSE
  OutCap = 16
  Emit = FALSE
CONSTRAINT Bounded
INVARIANT WriterVariant
