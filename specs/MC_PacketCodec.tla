--------------------------------- MODULE MC_PacketCodec ---------------------------------
EXTENDS PacketCodec
PA(l, e) == <<"PrefixedArray", l, e>>
Pos(m) == [s |-> 0, m |-> m]
Neg(m) == [s |-> 1, m |-> m]
MCFieldPool == {
  <<<<"Boolean">>, TRUE>>, <<<<"Byte">>, Neg(<<128>>)>>, <<<<"UnsignedByte">>, Pos(<<255>>)>>, <<<<"Short">>, Neg(<<1>>)>>,
  <<<<"Integer">>, Pos(<<1, 2, 3, 4>>)>>, <<<<"Long">>, Neg(<<128, 0, 0, 0, 0, 0, 0, 0>>)>>, <<<<"VarInt">>, <<0, 1>>>>,
  <<<<"String">>, <<72, 233, 8364>>>>, <<<<"UUID">>, [by |-> [i \in 1..16 |-> 16 * i - 1], txt |-> UuidText([i \in 1..16 |-> 16 * i - 1])]>>,
  <<<<"VarIntPrefixedByteArray">>, <<1, 2, 3>>>>,
  <<PA("VarInt", <<"Short">>), <<Pos(<<7>>), Neg(<<2>>)>>>>,
  <<PA("Short", PA("VarInt", <<"String">>)), <<<<<<97>>, <<>>>>, <<>>>>>>,
  <<PA("Integer", <<"Boolean">>), <<>>>>,
  \* context-dependent leaves, flat and nested (the context must reach the innermost element)
  <<<<"Position", "L">>, <<-3, 70, 1200>>>>,
  <<PA("VarInt", PA("Short", <<"Position", "L">>)), <<<<<<1, -2, 3>>, <<-33554432, 2047, 33554431>>>>, <<>>, <<<<0, 0, 0>>>>>>>> }
MCLastPool == {<<<<"TrailingByteArray">>, <<9, 8, 7>>>>, <<<<"TrailingByteArray">>, <<>>>>}
NoCases == <<>>
NoPool == {}
=============================================================================
