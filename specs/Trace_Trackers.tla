--------------------------------- MODULE Trace_Trackers ---------------------------------
(***************************************************************************)
(* I->S for C20 (trackers): long packet histories applied to the real      *)
(* tracker objects through the packets' apply methods; after every packet  *)
(* the projected real state must equal the state the Trackers model        *)
(* computes from the same history.                                         *)
(* Trace: [hist |-> <<packets>>, states |-> <<projected state after each>>] *)
(***************************************************************************)
EXTENDS Trackers, IOUtils
Traces == JsonDeserialize(IOEnv.TRACE_FILE)

VARIABLES tid, l, S, rejected
vars == <<tid, l, S, rejected>>
T == Traces[tid]

Conv(o) == [players |-> [u \in Uuids |-> o.players[u]], maps |-> [m \in MapIds |-> o.maps[m]], pos |-> o.pos]
Init == tid \in 1..Len(Traces) /\ l = 1 /\ S = InitState /\ rejected = ""
Step == /\ rejected = "" /\ l <= Len(T.hist)
        /\ LET n == Apply(S, T.hist[l]) IN
             IF n = Conv(T.states[l])
             THEN S' = n /\ l' = l + 1 /\ UNCHANGED <<tid, rejected>>
             ELSE rejected' = "tracker state after this packet differs from the replayed history" /\ UNCHANGED <<tid, l, S>>
Spec == Init /\ [][Step]_vars
Accepted == rejected = ""
AnglesWrapped == S.pos.yaw \in 0..359 /\ S.pos.pitch \in 0..359
=============================================================================
