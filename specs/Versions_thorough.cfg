SPECIFICATION Spec
CONSTANTS
  BaseRecords <- MCBase
  NewRecords <- MCNew
  NewSupported <- MCNewSup
  ReleaseIds <- MCRelease
  MaxOps = 4
  Emit = TRUE
INVARIANT TablesAreProjections
INVARIANT SupportedFollowSupMap
INVARIANT NoDuplicates
INVARIANT RankIsFirstOccurrence
INVARIANT EmitRows
PROPERTY Idempotent
