------------------------------ MODULE MC_SessionLogin ------------------------------
EXTENDS SessionLogin
MCThresholds == {0, 1, 2}          \* concretised by the harness as a rotation over {0, 1, 64, 256, 2^31-1}
MCPlugIds == {1, 2}
MCDiscKinds == {"json", "raw", "outdated_client", "outdated_server"}
=============================================================================
