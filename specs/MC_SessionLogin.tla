------------------------------ MODULE MC_SessionLogin ------------------------------
EXTENDS SessionLogin
MCThresholds == {0, 1, 2}          \* concretised by the harness as a rotation over {0, 1, 64, 256, 2^31-1}
MCPlugIds == {1, 2}
\* reason shapes: a JSON object with text, non-JSON text, the two "Outdated" texts, and JSON that is not an object
\* with text (bare string, array, null, number, object without text): all must surface as a login failure
MCDiscKinds == {"json", "raw", "outdated_client", "outdated_server", "jsonstr", "jsonarr", "jsonnull", "jsonnum", "jsonnotext"}
=============================================================================
