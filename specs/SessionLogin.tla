------------------------------- MODULE SessionLogin -------------------------------
(***************************************************************************)
(* C10: the login state of one connection against every admissible server  *)
(* script.  MODEL of connection.py LoginReactor + Connection.connect:      *)
(*   encryption request -> [session join iff online id and a token],       *)
(*        forced EncryptionResponse in the clear, then both directions     *)
(*        encrypted;                                                       *)
(*   set compression(thr) -> envelope with thr on everything that follows; *)
(*   plugin request(id) -> queued PluginResponse(id, successful = FALSE)   *)
(*        unless a user early listener answered and raised IgnorePacket;   *)
(*   success -> playing reactor;                                           *)
(*   disconnect(msg) -> LoginDisconnect(msg), or VersionMismatch(ver) for  *)
(*        the two "Outdated ..." texts.                                    *)
(* An admissible script encrypts at most once and compresses at most once  *)
(* (in either order), waits for the answer to a request before switching   *)
(* modes, and ends with success or disconnect.                             *)
(*                                                                         *)
(* Server steps: <<"enc", online>> <<"comp", thr>> <<"plug", id>>          *)
(*               <<"succ">> <<"disc", kind>>                               *)
(* Client frames: [k, e (encrypted), c (envelope threshold or -9), a]      *)
(***************************************************************************)
EXTENDS Integers, Sequences, FiniteSets, TLC, Json

CONSTANTS Thresholds,   \* thresholds a script may announce (small stand-ins, concretised by the harness)
          PlugIds, DiscKinds, MaxLen, Emit

NoComp == -9

VARIABLES script, token, userPlug, plugOk,
          i, enc, comp, wire, joins, reactor, outcome
vars == <<script, token, userPlug, plugOk, i, enc, comp, wire, joins, reactor, outcome>>

Steps(p) == {<<"enc", o>> : o \in BOOLEAN} \cup {<<"comp", t>> : t \in Thresholds}
            \cup (IF p THEN {<<"plug", x>> : x \in PlugIds} ELSE {})
Ends == {<<"succ">>} \cup {<<"disc", k>> : k \in DiscKinds}

Kinds(s) == [j \in 1..Len(s) |-> s[j][1]]
Count(s, k) == Cardinality({j \in 1..Len(s) : s[j][1] = k})
\* both orders of encryption and compression are explored (a vanilla server encrypts first, but the
\* property quantifies over every order a server may take)
Admissible(s) ==
  /\ Count(s, "enc") <= 1 /\ Count(s, "comp") <= 1

ScriptsFor(p) == {s \o <<e>> : s \in {t \in UNION {[1..n -> Steps(p)] : n \in 0..MaxLen} : Admissible(t)}, e \in Ends}

Frame(k, a) == [k |-> k, e |-> enc, c |-> comp, a |-> a, at |-> i]

Init == /\ plugOk \in BOOLEAN
        /\ script \in ScriptsFor(plugOk)
        /\ token \in BOOLEAN /\ userPlug \in BOOLEAN
        /\ i = 1 /\ enc = FALSE /\ comp = NoComp /\ joins = 0
        /\ wire = <<[k |-> "handshake", e |-> FALSE, c |-> NoComp, a |-> 0, at |-> 0],
                    [k |-> "login_start", e |-> FALSE, c |-> NoComp, a |-> IF token THEN 1 ELSE 0, at |-> 0]>>
        /\ reactor = "login" /\ outcome = "none"

Cur == script[i]

EncReq == /\ outcome = "none" /\ i <= Len(script) /\ Cur[1] = "enc"
          /\ joins' = IF Cur[2] /\ token THEN joins + 1 ELSE joins
          /\ wire' = Append(wire, Frame("enc_response", 0))       \* written before the switch
          /\ enc' = TRUE
          /\ i' = i + 1
          /\ UNCHANGED <<script, token, userPlug, plugOk, comp, reactor, outcome>>

SetComp == /\ outcome = "none" /\ i <= Len(script) /\ Cur[1] = "comp"
           /\ comp' = Cur[2] /\ i' = i + 1
           /\ UNCHANGED <<script, token, userPlug, plugOk, enc, wire, joins, reactor, outcome>>

PlugReq == /\ outcome = "none" /\ i <= Len(script) /\ Cur[1] = "plug"
           /\ wire' = Append(wire, Frame("plugin_response", <<Cur[2], userPlug>>))
           /\ i' = i + 1
           /\ UNCHANGED <<script, token, userPlug, plugOk, enc, comp, joins, reactor, outcome>>

Success == /\ outcome = "none" /\ i <= Len(script) /\ Cur[1] = "succ"
           /\ reactor' = "play" /\ outcome' = "play" /\ i' = i + 1
           /\ UNCHANGED <<script, token, userPlug, plugOk, enc, comp, wire, joins>>

Disconnect == /\ outcome = "none" /\ i <= Len(script) /\ Cur[1] = "disc"
              /\ outcome' = IF Cur[2] \in {"outdated_client", "outdated_server"} THEN "VersionMismatch" ELSE "LoginDisconnect"
              /\ i' = i + 1
              /\ UNCHANGED <<script, token, userPlug, plugOk, enc, comp, wire, joins, reactor>>

Next == EncReq \/ SetComp \/ PlugReq \/ Success \/ Disconnect \/ (outcome # "none" /\ UNCHANGED vars)
Spec == Init /\ [][Next]_vars /\ WF_vars(EncReq \/ SetComp \/ PlugReq \/ Success \/ Disconnect)

----------------------------------------------------------------------------
Pos(k) == CHOOSE j \in 1..Len(wire) : wire[j].k = k
Has(k) == \E j \in 1..Len(wire) : wire[j].k = k

\* the response itself is in the clear, everything after it is encrypted, nothing before
NoPlaintextAfterEncResponse ==
  /\ Has("enc_response") => /\ wire[Pos("enc_response")].e = FALSE
                            /\ \A j \in 1..Len(wire) : wire[j].e = (j > Pos("enc_response"))
  /\ ~Has("enc_response") => \A j \in 1..Len(wire) : wire[j].e = FALSE
\* frames written after the announcement carry the announced threshold, earlier ones none
ThresholdApplied ==
  \A j \in 1..Len(wire) :
     LET before == {m \in 1..(wire[j].at - 1) : script[m][1] = "comp"} IN
     wire[j].c = IF before = {} THEN NoComp ELSE script[CHOOSE m \in before : TRUE][2]
PluginAnsweredExactlyOnce ==
  LET reqs == SelectSeq(SubSeq(script, 1, i - 1), LAMBDA s : s[1] = "plug")
      resp == SelectSeq(wire, LAMBDA f : f.k = "plugin_response") IN
  /\ Len(reqs) = Len(resp)
  /\ \A j \in 1..Len(reqs) : resp[j].a = <<reqs[j][2], userPlug>>
DisconnectAlwaysSurfaces ==
  (i > Len(script)) => /\ outcome # "none"
                       /\ (script[Len(script)][1] = "disc") = (outcome \in {"LoginDisconnect", "VersionMismatch"})
                       /\ (script[Len(script)][1] = "succ") = (reactor = "play")
JoinOnlyOnlineWithToken ==
  joins = Cardinality({m \in 1..(i - 1) : script[m][1] = "enc" /\ script[m][2] /\ token})
Terminates == <>(outcome # "none")

EmitRows == (Emit /\ outcome # "none") =>
  PrintT(ToJson([script |-> script, token |-> token, userPlug |-> userPlug, plugOk |-> plugOk,
                 wire |-> wire, joins |-> joins, outcome |-> outcome]))
=============================================================================
