--------------------------------- MODULE MC_ConnWriter ---------------------------------
EXTENDS ConnWriter
MCUsers == {"u1", "u2"}
MCUsers3 == {"u1", "u2", "u3"}
\* packets are numbered 10*user + k so that they are globally distinct
Wr(kind, p) == <<kind, p>>
P1 == {<<>>, <<Wr("q", 11)>>, <<Wr("f", 11)>>, <<Wr("q", 11), Wr("q", 12)>>, <<Wr("q", 11), Wr("f", 12)>>, <<Wr("f", 11), Wr("q", 12)>>}
P2 == {<<Wr("q", 21), <<"disc">>>>, <<Wr("q", 21), <<"disc_now">>>>, <<Wr("f", 21), <<"disc">>>>, <<<<"disc">>>>,
       <<Wr("q", 21), Wr("q", 22), <<"disc">>>>, <<Wr("f", 21), Wr("q", 22)>>, <<<<"disc_now">>>>}
P3 == {<<Wr("q", 31)>>, <<Wr("f", 31)>>, <<Wr("q", 31), Wr("f", 32)>>}
MCProgs == {[u \in MCUsers |-> IF u = "u1" THEN a ELSE b] : a \in P1, b \in P2}
MCProgs3 == {[u \in MCUsers3 |-> IF u = "u1" THEN a ELSE IF u = "u2" THEN b ELSE c] : a \in P1, b \in P2, c \in P3}
=============================================================================
