SPECIFICATION Spec
CONSTANTS
  Cases <- MCCases
  Emit = TRUE
INVARIANT AllBytes
INVARIANT UuidText36
INVARIANT IntRoundTrip
INVARIANT ModelWithinQuantum
INVARIANT StringPrefix
INVARIANT EmitRows
