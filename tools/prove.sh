#!/bin/sh
# usage: tools/prove.sh <ProofModule> [seconds]  - checks specs/<ProofModule>.tla with TLAPS (tlapm) in a scratch directory
# under /verif/.work; prints the tlapm summary line; exit 0 iff every obligation was proved.
M=$1; T=${2:-300}
D=/verif/.work/tlaps_$$; mkdir -p $D; cp /verif/specs/*.tla $D/; cd $D
timeout -s KILL $T tlapm --threads 4 $M.tla > out.txt 2>&1; rc=$?
grep -E "obligations (proved|failed)|Error|error" out.txt | tail -3
ok=1; grep -q "All [0-9]* obligations proved" out.txt && ok=0
cd /verif; rm -rf $D; rmdir /verif/.work 2>/dev/null
exit $ok
