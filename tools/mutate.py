#!/venv/bin/python
"""Systematic small mutants of the library, as a regression test of the checks.

  tools/mutate.py [--workers N] [--per-file K] [--seed S] [--files glob ...] [--out FILE]

For every selected source file a seeded sample of one-token mutants is generated from the AST
(comparison operators, and/or, dropped `not`, small integer constants +-1, boolean constants, dropped
statements, `if` conditions forced).  Each mutant is written into a scratch worktree of /repo (one
per worker, under /tmp, removed at the end; /repo itself is never touched).  A mutant counts only if
the repository's own test suite gives the baseline result with it (87 passed, the same 14 failures) -
the brief's "compiles and passes the existing tests".  The checks of the properties anchored in that
file are then run (quick tier, PYCRAFT_REPO = the worktree, scratch evidence) until one reports a
VIOLATION.  Outcome per mutant: tests (killed by the suite: not counted), detected (by which check and
key), survived (no check objected: equivalent mutant or a gap - to be read), machinery (a check exited 2).
"""
import argparse
import ast
import copy
import fnmatch
import json
import os
import random
import re
import subprocess
import sys
import threading

REPO = '/repo'
VERIF = os.path.dirname(os.path.dirname(os.path.abspath(__file__)))

# which properties are anchored in which files (cheapest checks first)
CHECKS = [
    ('minecraft/networking/types/basic.py', ['C03', 'C04', 'C05', 'C02', 'C07']),
    ('minecraft/networking/types/utility.py', ['C20', 'C05']),
    ('minecraft/networking/types/enum.py', ['C20']),
    ('minecraft/utility.py', ['C08', 'C20', 'C07']),
    ('minecraft/__init__.py', ['C08']),
    ('minecraft/networking/packets/packet.py', ['C07', 'C05', 'C01', 'C13']),
    ('minecraft/networking/packets/packet_buffer.py', ['C05', 'C01']),
    ('minecraft/networking/packets/packet_listener.py', ['C13']),
    ('minecraft/networking/packets/keep_alive_packet.py', ['C07', 'C11']),
    ('minecraft/networking/packets/plugin_message_packet.py', ['C05', 'C01']),
    ('minecraft/networking/encryption.py', ['C17', 'C18', 'C10']),
    ('minecraft/authentication.py', ['C19']),
    ('minecraft/networking/connection.py', ['C06', 'C09', 'C14', 'C10', 'C11', 'C15', 'C01', 'C12', 'C13', 'C16', 'C18']),
    ('minecraft/networking/packets/clientbound/play/__init__.py', ['C06', 'C07', 'C05']),
    ('minecraft/networking/packets/serverbound/play/__init__.py', ['C06', 'C07', 'C05', 'C11']),
    ('minecraft/networking/packets/clientbound/login/__init__.py', ['C06', 'C07', 'C05', 'C10']),
    ('minecraft/networking/packets/serverbound/login/__init__.py', ['C06', 'C07', 'C05', 'C10']),
    ('minecraft/networking/packets/clientbound/status/__init__.py', ['C06', 'C07', 'C09']),
    ('minecraft/networking/packets/serverbound/status/__init__.py', ['C06', 'C07', 'C09']),
    ('minecraft/networking/packets/serverbound/handshake/__init__.py', ['C06', 'C07', 'C09']),
    ('minecraft/networking/packets/clientbound/play/map_packet.py', ['C20', 'C05']),
    ('minecraft/networking/packets/clientbound/play/player_list_item_packet.py', ['C20', 'C05']),
    ('minecraft/networking/packets/clientbound/play/player_position_and_look_packet.py', ['C20', 'C07', 'C05']),
    ('minecraft/networking/packets/clientbound/play/block_change_packet.py', ['C04', 'C05']),
    ('minecraft/networking/packets/clientbound/play/join_game_and_respawn_packets.py', ['C07', 'C05']),
    ('minecraft/networking/packets/clientbound/play/combat_event_packet.py', ['C05']),
    ('minecraft/networking/packets/clientbound/play/spawn_object_packet.py', ['C05']),
    ('minecraft/networking/packets/clientbound/play/face_player_packet.py', ['C05']),
    ('minecraft/networking/packets/clientbound/play/explosion_packet.py', ['C05']),
    ('minecraft/networking/packets/clientbound/play/sound_effect_packet.py', ['C05']),
    ('minecraft/networking/packets/serverbound/play/client_settings_packet.py', ['C05', 'C20']),
]

CMP = {ast.Lt: ast.LtE, ast.LtE: ast.Lt, ast.Gt: ast.GtE, ast.GtE: ast.Gt, ast.Eq: ast.NotEq, ast.NotEq: ast.Eq,
       ast.Is: ast.IsNot, ast.IsNot: ast.Is, ast.In: ast.NotIn, ast.NotIn: ast.In}


def sites(tree):
    """(description, apply(node-copy-tree)) for every mutation site."""
    out = []
    nodes = list(ast.walk(tree))
    for idx, n in enumerate(nodes):
        ln = getattr(n, 'lineno', 0)
        if isinstance(n, ast.Compare):
            for k, op in enumerate(n.ops):
                if type(op) in CMP:
                    out.append(('L%d compare %s -> %s' % (ln, type(op).__name__, CMP[type(op)].__name__), idx, ('cmp', k)))
        elif isinstance(n, ast.BoolOp):
            out.append(('L%d %s -> %s' % (ln, type(n.op).__name__, 'Or' if isinstance(n.op, ast.And) else 'And'), idx, ('bool',)))
        elif isinstance(n, ast.UnaryOp) and isinstance(n.op, ast.Not):
            out.append(('L%d drop not' % ln, idx, ('not',)))
        elif isinstance(n, ast.Constant) and isinstance(n.value, bool):
            out.append(('L%d %r -> %r' % (ln, n.value, not n.value), idx, ('boolc',)))
        elif isinstance(n, ast.Constant) and isinstance(n.value, int) and not isinstance(n.value, bool) and abs(n.value) <= 4096:
            for d in (1, -1):
                out.append(('L%d const %d -> %d' % (ln, n.value, n.value + d), idx, ('int', d)))
        elif isinstance(n, ast.If):
            out.append(('L%d if -> if False' % ln, idx, ('iff', False)))
            out.append(('L%d if -> if True' % ln, idx, ('iff', True)))
        elif isinstance(n, (ast.Expr, ast.Assign, ast.AugAssign)) and not (isinstance(n, ast.Expr) and isinstance(getattr(n, 'value', None), ast.Constant)):
            out.append(('L%d drop statement' % ln, idx, ('drop',)))
        elif isinstance(n, ast.BinOp) and isinstance(n.op, (ast.Add, ast.Sub)):
            out.append(('L%d %s -> %s' % (ln, type(n.op).__name__, 'Sub' if isinstance(n.op, ast.Add) else 'Add'), idx, ('arith',)))
    return out


def apply_site(src, site):
    tree = ast.parse(src)
    nodes = list(ast.walk(tree))
    _, idx, how = site
    n = nodes[idx]
    k = how[0]
    if k == 'cmp':
        n.ops[how[1]] = CMP[type(n.ops[how[1]])]()
    elif k == 'bool':
        n.op = ast.Or() if isinstance(n.op, ast.And) else ast.And()
    elif k == 'not':
        for parent in nodes:
            for f, v in ast.iter_fields(parent):
                if v is n:
                    setattr(parent, f, n.operand)
                elif isinstance(v, list) and n in v:
                    v[v.index(n)] = n.operand
    elif k == 'boolc':
        n.value = not n.value
    elif k == 'int':
        n.value = n.value + how[1]
    elif k == 'iff':
        n.test = ast.Constant(value=how[1])
    elif k == 'arith':
        n.op = ast.Sub() if isinstance(n.op, ast.Add) else ast.Add()
    elif k == 'drop':
        for parent in nodes:
            for f, v in ast.iter_fields(parent):
                if isinstance(v, list) and n in v:
                    v[v.index(n)] = ast.Pass()
    ast.fix_missing_locations(tree)
    return ast.unparse(tree) + '\n'


def baseline_failures(wt):
    r = subprocess.run(['/venv/bin/python', '-m', 'pytest', '-q', '-p', 'no:cacheprovider', '--timeout=120', '-x', '--co', '-q'],
                       cwd=wt, capture_output=True, text=True, env=dict(os.environ, PYTHONPATH=wt))
    return r.returncode


def run_tests(wt):
    r = subprocess.run(['timeout', '-s', 'KILL', '600', '/venv/bin/python', '-m', 'pytest', '-q', '-p', 'no:cacheprovider', '--timeout=60'],
                       cwd=wt, capture_output=True, text=True, env=dict(os.environ, PYTHONPATH=wt))
    failed = sorted(set(re.findall(r'^(?:FAILED|ERROR) (\S+)', r.stdout, re.M)))
    m = re.search(r'(\d+) passed', r.stdout)
    return failed, int(m.group(1)) if m else -1


def worker(k, jobs, results, lock, base):
    wt = '/tmp/mut_%d' % k
    subprocess.run(['git', '-C', REPO, 'worktree', 'add', '--detach', wt, 'HEAD'], capture_output=True)
    try:
        while True:
            with lock:
                if not jobs:
                    break
                job = jobs.pop(0)
            rel, site, checks, src = job
            res = {'file': rel, 'mutant': site[0]}
            try:
                new = apply_site(src, site)
                if ast.dump(ast.parse(new)) == ast.dump(ast.parse(src)):
                    res['outcome'] = 'noop'
                else:
                    with open(os.path.join(wt, rel), 'w') as f:
                        f.write(new)
                    failed, passed = run_tests(wt)
                    if (failed, passed) != base:
                        res['outcome'] = 'tests'
                    else:
                        res['outcome'] = 'survived'
                        res['ran'] = []
                        for c in checks:
                            env = dict(os.environ, PYCRAFT_REPO=wt, VERIF_SCRATCH_EVIDENCE='1', VERIF_WALL_TIMEOUT='120')
                            r = subprocess.run(['timeout', '-s', 'KILL', '1500', os.path.join(VERIF, 'check'), c, '--tier', 'quick'],
                                               cwd=VERIF, capture_output=True, text=True, env=env)
                            res['ran'].append(c)
                            if r.returncode == 1:
                                keys = re.findall(r'^\s+key=([^:]+(?::[^:\s]+){0,2})', r.stdout, re.M)
                                res.update(outcome='detected', by=c, key=(keys[0] if keys else '?')[:100])
                                break
                            if r.returncode != 0:
                                res.update(outcome='machinery', by=c, tail=(r.stdout + r.stderr)[-300:])
                                break
            except Exception as e:      # noqa
                res['outcome'] = 'error'
                res['err'] = repr(e)
            finally:
                subprocess.run(['git', '-C', wt, 'checkout', '--', '.'], capture_output=True)
            with lock:
                results.append(res)
                print('%-9s %-60s %s %s' % (res['outcome'], rel[-60:], res['mutant'], res.get('by', '') + ' ' + res.get('key', '')), flush=True)
    finally:
        subprocess.run(['git', '-C', REPO, 'worktree', 'remove', '--force', wt], capture_output=True)


def main():
    ap = argparse.ArgumentParser()
    ap.add_argument('--workers', type=int, default=6)
    ap.add_argument('--per-file', type=int, default=12)
    ap.add_argument('--seed', type=int, default=1)
    ap.add_argument('--files', nargs='*', default=['*'])
    ap.add_argument('--out', default='/tmp/mutants.json')
    a = ap.parse_args()
    rng = random.Random(a.seed)
    jobs = []
    for rel, checks in CHECKS:
        if not any(fnmatch.fnmatch(rel, g) or g in rel for g in a.files):
            continue
        src = open(os.path.join(REPO, rel)).read()
        ss = sites(ast.parse(src))
        rng.shuffle(ss)
        n = a.per_file if rel != 'minecraft/networking/connection.py' else a.per_file * 4
        for site in ss[:n]:
            jobs.append((rel, site, checks, src))
    rng.shuffle(jobs)
    print('%d mutants' % len(jobs), flush=True)
    # baseline of the test suite
    wt0 = '/tmp/mut_base'
    subprocess.run(['git', '-C', REPO, 'worktree', 'add', '--detach', wt0, 'HEAD'], capture_output=True)
    base = run_tests(wt0)
    subprocess.run(['git', '-C', REPO, 'worktree', 'remove', '--force', wt0], capture_output=True)
    print('baseline: %d passed, %d failed' % (base[1], len(base[0])), flush=True)
    results, lock = [], threading.Lock()
    ths = [threading.Thread(target=worker, args=(k, jobs, results, lock, base)) for k in range(a.workers)]
    for t in ths:
        t.start()
    for t in ths:
        t.join()
    subprocess.run(['git', '-C', REPO, 'worktree', 'prune'], capture_output=True)
    tally = {}
    for r in results:
        tally[r['outcome']] = tally.get(r['outcome'], 0) + 1
    json.dump({'tally': tally, 'results': results}, open(a.out, 'w'), indent=1)
    print(tally)
    return 0


if __name__ == '__main__':
    sys.exit(main())
