#!/bin/sh
# Runs every registered check (quick tier unless $1 = thorough) on the current tree and validates the evidence files.
cd "$(dirname "$0")/.."
TIER=${1:-quick}
fail=0
for id in C01 C02 C03 C04 C05 C06 C07 C08 C09 C10 C11 C12 C13 C14 C15 C16 C17 C18 C19 C20; do
  s=$(date +%s)
  timeout 3000 ./check $id --tier $TIER > .runall_$id.log 2>&1
  rc=$?
  e=$(date +%s)
  echo "$id rc=$rc $((e-s))s $(grep -c '^VIOLATION' .runall_$id.log) violations, $(grep -c '^KNOWN-FINDING' .runall_$id.log) known"
  [ $rc -ne 0 ] && fail=1 && tail -3 .runall_$id.log
done
python3-vt - <<'PY'
import json, jsonschema, glob
sch=json.load(open('/root/.vp/EVIDENCE.schema.json'))
for f in sorted(glob.glob('evidence/*.json')):
    e=json.load(open(f)); jsonschema.validate(e, sch)
    assert e['violations']==0, f
print('evidence valid:', len(glob.glob('evidence/*.json')))
PY
rm -f .runall_*.log
exit $fail
