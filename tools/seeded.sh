#!/bin/sh
# usage: tools/seeded.sh <name> <property id> <dir with patch.diff demo.py meta.json> [other check ids...]
# Confirms a seeded change in a scratch worktree (tests still pass, demo fails with / passes without the change),
# runs the property's quick check (and any extra checks) against /repo with the patch applied, reverts, and files
# everything under /verif/seeded/<name>/.
set -u
NAME=$1; PID=$2; SRC=$3; shift 3
OUT=/verif/seeded/$NAME
mkdir -p $OUT
cp $SRC/patch.diff $SRC/demo.py $OUT/ 2>/dev/null
cp $SRC/meta.json $OUT/agent_meta.json 2>/dev/null
git -C /repo diff --quiet || { echo "repo dirty"; exit 9; }
WT=/tmp/seedwt_$NAME
rm -rf $WT; git -C /repo worktree add -q --detach $WT HEAD
cd $WT
D0=$(PYTHONPATH=$WT timeout 120 /venv/bin/python $OUT/demo.py >/dev/null 2>&1; echo $?)
git apply $OUT/patch.diff || { echo "patch does not apply"; git -C /repo worktree remove --force $WT; exit 8; }
T1=$(PYTHONPATH=$WT timeout 600 /venv/bin/python -m pytest -q -p no:cacheprovider --timeout=900 2>&1 | tail -1)
D1=$(PYTHONPATH=$WT timeout 120 /venv/bin/python $OUT/demo.py >/dev/null 2>&1; echo $?)
cd /verif
git -C /repo worktree remove --force $WT
echo "demo without change: exit $D0; with change: exit $D1; tests with change: $T1"
git -C /repo apply $OUT/patch.diff
RES=""
for id in $PID "$@"; do
  timeout 900 env VERIF_SCRATCH_EVIDENCE=1 ./check $id --tier quick > $OUT/check_$id.log 2>&1
  rc=$?
  keys=$(grep "key=" $OUT/check_$id.log | sed 's/^ *key=\([^:]*:[^ ]*\).*/\1/' | sort -u | head -5 | tr '\n' ' ')
  echo "check $id rc=$rc $keys"
  RES="$RES $id:rc=$rc"
done
git -C /repo checkout -- .
git -C /repo status --short | head -2
python3 - "$OUT" "$PID" "$D0" "$D1" "$T1" "$RES" <<'PY'
import json, sys, os
out, pid, d0, d1, t1, res = sys.argv[1:7]
am = {}
try: am = json.load(open(os.path.join(out, 'agent_meta.json')))
except Exception: pass
meta = {'property': pid, 'summary': am.get('summary'), 'needs': am.get('needs'), 'files': am.get('files'),
        'confirmed': {'demo_exit_without_change': int(d0), 'demo_exit_with_change': int(d1), 'tests_with_change': t1},
        'checks_run_with_change_applied_to_repo': res.strip().split(),
        'how': 'scratch worktree for tests + demo; git -C /repo apply patch.diff; ./check <id> --tier quick; git -C /repo checkout -- .'}
json.dump(meta, open(os.path.join(out, 'meta.json'), 'w'), indent=1)
PY
rm -f $OUT/agent_meta.json
