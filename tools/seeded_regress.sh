#!/bin/sh
# Re-runs every seeded change against the quick check of its property (regression test of the checks themselves).
# Each worker owns a scratch worktree of /repo under /tmp (removed at the end); the checks run with PYCRAFT_REPO pointing
# at it and VERIF_SCRATCH_EVIDENCE=1, so neither /repo nor evidence/ is touched.   usage: tools/seeded_regress.sh [workers]
W=${1:-4}
cd /verif
OUT=/tmp/seeded_regress.$$; mkdir -p $OUT
ls -d seeded/C* | sort | grep -E "${SR_FILTER:-.}" > $OUT/all      # SR_FILTER=regex: only those seeded changes
k=0
while [ $k -lt $W ]; do
  ( wt=/tmp/sr_$k; git -C /repo worktree add --detach $wt HEAD >/dev/null 2>&1
    n=0
    for d in $(cat $OUT/all); do
      n=$((n+1)); [ $((n % W)) -eq $k ] || continue
      name=$(basename $d); pid=$(echo $name | cut -c1-3)
      alt=$(jq -r '.regress_check // empty' /verif/$d/meta.json 2>/dev/null); [ -n "$alt" ] && pid=$alt    # a change filed under one property but breaking another
      git -C $wt apply /verif/$d/patch.diff || { echo "$name APPLY-FAILED"; continue; }
      PYCRAFT_REPO=$wt VERIF_SCRATCH_EVIDENCE=1 timeout 1500 ./check $pid --tier quick > $OUT/$name.log 2>&1; rc=$?
      git -C $wt checkout -- . ; git -C $wt clean -fdq
      echo "$name rc=$rc $(grep -h 'key=' $OUT/$name.log | sed 's/^ *key=//' | cut -d: -f1-3 | sort -u | head -2 | tr '\n' ' ' | cut -c1-160)"
    done
    git -C /repo worktree remove --force $wt ) > $OUT/worker_$k.out 2>&1 &
  k=$((k+1))
done
wait
git -C /repo worktree prune
cat $OUT/worker_*.out | sort
bad=$(cat $OUT/worker_*.out | grep -vc "rc=1 ")
echo "seeded changes not detected (or machinery failures): $bad"
rm -rf $OUT
[ "$bad" = "0" ]
