#!/usr/bin/env python3
"""Regenerates MANIFEST.json from the table below (single source of truth)."""
import json
import os

HERE = os.path.dirname(os.path.dirname(os.path.abspath(__file__)))

BASELINE = ("cd /repo && env -u PYCRAFT_VERIF /venv/bin/python -m pytest -ra -q -p no:cacheprovider "
            "--timeout=900 --continue-on-collection-errors")

CHECKS = {
    'C07': dict(
        technique='TLA+ reference table of ids and layouts per release (ProtocolRef.tla), written from the published protocol and '
                  'encoded by the TLA+ reference encoders; TLC emits (release, packet, values, payload) rows replayed into the real '
                  'packet classes and reactor dispatch tables (S->I)',
        text='ProtocolRef.tla states, for each of the 30 release protocols the README lists (47 ... 757), the ids of handshake, status '
             'request / response / ping / pong, login start / success / disconnect / set-compression / encryption request / response, '
             'keep-alive both ways, join game, chat both ways, player position and look both ways, teleport confirm and play '
             'disconnect, and their field layouts per era (keep-alive width, teleport id, dismount flag, chat sender, login-success UUID, '
             'the seven join-game eras); TLC encodes two value sets per row with the Wire encoders and checks the table is injective. '
             'For every row the real class must report that id, the reactor must dispatch that id to that class, Packet.write must '
             'produce exactly the reference bytes, and reading the reference bytes must give the values with nothing left over. '
             'Serverbound rows are also written through Connection.write_packet on a Connection of that release, with a fresh packet '
             'object and with one carrying the context of another release: the connection\'s release decides the bytes. Relay: '
             'every clientbound core packet is decoded by the real PacketReactor.read_packet (socket pair) at release A and written '
             'again under a release B with the same reference fields; the bytes must be B\'s reference frame.',
        note='VarInt-era keep-alive rows include the id -1 as sent on the wire (ff ff ff ff 0f). The relay pass holds the reactors of both releases at once. The table is recollected (no network): any disagreement on the unchanged tree is adjudicated from in-repo evidence or '
             'the row dropped - none was needed. NBT fields use one fixed blob. Trusted: TLC, pynbt for the blob.',
        design='5/C07'),
    'C05': dict(
        technique='TLA+ packet codec over the reference encoders (PacketCodec.tla): TLC-generated field-list programs replayed into '
                  'user-defined Packet subclasses (S->I); every library class x supported version x variant written and read back, the '
                  'observations judged by the law Trace_RoundTrip.tla and the payloads of definition-driven classes recomputed by TLC '
                  '(I->S)',
        text='(a) PacketCodec.tla defines a payload as the id VarInt followed by the concatenation of the Wire reference encodings along '
             'a definition; TLC enumerates definitions of <= 2 (thorough 3) fields over 13 typed values incl. arrays nested to depth 2 and '
             'trailing byte arrays with 5 ids, and each is declared as a Packet subclass (definition and get_definition styles), written '
             '(bytes must equal), read back (fields equal, buffer exhausted) and repr()ed. (b) For all 250 supported versions every class '
             'of the 8 state/direction tables - with all player-list actions, combat events, face-player modes, map variants, plugin '
             'response modes and spawn-object data modes, values generated from the field types - is written, its frame id compared '
             'with the table id, read back into a fresh instance, compared field by field (angles / fixed point within a quantum), '
             'checked for leftover bytes and repr(); TLC judges the recorded law. (c) For definition-driven classes whose types the '
             'reference encoders cover TLC recomputes the payload from (id, typed field values). Programs include the '
             'context-dependent leaf Position, flat and inside nested arrays, encoded under both layouts and replayed under a context '
             'of the matching era.',
        note='String fields occasionally hold up to 16400 characters needing more than 32767 bytes. All 369 known versions are swept: the 119 not supported as shipped are declared supported at run time first (documented mechanism), and restored. Every round trip is preceded by a write that fails part-way. Half of the generated strings are built from special code points (section sign, controls, NUL, BOM, non-characters, quotes, bidi / zero-width). Trusted: TLC, pynbt (opaque), the harness\'s value generators and hand-written builders for the six hand-written codecs. A '
             'change applied consistently to reader and writer of a hand-written codec is C07\'s to catch for core packets.',
        design='5/C05'),
    'C20': dict(
        technique='TLA+ definition of the trackers as functions of the packet history (Trackers.tla), explored exhaustively over a '
                  'packet alphabet with the laws as invariants and every history replayed into the real tracker objects (S->I); long '
                  'seeded histories validated state by state by TLC (I->S, Trace_Trackers); vector / record / alias / flag-name '
                  'observations judged by laws in TLC (Trace_Values)',
        text='Trackers.tla defines the player list (add overwrites, updates and removals of unknown players are no-ops), the map set '
             '(map created on first sight, pixel i at offset + (i mod w, i div w), flags copied) and the position tracker (relative '
             'flags add, angles wrap to [0,360)). TrackerModel.tla explores every history of <= 3 / 4 packets over an 18-packet alphabet '
             'with PresenceLaw, UpdatesNeverCreate, MapCreatedOnFirstSight, AnglesWrapped as invariants; each history is applied through '
             'the real packets\' apply methods and the projected tracker state compared. Seeded histories of up to 200 packets (3 uuids, '
             '2 maps, all 32 flag combinations) are validated after every packet by TLC running the model. Vector arithmetic '
             '(component-wise, operand type kept, incl. subclasses), record equality / hash laws (field lists declared by the harness, '
             'record class hierarchies with the parent class exercised first), attribute aliases and the flag names '
             'of every value 0..255 of the library\'s three flag enums and of generated enums (name parses back; None only when the value '
             'is no union of members) are checked by TLC on recorded observations.',
        note='Application-declared keyword aliases (permuted keywords, non-iterable containers, mixed). Every other map update is written to bytes and read by one re-used MapPacket object. Map updates whose last row is not full; the map keeps its size. Every attribute alias the library declares is discovered by walking its classes and probed in both directions; generated flag enums include enums extending another enum and overriding a member. Trusted: TLC, the projection of the real objects. Integer-valued coordinates; a 4x4 window of the 128x128 map.',
        design='5/C20'),
    'C19': dict(
        technique='TLA+ model of the token (AuthToken.tla): one transition per (stored-field subset, operation, reply status x body '
                  'shape) fixing request, outcome and next state; TLC checks the invariants and emits every transition; one '
                  'implementation test per transition against a recording stand-in for the service, plus model-following operation '
                  'sequences (S->I)',
        text='AuthToken.tla covers the 32 token states (every subset of the five fields), 7 operations (authenticate with and '
             'without invalidate_previous, refresh, validate, invalidate, join, sign_out) and 30 reply shapes ({200,204,400,403,500,503} '
             'x {result, error object, partial error object, non-JSON, empty}); invariants ErrorsLeaveStateUntouched, '
             'OnlyAuthRefreshStore, JoinNeedsAuthentication, ValidateTrueOnlyOn204, SuccessMakesAuthenticated, ErrorRepliesRaise. Every '
             'one of the 6720 transitions is executed against the real AuthenticationToken: the request that reached the stand-in '
             '(endpoint URL, JSON content type, payload incl. agent block and the clientToken rule, or no request at all), the return '
             'value or YggdrasilError (status code, service error fields or the malformed message), the stored fields afterwards and '
             'the authenticated property are compared with the model.',
        note='Tokens without a profile are left as the constructor made them (no field is assigned None by the harness). Error objects are compared field by field including cause. The service stand-in sits at urllib3 HTTPConnectionPool._make_request (below sessions, adapters and retry policies); rate-limiting replies carry Retry-After every other time. Trusted: TLC. The service is a stand-in inside the process (requests.post replaced by a recorder returning real '
             'requests.Response objects). Combinations the property does not constrain are recorded as "any".',
        design='5/C19'),
    'C18': dict(
        technique='AES-128 and CFB8 written in TLA+ (AES128.tla with FIPS-197 vectors as ASSUMEs, CFB8.tla); traces of the real '
                  'encryption wrappers (plaintext and ciphertext of every send / read / recv), of os.urandom and of the RSA blocks the '
                  'key holder recovers are recomputed chunk by chunk by TLC (I->S, Trace_Cipher.tla)',
        text='Trace_Cipher.tla keeps one CFB8 shift register per direction (key = IV = secret) and requires every chunk the real '
             'EncryptedSocketWrapper sent to be the encryption of its plaintext continuing the stream, and every chunk read through '
             'EncryptedFileObjectWrapper / recv to decrypt likewise with an independent register, for whatever partition into calls '
             'occurred; it requires the secret to be a 16-byte draw made from the system entropy source during that login (tapped '
             'at os.urandom, random._urandom and names bound in the module), distinct across the logins of the run although the '
             'global random generator is re-seeded identically before each, and secret and verify token to arrive as well-formed PKCS#1 v1.5 type-2 blocks (raw c^d mod n, token '
             'lengths 1..64, 1024- and 2048-bit keys). Traces come from whole encrypted logins against the independent peer (which '
             'encrypts with its own CFB8 loop, so interoperation is exercised) and from the wrappers driven directly with random '
             'partitions in both directions.',
        note='Single sends of 4081 - 9000 bytes are decrypted by an independent peer cipher. One send on the underlying socket may be interrupted (EINTR) before transferring anything: the peer decrypts exactly what was handed in up to there. Login-reactor traces with a packet already queued when the encryption request is handled: nothing follows the response in plaintext. Half of the encrypted logins carry an ordinary outgoing listener on the encryption response (returning, or raising IgnorePacket). Groups of three logins through one Connection object must negotiate distinct secrets. Trusted: TLC arithmetic / Bitwise overrides, Python pow() for the private-key operation. Randomness is checked for source, '
             'use and distinctness only. About 2.5 KB (quick) of stream are recomputed by the TLA+ AES.',
        design='5/C18'),
    'C17': dict(
        technique='SHA-1 and Java signed-hex written in TLA+ (SHA1.tla, SignedHex.tla); TLC enumerates the formatter and its rows '
                  'are replayed into minecraft_sha1_hash_digest (S->I); recorded update() calls and results of the real '
                  'generate_verification_hash, and the string the login reactor hands to AuthenticationToken.join, are recomputed '
                  'by TLC with its own SHA-1 (I->S)',
        text='SHA1.tla implements FIPS 180 over 16-bit limb pairs (ASSUMEs: the "abc" and empty vectors); SignedHex.tla implements '
             'BigInteger.toString(16) via two\'s complement on byte sequences. HashCases.tla is a transition system over every 1- and '
             '2-byte digest plus structured 20-byte digests (FormatShape invariant) whose rows are replayed into the real formatter, '
             'and over observations of the real function - the three published vectors, digests found by search with a set top bit, a '
             'leading zero nibble and a leading zero byte, and seeded random (id, secret, key) triples with non-ASCII ids - where a '
             'recording proxy for encryption.sha1 provides the update() calls for diagnosis; TLC requires result = '
             'SignedHex(SHA1(utf8(id) o secret o key)). The same is required of the string LoginReactor.react hands to the '
             'token\'s join for the secret the key holder recovers and the key bytes the server sent, in three encodings the '
             'client accepts (SubjectPublicKeyInfo, bare PKCS#1, SubjectPublicKeyInfo without NULL parameters).',
        note='Six consecutive logins through one Connection object with a changing key encoding. A token stand-in whose first join is refused and whose refresh succeeds is used in a quarter of the login-level observations: every hash handed to join is judged. Trusted: TLC arithmetic and Bitwise overrides. hashlib is checked, not trusted. The full login around the join is '
             'C10\'s.',
        design='5/C17'),
    'C14': dict(
        technique='TLA+ model of the exception path (ExcChain.tla, one action per step of except / handler chain / final handler / '
                  'record / interrupt check / re-raise / finally) explored exhaustively by TLC; scenarios replayed into a real '
                  'Connection under the scheduler (S->I); placement in the lifecycle checked in ConnLifecycle.tla',
        text='ExcChain.tla enumerates 5 fault origins (early listener, ordinary listener, built-in reaction, packet decoder, exit '
             'callback) x every handler chain of <= 2 (thorough 3) handlers over 4 type filters x {return, raise, reconnect} x early '
             'flag x final handler in {None, False, returning, raising}; TLC checks OneCatch, InOrder, ReplacementFlows, '
             'FinalAlwaysRuns, LastRecorded, ReraiseOnlyIfUncaughtAndNoFinal, ClosedUnlessReconnected, ThreadEndsSlotFree. Thousands of '
             'scenarios (all with long call logs, a seeded sample of the rest) run against the real code; the handler call log with '
             'the exception each handler saw, the final handler\'s argument, connection.exception, whether run() re-raised, the '
             'socket closed at the peer, the cleared thread slot and a following connect() are compared with the model.',
        note='Raising handlers that first attempt a connect() that is refused; the virtual layer finalises unreferenced sockets as CPython does. Faults during the status query that precedes a login, with I/O-family exception types, are routed like any other. Also: the re-raised exception must be the last exception of the chain; a packet queued by the failing listener and a raising outgoing listener must not be reached by the fault\'s clean-up. Trusted: TLC, scheduler and virtual primitives, peer codec. Chains of 4 handlers are not generated.',
        design='5/C14'),
    'C12': dict(
        technique='TLA+ model of concurrent writers (ConnWriter.tla) with all interleavings checked by TLC (the variant without the '
                  'lock must fail); the real Connection with 1-4 user threads under preemption-bounded and seeded random schedules of '
                  'a deterministic scheduler, every socket send mapped onto the frames an independent peer decoded, validated '
                  'against the contract Trace_Writer.tla by TLC (I->S)',
        text='ConnWriter.tla has one action per lock, queue and send operation of write_packet (queued / forced), the networking '
             'thread\'s write loop and disconnect (flush or immediate); TLC checks FramesContiguous, ExactlyOnce, QueuedFifo, '
             'SendOnlyUnderLock, FlushBeforeClose, NothingAfterImmediate and termination under all interleavings. Real executions '
             '(plugin messages with payload sizes around the threshold, compression and AES/CFB8 on or off, a disconnect somewhere) are '
             'scheduled at every lock / queue / socket / thread operation; each send event carries the lock owner, is located in the '
             'byte stream the peer deframed, and the contract rejects a send without the lock, interleaved or split frames, duplicates, '
             'per-thread reordering, a close before the flush, bytes after an immediate disconnect, lost forced writes, and an '
             'undecodable stream. Writers also race an encrypted login (forced write + cipher swap under the lock), and bursts of '
             '301-620 queued packets - more than the networking thread\'s 300-packet write batch - precede a non-immediate disconnect.',
        note='After a reset by the peer, disconnect() still closes socket and file object (virtual shutdown() reports ENOTCONN then). Outgoing listeners that call disconnect() from inside the write of a packet. Bursts go up to 4200 queued packets (nothing handed in may be dropped). Second sessions: packets queued, disconnect(immediate), connect(), packets queued, disconnect() on one Connection - the second TCP connection carries its own handshake and exactly its own packets (this scenario found the defect repaired by 29c3a80). Also: user-defined packets whose serialisation force-writes another packet on the same connection (re-entrant write lock). Every client frame of every execution is also judged by the connection-state grammar Trace_Session.tla. Trusted: TLC, scheduler and virtual primitives, CPython deque atomicity, the peer\'s deframer. Writes issued after the '
             'connection has been closed are outside the contract.',
        design='5/C12'),
    'C16': dict(
        technique='TLA+ model of the connection lifecycle (ConnLifecycle.tla) with all interleavings checked by TLC (invariants, action '
                  'properties, liveness; the pre-fix code must fail); single-thread histories replayed into the real object (S->I); '
                  'two-thread executions of the real code under preemption-bounded and seeded random schedules of a deterministic '
                  'scheduler validated against the contract Trace_Lifecycle.tla by TLC (I->S)',
        text='ConnLifecycle.tla models thread slots, interrupt flags, socket/file attribute states (incl. never assigned), user threads '
             'calling connect / disconnect / disconnect(immediate), the networking thread step by step (begin, join, adopt, loop top, '
             'write phase with deferred errors, read phase outcomes, exit callback, exception path with the interrupt check and '
             'disconnect(immediate) under one lock (HEAtomic; the pre-fix shape, check first and disconnect later, is kept as a '
             'must-fail self-test), finally), reconnects from listeners and exception handlers, servers that accept, refuse or '
             'close. TLC checks AtMostOneInIo, RefusalIsClean, InvalidStateIffActive, DisconnectNeverRaises, SlotsClearedWhenDead, '
             'IdleMeansConnectable, SuccessorAfterPredecessor, NoCrossTeardown and interrupt ~> terminated (also for a thread blocked in a read on a '
             'stalled server: only a shutdown of the read half wakes it; the variant shutting down the write half only must fail). The real Connection runs every single-thread '
             'history <= 4 and thousands of two-thread scenarios with real threads under a token-passing scheduler (virtual lock, '
             'socket with separate read / write halves, select, queue, thread start/join; servers that accept, refuse, disconnect, close '
             'or stall in the middle of a frame); every execution is judged event by event by the contract.',
        note='A negotiation interrupted by the user (disconnect(immediate) while the status query is unanswered, then connect()): the ended connection stays ended, the new one negotiates and logs in with the server version (fix 3b8210b). Contract clause (g): the default reaction to a packet never tears down a connection a listener made in the meantime (listeners reconnecting on the play disconnect packet). Contract clause (e): a failed connection\'s error handling must not tear down a connection made before the failure. Lifecycle servers announce compression at random and C16 owns the session grammar (Trace_Session): a reconnect that opens with an undecodable handshake has not connected again. Trusted: TLC, the scheduler and virtual primitives (semantics observed on real sockets), CPython atomicity of attribute '
             'access. API bodies are atomic in the model because the code holds the write lock throughout. Contract clause (f): the disconnect '
             'that ends a thread\'s own error handling never takes down another thread\'s uninterrupted connection (fix 29c3a80; NoCrossTeardown in the model). '
             'Timed joins may expire whenever the joiner is scheduled again before the other thread ended.',
        design='5/C16'),
    'C15': dict(
        technique='TLA+ model of read_packet with end of stream at every offset (Framing.tla: safety + liveness, the pre-fix loop '
                  'must fail; FramingReset.tla: a TCP reset at any point, a readiness call blind to error bits must fail) checked by TLC; five reference conversations cut at every byte offset run against the real client '
                  'under a deterministic scheduler where hang / spin / blocking are observable outcomes; runs validated against '
                  'Trace_Framing.tla by TLC (I->S)',
        text='Framing.tla with EofArrive enabled at every offset: NoPartialDelivery, BoundedReadsAfterEof, AllCompleteDelivered and the '
             'liveness property eof ~> reader left hold for the present loop and are violated by the loop as it was (self-test '
             'configuration). For status, status-then-login (default version inside and outside the allowed set), login with '
             'compression, login with encryption and compressed play '
             'traffic every server stream is cut at every offset (quick: every second offset plus frame boundaries +-2) and the real '
             'client must finish the execution (not exhaust the step budget, not spin on empty reads, not block, not idle for ever), '
             'report an error - or take exactly the documented fallback to the default version when the status query went '
             'unanswered - and deliver only completely sent packets; each run is judged read by read by the contract in TLC. Each conversation is '
             'also ended by a TCP reset at and around every frame boundary (select() and poll() both virtualised, poll() with Linux event bits): '
             'bounded steps and an error report, judged by scheduler outcome.',
        note='Fallback connections that are refused must end in a reported error. Two conversations carry a 20 KB frame (plain / encrypted) with sampled cut offsets. Trusted: TLC, the scheduler and virtual socket layer as the observer of liveness (step budget 60000, spin = 50 empty '
             'reads), the peer codec.',
        design='5/C15'),
    'C01': dict(
        technique='TLA+ model of read_packet against arbitrary arrivals and cuts (Framing.tla) checked exhaustively by TLC; emitted '
                  'behaviours concretised by an independent encoder and replayed through the real client (S->I); large seeded runs '
                  'and every pair of cut positions of a short stream validated against the contract Trace_Framing.tla by TLC (I->S); '
                  'write direction decoded by the independent peer',
        text='Framing.tla models read_packet statement by statement (select, length VarInt byte by byte, body read and completion '
             'loop, dispatch of known / unknown ids, decryptor feed) against arrivals of any size and end of stream at any offset; TLC '
             'checks DeliveredIsPrefix, DispatchAtBoundary, NoPartialDelivery, UnknownSkippedWhole, DecryptOnceInOrder, bounded empty '
             'reads and ReaderLeaves on all streams of <= 3 frames. Behaviours are concretised (known and unknown-id frames, 1- and '
             '2-byte length prefixes, thresholds, cipher) and fed to the real client through the virtual socket with reads chopped at the '
             'model\'s arrival offsets; seeded runs with payload sizes thr-1/thr/thr+1 up to 4 KiB, thresholds {off,0,1,64,256,1000}, '
             'forced-compressed frames, cipher on/off and 1-byte / random / explicit-cut reads are judged read by read and delivery by '
             'delivery by the contract. Queued and forced writes of the real client (and Packet.write with negative thresholds) must '
             'be recovered exactly by the peer\'s own deframer / inflater / CFB8, with payloads of four compressibility classes. '
             'FrameWriter.tla models the envelope Packet._write_buffer computes (prefix, data-length field, body sizes) and TLC checks '
             'WellFramed / PayloadRecovered over boundary sizes x thresholds x deflated sizes (the variant sizing the header by the '
             'deflated length must fail); frames of the real writer are measured without trusting their declared lengths (the end of the '
             'deflate stream is found by inflating) and judged by Trace_FrameWriter.tla.',
        note='Unknown packets carry ids from a pool of nine; the listener keeps the packet objects and they are judged at the end. Compression and encryption are announced in either order. Also: compression enabled with threshold -1 as the state of a live connection (both directions). Every client frame of every execution is also judged by the connection-state grammar Trace_Session.tla. Trusted: TLC, virtual socket layer, zlib, the peer codec (AES block from cryptography, checked by C18). The exact '
             'compress-iff-larger-than-threshold rule is model-level (drift), the contract requires recoverability and no compressed '
             'frame below the threshold.',
        design='5/C01'),
    'C13': dict(
        technique='TLA+ model of listener dispatch (Dispatch.tla) explored exhaustively over listener configurations; a seeded sample '
                  'of behaviours replayed into a real Connection (S->I); larger random configurations validated by running the model '
                  'from the recorded configuration in TLC (I->S, Trace_Dispatch)',
        text='Dispatch.tla models _react / _write_packet / call_packet: early incoming listeners, the reaction, ordinary listeners, '
             'early outgoing listeners that may suppress the write, ordinary outgoing listeners, IgnorePacket, filters over a class '
             'poset (superclass and multi-type filters), in login and play states, with packets arriving one at a time or in one read '
             'batch (answers then flush later or during disconnect). TLC checks NoDoubleCall, OnlyMatching, OrderWithinPacket, '
             'IgnoreStops, ReactionBetweenStages (every log entry records whether the reaction\'s effect - answer handed to '
             'write_packet, compression switched on, reactor switched, socket closed - was visible to the listener: never to an early '
             'one, always to an ordinary one) and IgnoredNeverReacts on all configurations with <= 1 listener per list, incl. a '
             'set-compression packet kind and a final forced user write; thousands of behaviours are replayed against the real '
             'code (registrations through register_packet_listener and the listener decorator alternately; in a third of the large '
             'configurations one and the same callable is registered for several listeners of a list) '
             'code with the registration order shuffled across lists and the exact call log and the answers the peer saw compared; '
             'random configurations with up to 3 listeners per list are judged by TLC running the model from the recorded configuration.',
        note='A listener that force-writes a matching packet from inside its callback: the order law applied recursively. Half of the executions register bound methods of otherwise unreferenced objects. Decorator objects (the value of Connection.listener(...)) are re-used for several functions. Incoming listeners (superclass filters among them) may be registered after packets of their classes have been dispatched (Dispatch!late). Also: early listeners that call disconnect() on their own connection (only \'ignore\' stops stages: DisconnectingListenerStopsNothing). Trusted: TLC, virtual socket layer, peer codec. Listeners are registered while the networking thread is idle.',
        design='5/C13'),
    'C09': dict(
        technique='TLA+ model of construction / negotiation / status queries (SessionNegotiate.tla) explored exhaustively; every '
                  'scenario instantiated with concrete protocol maps and replayed into a real Connection against the scripted '
                  'peer (S->I)',
        text='SessionNegotiate.tla enumerates 11 allowed-version sets (incl. unsupported and unknown members) x 6 initial versions '
             'x 9 server replies (each supported version, known-unsupported, unknown number, version object without protocol, no '
             'version object, empty object, close without reply) for connect() and additionally the 9 handler-mode pairs for '
             'status(), and checks NeverLoginWithDisallowed, ExactlyServersVersion, FallbackOnlyWhenNoVersion, '
             'AtMostTwoTcpConnections, SingletonSkipsStatus, ExitOnceAfterStatus. Every scenario is run against the real code with '
             'versions given as names or numbers over four protocol maps (incl. 2^30-flagged numbers, first and last supported); the '
             'frames the peer decoded on each TCP connection, the connection count, the surfaced exception (class, server_protocol, '
             'wording supported/allowed), handler calls, latency sign, close and exit callback are compared with the model.',
        note='In the virtual network host names resolve to addresses of their own; the handshake must carry the name. Reported protocol numbers include negative ones. A quarter of the login scenarios carry a token whose profile is filled in after the Connection was constructed. Also: a status query after a failed attempt on the same Connection object. The scenarios are re-run after the supported-version table has been changed at run time (one version added, one withdrawn, initglobals()). Every client frame of every execution is also judged by the connection-state grammar Trace_Session.tla. Trusted: TLC, virtual socket layer, peer codec. The status-phase handshake may carry any allowed version (contract); the '
             'model says the latest. Default handlers are observed through captured stdout.',
        design='5/C09'),
    'C10': dict(
        technique='TLA+ model of the login reactor (SessionLogin.tla) explored exhaustively over all admissible server scripts; '
                  'every behaviour replayed into a real Connection against an independent peer that decrypts (own CFB8, RSA private '
                  'key) and de-envelopes (S->I); those runs and longer random scripts validated against the contract '
                  'Trace_Login.tla by TLC (I->S)',
        text='SessionLogin.tla enumerates every admissible order of {encryption request (online/offline), set-compression, plugin '
             'requests, success | disconnect(4 message kinds)} x auth token x user plugin handler x plugin-capable version class and '
             'checks NoPlaintextAfterEncResponse, ThresholdApplied, PluginAnsweredExactlyOnce, DisconnectAlwaysSurfaces, '
             'JoinOnlyOnlineWithToken and termination. Each behaviour runs against the real client at versions either side of '
             '385/391/707: the peer recovers secret and token with the private key, switches its own cipher and envelope at the '
             'byte where the protocol says so (any deviation garbles the stream), checks the join hash, and the frames, modes, '
             'join calls and surfaced exception are compared with the model and validated event by event by the contract in TLC. '
             'Runs of plugin requests are sent one at a time and back to back (also back to back with the encryption request that '
             'follows them); the server key comes in three encodings; disconnect reasons cover JSON objects, bare JSON '
             'strings / arrays / null / numbers and non-JSON text.',
        note='Every third plain disconnect is a 20 KB login packet. Outdated-client / outdated-server messages also name versions the library does not know. Plugin requests padded to exactly the compression threshold arrive compressed (the peer compresses from the threshold upwards). Also: logins that fail after compression / encryption were switched on and are retried from an exception handler must start from scratch. Every client frame of every execution is also judged by the connection-state grammar Trace_Session.tla. Trusted: TLC, virtual socket layer, peer codec, cryptography package for RSA and the AES block, hashlib for the join '
             'hash oracle (C17 checks that against TLA+). Thresholds 0,1,64,256,2^31-1 with user-handler payloads sized '
             'thr-1/thr/thr+1.',
        design='5/C10'),
    'C11': dict(
        technique='TLA+ model of the play-state loop (SessionPlay.tla) explored exhaustively by TLC; every behaviour replayed '
                  'into a real Connection under a deterministic scheduler with an independent scripted peer (S->I); long seeded '
                  'histories at all 250 supported versions validated against the contract Trace_Play.tla by TLC (I->S)',
        text='SessionPlay.tla models the batching write/read loop, the playing reactor (queued keep-alive echo, teleport '
             'confirm from 107 / position echo before, spawned, disconnect = flush + close), generic packets and the exit '
             'callback; TLC checks EchoFifo, DeliveredInOrder, SpawnedIffPosLook, DisconnectClean and termination on all '
             'scripts up to length 5/6 in both version classes. Each behaviour is replayed against the real code (virtual '
             'sockets, random read segmentation, compression on/off) and the frames the independent peer decoded are compared; '
             'random histories of 60-420 packets (keep-alive ids at all VarInt/Long boundaries, unknown-id frames of random '
             'content, known-unhandled packets) under every supported version are judged event by event by the contract in TLC. '
             'Also: two sessions in a row on one Connection object with different compression settings (each judged as a session '
             'of its own; also with the first session dropped behind unanswered keep-alives), two Connection objects alive at once '
             'on different versions, and the play disconnect packet arriving while queued writes are pending under random schedules.',
        note='The virtual socket honours settimeout (a read that must wait may time out); one frame in every fourth long history arrives in two pieces with a wait in between. Threshold "edge": exactly the size of one of the play packets to come. Also: play-state set-compression in mid-history at protocols up to 47; angles outside [0,360) in the pre-107 echo; a burst answered by the server\'s disconnect packet (deferred write error cancelled). Every client frame of every execution is also judged by the connection-state grammar Trace_Session.tla. Trusted: TLC, the virtual socket/select/lock layer (semantics taken from real sockets), the peer codec, zlib. Packet '
             'ids per version come from the code\'s tables (C07 pins them at releases). Single networking thread: schedules are '
             'not the quantifier here (C12/C16).',
        design='5/C11'),
    'C08': dict(
        technique='version records, derived tables and predicate matrices extracted from the running code and checked by '
                  'TLC ASSUMEs against TLA+ projections and rank order (T-mode); Versions.tla model of run-time extension / '
                  're-initialisation explored exhaustively and every state replayed into the real module (S->I)',
        text='VersionTables.tla: the seven derived tables must equal the order-preserving duplicate-free projections of the '
             'records (defined in TLA+), ordinary numbers ascend, and the five order predicates (plus context variants), '
             'evaluated by the code on all ordered pairs of known protocols, must be exactly the strict / non-strict order of '
             'first-occurrence ranks; in_range is checked against those validated relations. Versions.tla models extension of '
             'the records, direct extension of the supported map and both re-initialisation modes; TLC checks the projection '
             'invariants and idempotence on all histories and every reachable state is replayed into minecraft/__init__.py; after '
             'every full re-initialisation the predicates are re-evaluated through utility, through fresh ConnectionContext objects '
             'and through contexts that existed before the extension, and a Connection is constructed.',
        note='Versions.tla also lists an id a second time (later record wins, the id keeps its place). In a third of the histories the records are re-assigned to a new list instead of being edited in place. Trusted: TLC, JSON hand-over, the release-name regular expression re-stated in the harness. Dynamic part over a '
             '3-record base list and a pool of 6 extensions (<= 3 / 4 operations).',
        design='5/C08'),
    'C04': dict(
        technique='TLA+ bit-level packing (PositionCodec.tla) enumerated by TLC; rows replayed into Position/'
                  'ChunkSectionPos/Record (S->I); layout vector over all known versions checked by TLC ASSUMEs '
                  '(T-mode); random triples recomputed by TLC (I->S)',
        text='TLC enumerates PositionCodec (64-bit words as bit sequences: XYZ and XZY layouts, chunk-section '
             '22/22/20, block records either side of 741) over the per-axis boundary product, every single-bit / '
             'complement / run word, and checks the reference packing is an exact inverse; the harness probes the '
             'layout the code uses at each of the known protocol versions and TLC checks the vector is XYZ up to '
             '404, XZY from 477 with a single switch; every row is replayed at representative versions of its layout '
             'and seeded random triples at random versions are recomputed by TLC.',
        note='Versions made known at run time pack positions x, z, y. A context object taken from a Connection before a negotiated connect() packs positions for the negotiated protocol afterwards. Also: a packet carrying another era\'s context written through Connection.write_packet must hold the position word of the connection\'s era. Trusted: TLC, JSON hand-over; chronological rank from the code\'s own version list (C08 checks it). '
             'Full boundary product only in the thorough tier; quick uses a reduced product plus full per-axis sweeps.',
        design='5/C04'),
    'C06': dict(
        technique='id tables extracted from the running code as a TLA+ constant (T-mode): TLC ASSUMEs totality and '
                  'injectivity and model-checks the dispatch-dict build under every insertion order; real reactors '
                  'compared with the table under shuffled class orders',
        text='For every known protocol version x 4 states x 2 directions the harness evaluates get_packets/get_id '
             'and hands the table to TLC: IdTables.tla ASSUMEs every class of a supported version has a non-negative '
             'integer id and no two share one, and model-checks that building the id->class dict in any insertion '
             'order dispatches every class by its own id; the real PacketReactor subclasses are then constructed at '
             'every supported version under shuffled class orders and their dict must equal the table; the tables are rebuilt in '
             'descending, zig-zag and shuffled version orders (must stay total and injective whatever was built before) and the '
             'reactors are rebuilt on one context walked across all versions; reactors of all versions are kept alive and re-checked '
             'after the others have been built. Exhaustive over the quantifier of the property.',
        note='Whole sessions with an ordinary listener raising IgnorePacket for the login success: the play packets that follow are delivered as play classes. Versions declared at run time (records appended + initglobals) get total, injective tables equal to those of the latest shipped version. State hand-over probe: one frame read through the real read_packet by the login reactor and then by the playing reactor of the same connection. Application subclasses of every registered class and library base are defined before the tables are rebuilt: none may appear in a table. Trusted: TLC, JSON hand-over. Nine collisions inside snapshot windows are recorded as known findings '
             '(known_findings.json); entries so excused are excluded from the TLC walk, every other collision alarms.',
        design='5/C06'),
    'C02': dict(
        technique='TLA+ reference encoders (Wire.tla) generate (type, value, bytes) rows via TLC; rows replayed '
                  'into types/basic.py (S->I); random wide values recomputed by TLC (I->S)',
        text='TLC enumerates WireCases (a transition system over the Wire.tla reference encoders: two\'s complement '
             'from sign-magnitude, IEEE-754 from sign/exponent/fraction bits, UTF-8, VarInt prefixes, UUID text, '
             'angle and fixed-point relations) exhaustively for 8/16-bit types, booleans and angle steps and on '
             'boundary sets for wide types, strings at the 127/128 and 16383/16384 byte boundaries, arrays nested '
             'to depth 3; every row is replayed into send/read of the real types (bytes equal, value back, exact '
             'consumption, every strict prefix raises) and seeded random wide values are validated by TLC. Reads rotate over the '
             'stream kinds the decoders meet in the library (socket-file stand-in, PacketBuffer, BytesIO).',
        note='FixedPoint instances are kept and re-used while other scales over the same integer type are constructed in between. Malformed inputs are fed to the decoders between valid rows; a valid encoding decoded right afterwards must read as before. Trusted: TLC, JSON hand-over, ldexp/frexp for carrying floats, zlib/NBT out of scope. Long '
             'encodings have their strict prefixes sampled.',
        design='5/C02'),
    'C03': dict(
        technique='TLA+ model of the VarInt reader/writer loops checked by TLC; terminal-state rows '
                  'replayed into the code (S->I); random observations judged by the contract in TLC (I->S)',
        text='TLC exhaustively checks VarIntCodec (reader loop, writer loop, contract: bounded reads, '
             'no read past the terminator, canonical form, loop variant for termination, liveness) on '
             'every byte string of <= 2 bytes, all continuation shapes with boundary payloads, every '
             'n < 2^14 (2^21 thorough), powers of two up to 2^77 and negatives; every terminal state is '
             'replayed into VarInt/VarLong.read/send/size under a step budget, and seeded random long '
             'inputs run through the code are validated against the contract by TLC. The reader is driven through the '
             'socket-file stand-in, the library\'s PacketBuffer and a bare BytesIO (all three for short inputs, rotating '
             'otherwise); the kinds must agree.',
        note='Decoders are reached both as read() and as read_with_context() (the packet-field path). Interleaved encoders: a second complete VarInt.send forced into the middle of the first (an int whose shift encodes another value), and three real threads under a 1 us switch interval. Trusted: TLC, the JSON hand-over, the counting stream/sink stand-ins, a 20000-line step '
             'budget as the observable for non-termination. 3-byte inputs by shape x boundary payloads, '
             'not all 2^24.',
        design='5/C03'),
}

REASON_PENDING = 'check not built yet in this round (planned, see DESIGN.md section 5); not claimed until it runs'


def main():
    props = [json.loads(l) for l in open(os.path.join(HERE, 'properties.jsonl'))]
    checks = []
    na = []
    for p in props:
        pid = p['id']
        c = CHECKS.get(pid)
        if c is None:
            na.append({'property_id': pid, 'reason': REASON_PENDING})
            continue
        checks.append({
            'property_id': pid,
            'quick_cmd': './check %s --tier quick' % pid,
            'thorough_cmd': './check %s --tier thorough' % pid,
            'evidence_file': 'evidence/%s.json' % pid,
            'replay_cmd_template': './check %s --replay {path}' % pid,
            'engine': 'tlc+harness',
            'level_claimed': {'category': 'model_checking', 'text': c['text'],
                              'design_ref': 'DESIGN.md section ' + c['design']},
            'level_note': c['note'],
            'technique': c['technique'],
        })
    m = {
        'version': 1,
        'setup_cmd': './setup.sh',
        'hooks': {
            'guard': 'PYCRAFT_VERIF',
            'enable': 'checks set PYCRAFT_VERIF=1 in their own process and import /repo\'s working tree; '
                      'instrumentation is harness-side (module-level names patched at run time), '
                      'no source hooks are committed',
            'baseline_off_cmd': BASELINE,
            'source_commits': [],
            'add_only': True,
        },
        'engines': [{
            'name': 'tlc+harness', 'path': 'check',
            'serves_properties': sorted(CHECKS),
            'kind_free_text': 'explicit TLA+ specifications (specs/) model-checked by TLC; bound to the '
                              'code by replaying TLC-generated behaviours into pyCraft (S->I) and by '
                              'validating traces recorded from pyCraft with TLC (I->S)',
        }],
        'checks': checks,
        'not_applicable': na,
        'notes': 'See DESIGN.md. known_findings.json lists recorded findings and fixed defects.',
    }
    with open(os.path.join(HERE, 'MANIFEST.json'), 'w') as f:
        json.dump(m, f, indent=1)
        f.write('\n')


if __name__ == '__main__':
    main()
