#!/bin/sh
# usage: tools/mutant.sh <check id> <python-expr-file-or-inline sed script> : applies a sed to a repo file, runs the check, reverts.
# tools/mutant.sh C11 minecraft/networking/connection.py 's/a/b/'
ID=$1; FILE=$2; SED=$3
cd /repo && git diff --quiet || { echo "repo dirty"; exit 9; }
sed -i "$SED" "/repo/$FILE"
git -C /repo diff --stat | tail -1
cd /verif && VERIF_SCRATCH_EVIDENCE=1 ./check $ID --tier quick 2>&1 | grep -v "^KNOWN" | tail -${4:-4} | cut -c1-400
git -C /repo checkout -- .
