#!/bin/sh
# Offline set-up: verify the tools and parse every specification.
set -e
cd "$(dirname "$0")"
command -v java >/dev/null
test -f /opt/veriftools/tla/tla2tools.jar
/venv/bin/python -c "import sys; sys.path.insert(0, '${PYCRAFT_REPO:-/repo}'); import minecraft, cryptography, requests, pynbt"
mkdir -p evidence/replays
rm -rf .work
echo setup ok
