"""C08 - protocol versions are totally ordered by publication; derived tables agree.

Specs: specs/VersionTables.tla (static, T-mode: records, tables and predicate
matrices of the running code checked against the projections and the rank
order), specs/Versions.tla (dynamic: run-time extension and re-initialisation,
exhaustive behaviours replayed into the real module).
"""
import json
import os
import random
import re

from .. import core


def snapshot(mc):
    return {
        'known': [[k, v] for k, v in mc.KNOWN_MINECRAFT_VERSIONS.items()],
        'knownP': list(mc.KNOWN_PROTOCOL_VERSIONS),
        'sup': [[k, v] for k, v in mc.SUPPORTED_MINECRAFT_VERSIONS.items()],
        'supP': list(mc.SUPPORTED_PROTOCOL_VERSIONS),
        'rel': [[k, v] for k, v in mc.RELEASE_MINECRAFT_VERSIONS.items()],
        'relP': list(mc.RELEASE_PROTOCOL_VERSIONS),
        'idx': [[p, i] for p, i in sorted(mc.PROTOCOL_VERSION_INDICES.items(), key=lambda x: x[1])],
    }


def run(chk):
    mc = core.import_minecraft()
    from minecraft import utility
    from minecraft.networking.connection import ConnectionContext
    rng = random.Random(chk.seed)

    # ------------------------------------------------ static part (T-mode)
    snap = snapshot(mc)
    P = snap['knownP']
    n = len(P)
    recs = [[r.id, r.protocol, bool(r.supported)] for r in mc.KNOWN_MINECRAFT_VERSION_RECORDS]
    ctxs = [ConnectionContext(protocol_version=p) for p in P]

    def matrix(f):
        out = []
        for i in range(n):
            row = []
            for j in range(n):
                try:
                    row.append(1 if f(i, j) else 0)
                except Exception:       # noqa
                    row.append(2)
            out.append(row)
        return out
    data = dict(snap)
    data['records'] = recs
    data['releaseIds'] = [r[0] for r in recs if re.match(r'[0-9]+(\.[0-9]+)+$', r[0])]
    data['lt'] = matrix(lambda i, j: utility.protocol_earlier(P[i], P[j]))
    data['le'] = matrix(lambda i, j: utility.protocol_earlier_eq(P[i], P[j]))
    data['gt'] = matrix(lambda i, j: ctxs[i].protocol_later(P[j]))
    data['ge'] = matrix(lambda i, j: ctxs[i].protocol_later_eq(P[j]))
    data['clt'] = matrix(lambda i, j: ctxs[i].protocol_earlier(P[j]))
    data['cle'] = matrix(lambda i, j: ctxs[i].protocol_earlier_eq(P[j]))
    for i in range(n):
        for j in range(n):
            chk.case(('pair', i, j), nontrivial=(i != j))
    chk.evaluations += 5 * n * n
    tf = os.path.join(chk.work, 'versions.json')
    with open(tf, 'w') as f:
        json.dump(data, f)
    r = chk.tlc('MC_VersionTables', 'VersionTables.cfg', env={'TRACE_FILE': tf}, must_pass=False, workers=1)
    if not r.ok:
        m = re.search(r'Assumption line (\d+)', r.out)
        name = '?'
        if m:
            src = open(os.path.join(core.SPECS, 'VersionTables.tla')).read().splitlines()
            mm = re.match(r'ASSUME (\w+)', src[int(m.group(1)) - 1])
            name = mm.group(1) if mm else m.group(0)
        elif r.errors:
            name = r.errors[0][:80]
        chk.violation('versions:static:%s' % name,
                      'the version tables / order predicates of the running code violate VersionTables!%s' % name,
                      {'assumption': name, 'n_known': n})
    # in_range against the (TLC-validated) pair relations
    lt, le = data['lt'], data['le']
    bad = None
    count = 0
    if chk.tier == 'thorough':
        rng_v = range(n)
    for s in range(n):
        for e in range(n):
            if chk.tier == 'thorough':
                vs = rng_v
            else:
                vs = {0, n - 1, s, e, max(0, s - 1), min(n - 1, s + 1), max(0, e - 1), min(n - 1, e + 1),
                      (s + e) // 2, rng.randrange(n)}
            for v in vs:
                count += 1
                got = ctxs[v].protocol_in_range(P[s], P[e])
                if bool(got) != (le[s][v] == 1 and lt[v][e] == 1) and bad is None:
                    bad = (P[v], P[s], P[e], got)
    chk.evaluations += count
    chk.extra['in_range_triples'] = count
    if bad:
        chk.violation('versions:in_range', 'protocol_in_range: version %d in [%d, %d) gave %r' % bad, {'triple': bad})
    chk.sample({'known_protocols': n, 'supported': len(snap['supP']), 'release': len(snap['relP']),
                'pre_flagged': [p for p in P if p >= (1 << 30)][:4]})

    # ------------------------------------------------ dynamic part (S->I)
    r2 = chk.tlc('MC_Versions', 'Versions_%s.cfg' % chk.tier)
    rows = r2.printed
    if len(rows) < 100:
        raise core.MachineryError('only %d behaviours' % len(rows))
    Version = mc.Version
    base = [Version('1.30', 900, True), Version('1.30.1', 900, True), Version('24w01a', 901, False)]
    saved = list(mc.KNOWN_MINECRAFT_VERSION_RECORDS)
    saved_obj = mc.KNOWN_MINECRAFT_VERSION_RECORDS
    try:
        for k, row in enumerate(rows):
            rebind = k % 3 == 1       # the records are replaced by a new list object (module attribute re-assigned) instead of
            #                           being changed in place: initglobals must read the records as they are now
            if rebind:
                mc.KNOWN_MINECRAFT_VERSION_RECORDS = list(base)
            else:
                mc.KNOWN_MINECRAFT_VERSION_RECORDS = saved_obj
                mc.KNOWN_MINECRAFT_VERSION_RECORDS[:] = base
            mc.initglobals(use_known_records=True)
            # contexts that exist before the records are extended (a long-lived Connection's context) and keep their version
            old_ctx = {p: ConnectionContext(protocol_version=p) for p in mc.KNOWN_PROTOCOL_VERSIONS}
            for cx in old_ctx.values():
                try:
                    cx.protocol_later_eq(cx.protocol_version)       # used once, so that anything it caches is cached
                except Exception:       # noqa  (judged below, after the re-initialisation)
                    pass
            for op in row['hist']:
                if op['op'] == 'extend' and rebind:
                    recs = list(mc.KNOWN_MINECRAFT_VERSION_RECORDS)
                    mc.KNOWN_MINECRAFT_VERSION_RECORDS = recs[:op['pos']] + [Version(op['id'], op['p'], op['sup'])] + recs[op['pos']:]
                elif op['op'] == 'extend':
                    mc.KNOWN_MINECRAFT_VERSION_RECORDS.insert(op['pos'], Version(op['id'], op['p'], op['sup']))
                elif op['op'] == 'extend_sup':
                    mc.SUPPORTED_MINECRAFT_VERSIONS[op['id']] = op['p']
                else:
                    mc.initglobals(use_known_records=op['known'])
            got = snapshot(mc)
            want = row['tab']
            want_cmp = {'known': want['known'], 'knownP': want['knownP'], 'sup': row['supMap'], 'supP': want['supP'],
                        'rel': want['relMap'], 'relP': want['relP'], 'idx': want['idx']}
            chk.case(('hist', json.dumps(row['hist'], sort_keys=True)))
            chk.traces += 1
            if got != want_cmp:
                diff = [t for t in want_cmp if got[t] != want_cmp[t]]
                last = row['hist'][-1]
                chk.violation('versions:dynamic:%s:%s' % (last['op'] + (':known' if last.get('known') else ''), '+'.join(diff)),
                              'after %s the tables %s differ from the projections: got %r, expected %r'
                              % (json.dumps(row['hist']), diff, {t: got[t] for t in diff}, {t: want_cmp[t] for t in diff}),
                              {'row': row, 'got': got})
            # idempotence on the real module
            if row['hist'][-1]['op'] == 'reinit':
                mc.initglobals(use_known_records=row['hist'][-1]['known'])
                if snapshot(mc) != got:
                    chk.violation('versions:dynamic:not-idempotent', 'a second initglobals changed the tables after %s'
                                  % json.dumps(row['hist']), {'row': row})
            # after a full re-initialisation the order predicates - as every other module sees them
            # (utility and ConnectionContext hold their own references to the index map) - follow the rebuilt order
            last = row['hist'][-1]
            if last['op'] == 'reinit' and last['known']:
                Pk = list(mc.KNOWN_PROTOCOL_VERSIONS)
                bad = None
                for i in range(len(Pk)):
                  for cx in [ConnectionContext(protocol_version=Pk[i])] + ([old_ctx[Pk[i]]] if Pk[i] in old_ctx else []):
                    for j in range(len(Pk)):
                        try:
                            ok = utility.protocol_earlier(Pk[i], Pk[j]) == (i < j) and \
                                utility.protocol_earlier_eq(Pk[i], Pk[j]) == (i <= j) and \
                                cx.protocol_later(Pk[j]) == (i > j) and cx.protocol_later_eq(Pk[j]) == (i >= j) and \
                                cx.protocol_earlier(Pk[j]) == (i < j) and cx.protocol_earlier_eq(Pk[j]) == (i <= j) and \
                                cx.protocol_in_range(Pk[j], Pk[-1]) == (j <= i < len(Pk) - 1)
                        except Exception as e:      # noqa
                            ok, bad = False, 'comparing %r with %r raised %r' % (Pk[i], Pk[j], e)
                        if not ok and bad is None:
                            bad = 'predicates disagree with the list order for %r, %r' % (Pk[i], Pk[j])
                if bad:
                    chk.violation('versions:dynamic:order', 'after %s: %s' % (json.dumps(row['hist']), bad), {'row': row})
                try:
                    from minecraft.networking.connection import Connection
                    c = Connection('h', 1, allowed_versions=set(mc.SUPPORTED_PROTOCOL_VERSIONS))
                    if c.context.protocol_version != mc.SUPPORTED_PROTOCOL_VERSIONS[-1] and \
                            mc.PROTOCOL_VERSION_INDICES[c.context.protocol_version] != max(mc.PROTOCOL_VERSION_INDICES[p] for p in mc.SUPPORTED_PROTOCOL_VERSIONS):
                        chk.violation('versions:dynamic:latest', 'Connection picks %r as the latest supported version after %s'
                                      % (c.context.protocol_version, json.dumps(row['hist'])), {'row': row})
                except Exception as e:      # noqa
                    if mc.SUPPORTED_PROTOCOL_VERSIONS:
                        chk.violation('versions:dynamic:latest', 'constructing a Connection after %s raised %r' % (json.dumps(row['hist']), e), {'row': row})
            if k == len(rows) // 2:
                chk.sample({'history': row['hist'], 'supP': want['supP'], 'knownP': want['knownP']})
    finally:
        mc.KNOWN_MINECRAFT_VERSION_RECORDS = saved_obj
        mc.KNOWN_MINECRAFT_VERSION_RECORDS[:] = saved
        mc.initglobals(use_known_records=True)
    if snapshot(mc) != snap:
        chk.violation('versions:restore', 're-initialising from the original records does not restore the original tables', {})
    chk.extra['behaviours_replayed'] = len(rows)
    chk.assumptions += ['release ids are recognised with the regular expression the property implies, written in the harness',
                        'dynamic part: base list of 3 records, pool of 4 new records + 2 direct supported entries, histories of <= 3 (quick) / 4 (thorough) operations']
    return chk.finish(
        rule='static: every ordered pair of known protocols x 6 predicate variants (TLC ASSUMEs on the matrices), in_range on '
             'all (start, end) x boundary thirds (all triples in thorough); dynamic: every reachable state of Versions.tla '
             '(all histories of extend / extend-supported / re-initialise) replayed into the real module; distinct by pair / history')
