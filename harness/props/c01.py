"""C01 - the framed packet stream survives any threshold, cipher and read segmentation.

Model: specs/Framing.tla (read_packet statement by statement against arrivals of
any size and a cut at any offset), exhaustive for small streams; emitted
behaviours (stream shape, arrival pattern, cut) are concretised by the
independent encoder and fed through the virtual socket into the real client
(S->I).  Large runs - payload sizes around every threshold, thresholds
{off,0,1,64,256,n}, cipher on/off, every single cut, all pairs of cuts for short
streams, 1-byte reads, random partitions - are recorded and judged by the
contract specs/Trace_Framing.tla in TLC (I->S).  The write direction runs the
real Connection.write_packet / Packet.write and decodes with the peer.
"""
import json
import os
import random
import re

from .. import core
from ..session import Run, TracingScript
from .. import peer as P
from ..profile import Profile
from . import c10


def cb_plugin_id(prof):
    return prof.cb.play.PluginMessagePacket.get_id(prof.ctx)


def make_packet(prof, rng, kind, size):
    """A clientbound play packet whose payload (id + fields) has exactly `size` bytes (>= 4 for known)."""
    if kind == 'known':
        pid = cb_plugin_id(prof)
        chan = 'v:c'
        head = P.VI(pid) + P.S(chan)
        size = max(size, len(head))
        data = bytes(rng.getrandbits(8) for _ in range(size - len(head)))
        return {'kind': 'known', 'payload': head + data, 'chan': chan, 'data': data}
    # several different ids the library has no class for (the consumer keeps the packet objects and looks at them later)
    known = prof.known_cb_play
    pool = [i for i in (0x7A, 0x7B, 0x7C, 0x7D, 0x7E, 0x7F, 0x80, 0xFF, 0x3FFF) if i not in known] or [prof.unknown_id('play')]
    uid = rng.choice(pool)
    head = P.VI(uid)
    size = max(size, len(head))
    return {'kind': 'unk', 'payload': head + bytes(rng.getrandbits(8) for _ in range(size - len(head))), 'id': uid}


def run_read(version, packets, thr, enc, chunk, total_cut, seed, force_compress=None, cuts=None):
    """Server sends [set-compression] [enc] login-success + packets; the stream is cut after
    `total_cut` bytes of the play part (None: not cut, server then closes cleanly)."""
    from minecraft.networking.packets import Packet
    prof = Profile(version)
    rng = random.Random(seed)
    priv, der = c10.rsa_key(1024)
    info = {'secret': None, 'frames': [], 'play_start': None, 'sess': None}
    if cuts is not None:
        def chunk(avail, want):     # noqa  - reads are chopped at the given offsets of the play part
            sess, base = info['sess'], info['play_start']
            if sess is None or base is None:
                return want
            rel = sess.s2c_total - len(sess.s2c) - base
            nxt = [c for c in cuts if c > rel]
            return max(1, min(want, (nxt[0] - rel) if nxt else want))
    run = Run(seed=seed, chunk=chunk)

    def factory(idx, sess):
        sc = TracingScript(run, prof, [])
        sent = info['frames']
        info['sess'] = sess

        def emit(desc):
            def fn(s):
                data = P.frame(desc['payload'], s.threshold, force_compress)
                before = s.session.s2c_total
                s.raw(data)
                desc['end'] = before + len(data)
                sent.append(desc)
            return ('call', fn)
        steps = [('expect', 2)]
        if enc:
            tok = b'\x01\x02\x03\x04'

            def after_resp(s):
                for p in s.parsed:
                    if p['t'] == 'enc_response':
                        try:
                            info['secret'] = c10.rsa_decrypt(priv, p['secret'])
                        except Exception:       # noqa
                            info['secret'] = b'\0' * 16
                        return True
                return False
            enc_steps = [emit({'kind': 'login', 'name': 'encryption request', 'payload': prof.enc_request('-', der, tok)}),
                         ('wait', after_resp), ('encrypt', lambda s: info['secret'])]
        else:
            enc_steps = []
        comp_steps = [] if thr is None else [emit({'kind': 'login', 'name': 'set compression', 'payload': prof.login_compress(thr)}),
                                             ('compress', thr)]
        # the two optional login steps come in either order (compression may be announced before the encryption request)
        steps += (comp_steps + enc_steps) if seed % 2 else (enc_steps + comp_steps)
        steps += [emit({'kind': 'login', 'name': 'login success', 'payload': prof.login_success(bytes(range(16)), 'verif')}),
                  ('call', lambda s: (setattr(s, 'state', 'play'), info.__setitem__('play_start', s.session.s2c_total)))]

        def send_play(s):
            blob = b''.join(P.frame(d['payload'], s.threshold, force_compress) for d in packets)
            off = s.session.s2c_total
            for d in packets:
                off += len(P.frame(d['payload'], s.threshold, force_compress))
                d['end'] = off
                sent.append(d)
            if total_cut is not None:
                blob = blob[:total_cut]
            info['total'] = s.session.s2c_total + len(blob)
            s.raw(blob) if blob else None
            s.session.close()
        steps.append(('call', send_play))
        sc.steps = steps
        return sc
    run.serve(factory)
    delivered = []

    def scenario(run):
        c = run.make_connection(allowed_versions={version})

        def on_packet(p):
            sess = run.scripts[0].session
            delivered.append(p)
            run.sched.log('deliver', i=len(delivered), off=sess.s2c_total - len(sess.s2c))
        c.register_packet_listener(on_packet, Packet)
        c.connect()
    run.go(scenario)
    # ---- build the trace
    frames = info['frames']
    ev = []
    for e in run.sched.events:
        if e['ev'] == 'read' and e.get('got', -1) >= 0:
            ev.append({'k': 'read', 'want': e['want'] if e['want'] is not None and e['want'] >= 0 else 1 << 30,
                       'got': e['got'], 'off': e.get('off', -1)})
        elif e['ev'] == 'deliver':
            i = e['i']
            ok = False
            if i <= len(frames):
                d = frames[i - 1]
                p = delivered[i - 1]
                if d['kind'] == 'login':
                    ok = getattr(p, 'packet_name', None) == d['name']
                elif d['kind'] == 'known':
                    ok = type(p).__name__ == 'PluginMessagePacket' and p.channel == d['chan'] and p.data == d['data']
                else:
                    ok = type(p) is Packet and p.id == d['id']
            ev.append({'k': 'deliver', 'i': i, 'off': e['off'], 'ok': bool(ok)})
    # fix read offsets for empty reads
    consumed = 0
    for x in ev:
        if x['k'] == 'read':
            if x['off'] < 0:
                x['off'] = consumed
            consumed = x['off'] + x['got']
    if run.errors or run.outcome in ('done',):
        ev.append({'k': 'left', 'how': type(run.errors[-1]).__name__ if run.errors else 'exit'})
    tr = {'ends': [d['end'] for d in frames], 'total': info.get('total', 0), 'ev': ev, 'mustLeave': True,
          'meta': {'version': version, 'thr': thr, 'enc': enc, 'cut': total_cut, 'outcome': run.outcome,
                   'errors': [type(x).__name__ for x in run.errors]}}
    return run, tr, delivered


def fill_bytes(rng, n, fill):
    """n bytes of the given compressibility: 'random' (incompressible), 'zeros', 'text' (repeating), 'mixed' (half/half)."""
    if fill == 'zeros':
        return bytes(n)
    if fill == 'text':
        return (b'the quick brown fox ' * (n // 20 + 1))[:n]
    if fill == 'mixed':
        k = n // 2
        return bytes(rng.getrandbits(8) for _ in range(k)) + bytes(n - k)
    return bytes(rng.getrandbits(8) for _ in range(n))


def run_write(version, sizes, thr, enc, seed, forced_mask=0, fills=None):
    """The real client writes serverbound plugin messages of the given payload sizes; the peer decodes."""
    from minecraft.networking.packets import serverbound
    prof = Profile(version)
    rng = random.Random(seed)
    priv, der = c10.rsa_key(1024)
    run = Run(seed=seed)
    info = {'secret': None}
    holder = {}

    def factory(idx, sess):
        sc = TracingScript(run, prof, [])
        steps = [('expect', 2)]
        if enc:
            def after_resp(s):
                for p in s.parsed:
                    if p['t'] == 'enc_response':
                        info['secret'] = c10.rsa_decrypt(priv, p['secret'])
                        return True
                return False
            enc_steps = [('send', prof.enc_request('-', der, b'tokn')), ('wait', after_resp), ('encrypt', lambda s: info['secret'])]
        else:
            enc_steps = []
        comp_steps = [] if thr is None else [('send', prof.login_compress(thr)), ('compress', thr)]
        steps += (comp_steps + enc_steps) if seed % 2 else (enc_steps + comp_steps)
        steps += [('send', prof.login_success(bytes(range(16)), 'verif')), ('call', lambda s: setattr(s, 'state', 'play')),
                  ('pause', 'end'), ('send', prof.play_disconnect('{"text":"x"}'))]
        sc.steps = steps
        holder['sc'] = sc
        return sc
    run.serve(factory)
    sent = []
    sb_id = serverbound.play.PluginMessagePacket.get_id(prof.ctx)

    def scenario(run):
        c = run.make_connection(allowed_versions={version})
        c.connect()
        run.settle()
        for j, n in enumerate(sizes):
            chan = 'w:%d' % j
            head = len(P.VI(sb_id)) + len(P.S(chan))
            data = fill_bytes(rng, max(0, n - head), fills[j] if fills else 'random')
            pkt = serverbound.play.PluginMessagePacket(channel=chan, data=data)
            sent.append((sb_id, P.S(chan) + data))
            c.write_packet(pkt, force=bool((forced_mask >> j) & 1))
        run.settle()
        holder['sc'].resume('end')
    run.go(scenario)
    sc = holder['sc']
    got = [(fr['id'], fr['body'], fr) for fr in sc.de.frames[2 + (1 if enc else 0):]]
    return run, sent, got, sc


def measure_frame(w, payload, thr, zlib):
    """Fields of one written frame, found without trusting its declared lengths."""
    plv, plb = P.vdec(w, 0)
    rest = w[plb:]
    o = {'n': len(payload), 'thr': -2 if thr is None else thr, 'plv': plv, 'plb': plb, 'written': len(w)}
    if thr is None:
        o.update(dlv=-1, dlb=0, c=len(rest), ok=(rest == payload))
        return o
    dlv, dlb = P.vdec(rest, 0)
    data = rest[dlb:]
    if dlv == 0:
        o.update(dlv=0, dlb=dlb, c=len(data), ok=(data == payload))
        return o
    d = zlib.decompressobj()
    try:
        out = d.decompress(data)
        c = len(data) - len(d.unused_data) if d.eof else len(data) + 1
        ok = d.eof and out == payload
    except zlib.error:
        c, ok = len(data), False
    o.update(dlv=dlv, dlb=dlb, c=c, ok=bool(ok))
    return o


def negative_threshold_scenario(version, seed, enc=False, n=4):
    """After login the connection's options are set to compression enabled / threshold -1 (what a set-compression packet
    carrying -1 leaves behind); the client then writes n packets and the server sends n: all must be recovered."""
    from minecraft.networking.packets import serverbound, clientbound
    prof = Profile(version)
    rng = random.Random(seed)
    priv, der = c10.rsa_key(1024)
    run = Run(seed=seed)
    info, holder = {'secret': None}, {}
    to_client = [(('s:%d' % k), bytes(rng.getrandbits(8) for _ in range(rng.choice([0, 1, 40, 300])))) for k in range(n)]
    cb_id = clientbound.play.PluginMessagePacket.get_id(prof.ctx)

    def factory(idx, sess):
        sc = TracingScript(run, prof, [])
        steps = [('expect', 2)]
        if enc:
            def after_resp(s):
                for p in s.parsed:
                    if p['t'] == 'enc_response':
                        info['secret'] = c10.rsa_decrypt(priv, p['secret'])
                        return True
                return False
            steps += [('send', prof.enc_request('-', der, b'tokn')), ('wait', after_resp), ('encrypt', lambda s: info['secret'])]
        steps += [('send', prof.login_success(bytes(range(16)), 'verif')), ('call', lambda s: setattr(s, 'state', 'play')),
                  ('pause', 'poke'), ('compress', -1)]
        steps += [('send', P.VI(cb_id) + P.S(ch) + data) for ch, data in to_client]
        steps += [('pause', 'end'), ('send', prof.play_disconnect('{"text":"x"}'))]
        sc.steps = steps
        holder['sc'] = sc
        return sc
    run.serve(factory)
    sent, recvd = [], []
    sb_id = serverbound.play.PluginMessagePacket.get_id(prof.ctx)

    def scenario(run):
        c = run.make_connection(allowed_versions={version})
        c.register_packet_listener(lambda p: recvd.append((p.channel, bytes(p.data))), clientbound.play.PluginMessagePacket)
        c.connect()
        run.settle()
        c.options.compression_threshold = -1
        c.options.compression_enabled = True
        holder['sc'].resume('poke')
        for k in range(n):
            data = bytes(rng.getrandbits(8) for _ in range(rng.choice([0, 2, 60, 500])))
            sent.append((sb_id, P.S('c:%d' % k) + data))
            c.write_packet(serverbound.play.PluginMessagePacket(channel='c:%d' % k, data=data), force=bool(k % 2))
        run.settle()
        holder['sc'].resume('end')
    run.go(scenario)
    sc = holder['sc']
    got = [(fr['id'], fr['body']) for fr in sc.de.frames[2 + (1 if enc else 0):]]
    if run.outcome != 'done' or run.errors:
        return False, 'execution %s, errors %r' % (run.outcome, run.errors[:1])
    if sorted(got) != sorted(sent) or sc.de.errors:
        return False, 'the server recovered %d of %d written packets (deframer errors %r)' % (len([g for g in got if g in sent]), len(sent), sc.de.errors[:1])
    if recvd != to_client:
        return False, 'the client delivered %d of %d packets sent in the envelope' % (len([g for g in recvd if g in to_client]), len(to_client))
    return True, ''


def scale_cuts(row, concrete_frames):
    """Map the abstract arrival offsets of a Framing behaviour onto the concrete stream."""
    abs_frames = row['frames']
    a_off, c_off = [0], [0]
    for af, cf in zip(abs_frames, concrete_frames):
        a_off.append(a_off[-1] + af['pl'] + af['body'])
        c_off.append(c_off[-1] + len(cf))
    def conv(o):
        for i, af in enumerate(abs_frames):
            if o <= a_off[i + 1]:
                x = o - a_off[i]
                cf = concrete_frames[i]
                cpl = len(P.venc(len(cf) - 1)) if len(cf) - 1 < 128 else 2
                n, _ = P.vdec(cf, 0)
                cpl = len(P.venc(n))
                if x <= af['pl']:
                    return c_off[i] + min(x, cpl)
                cbody = len(cf) - cpl
                return c_off[i] + cpl + max(1, (x - af['pl']) * cbody // af['body']) if x - af['pl'] < af['body'] else c_off[i + 1]
        return c_off[-1]
    return sorted(set(conv(o) for o in row['cuts'])), conv(row['total']) if row['total'] < a_off[-1] else None


def mc_supported():
    import minecraft
    return set(minecraft.SUPPORTED_PROTOCOL_VERSIONS)


def run(chk):
    mc = core.import_minecraft()
    rng = random.Random(chk.seed)
    quick = chk.tier == 'quick'
    chk.tlc('MC_Framing', 'Framing_exhaustive.cfg')
    chk.tlc('MC_Framing', 'Framing_live.cfg')
    r0 = chk.tlc('MC_Framing', 'Framing_unfixed.cfg', must_pass=False)
    if 'BoundedReadsAfterEof' not in r0.violated:
        raise core.MachineryError('self-test: the pre-fix reader model should violate BoundedReadsAfterEof')
    chk.extra['unfixed_reader_model_violates_BoundedReadsAfterEof'] = True
    r = chk.tlc('MC_Framing', 'Framing_emit.cfg')
    rows = r.printed
    if len(rows) < 500:
        raise core.MachineryError('only %d behaviours' % len(rows))
    traces = []
    versions = [757, 340, 47, 578]

    # ---- S->I: model behaviours, concretised
    step = 3 if quick else 1
    for i, row in enumerate(rows[chk.seed % step::step]):
        version = versions[i % len(versions)]
        prof = Profile(version)
        thr = [None, 0, 64][i % 3]
        enc = (i % 4 == 3)
        packets = []
        for af in row['frames']:
            size = (10 * af['body']) if af['pl'] == 1 else (130 + 100 * af['body'])
            packets.append(make_packet(prof, rng, 'known' if af['known'] else 'unk', size))
        concrete = [P.frame(d['payload'], thr) for d in packets]
        cuts, total = scale_cuts(row, concrete)

        bh = {}
        run_, tr, delivered = run_read_with_cuts(version, packets, thr, enc, cuts, total, chk.seed * 7 + i, bh)
        chk.traces += 1
        chk.case(('model', json.dumps(row['frames']), row['total'], tuple(row['cuts'])))
        n_login = len(tr['ends']) - len(packets)
        n_play = sum(1 for e in tr['ev'] if e['k'] == 'deliver') - n_login
        if n_play != row['delivered']:
            chk.violation('framing:replay:delivered',
                          'stream %s cut at %s with arrivals %s: %d play packets delivered, model says %d (protocol %d, thr %r, enc %r)'
                          % (json.dumps(row['frames']), row['total'], row['cuts'], n_play, row['delivered'], version, thr, enc),
                          {'row': row, 'trace': tr})
        elif not run_.errors or type(run_.errors[-1]).__name__ != row['outcome']:
            chk.violation('framing:replay:outcome', 'reader left with %r, model says %s' % (run_.errors[-1:], row['outcome']),
                          {'row': row, 'trace': tr})
        traces.append(tr)
        if i == 5:
            chk.sample({'model_behaviour': row, 'concrete_cuts': cuts, 'concrete_total': total, 'version': version})

    # ---- I->S: large runs
    n_big = 250 if quick else 3000
    for j in range(n_big):
        version = rng.choice(list(mc.SUPPORTED_PROTOCOL_VERSIONS)) if j % 3 == 0 else rng.choice(versions)
        prof = Profile(version)
        thr = rng.choice([None, 0, 1, 64, 256, 1000])
        enc = rng.random() < 0.4
        t = thr if thr not in (None, 0) else 64
        sizes = [rng.choice([t - 1, t, t + 1, 4, 5, rng.randint(4, 40), rng.randint(100, 4096)]) for _ in range(rng.randint(1, 6))]
        packets = [make_packet(prof, rng, rng.choice(['known', 'known', 'unk']), max(1, s)) for s in sizes]
        mode = j % 5
        if mode == 0:
            chunk = 'one'
        elif mode in (1, 2):
            chunk = 'random'
        else:
            chunk = 'cuts'
        cut_total = None
        if j % 4 == 0:
            full = sum(len(P.frame(d['payload'], thr)) for d in packets)
            cut_total = rng.randint(0, full)
        if chunk == 'cuts':
            full = sum(len(P.frame(d['payload'], thr)) for d in packets)
            cuts = sorted(set(rng.randint(1, max(1, full - 1)) for _ in range(rng.choice([1, 2, 2, 5]))))
            bh = {}
            run_, tr, delivered = run_read_with_cuts(version, packets, thr, enc, cuts, cut_total, chk.seed * 13 + j, bh,
                                                     force_compress=rng.choice([None, None, True]))
        else:
            run_, tr, delivered = run_read(version, packets, thr, enc, chunk, cut_total, chk.seed * 13 + j,
                                           force_compress=rng.choice([None, None, True]))
        chk.traces += 1
        chk.case(('big', j))
        traces.append(tr)
    # short streams: every single cut position and all pairs of cuts
    prof = Profile(757)
    short = [make_packet(prof, rng, 'known', 9), make_packet(prof, rng, 'unk', 3), make_packet(prof, rng, 'known', 8)]
    full = sum(len(P.frame(d['payload'], None)) for d in short)
    pairs = [(a, b) for a in range(1, full) for b in range(a, full)]
    if quick:
        pairs = [p for k, p in enumerate(pairs) if k % 3 == chk.seed % 3]
    for a, b in pairs:
        pk = [dict(d) for d in short]
        run_, tr, delivered = run_read_with_cuts(757, pk, None, False, sorted({a, b}), None, 1, {})
        chk.traces += 1
        chk.case(('cuts', a, b))
        traces.append(tr)
    chk.extra['cut_pairs_on_short_stream'] = len(pairs)
    chk.extra['short_stream_bytes'] = full

    # ---- validate all traces
    shards = 8
    per = (len(traces) + shards - 1) // shards
    for s in range(shards):
        part = traces[s * per:(s + 1) * per]
        if not part:
            continue
        tf = os.path.join(chk.work, 'framing_traces_%d.json' % s)
        with open(tf, 'w') as f:
            json.dump([dict({k: t[k] for k in ('ends', 'total', 'ev', 'mustLeave')}, allDelivered=True) for t in part], f)
        r2 = chk.tlc('Trace_Framing', 'Trace_Framing.cfg', env={'TRACE_FILE': tf}, must_pass=False, workers=4,
                     label='Trace_Framing shard %d' % s)
        if r2.violated:
            m = re.search(r'tid = (\d+)', r2.out)
            m2 = None
            for m2 in re.finditer(r'rejected = "([^"]*)"', r2.out):
                pass
            ml = re.findall(r'\bl = (\d+)', r2.out)
            bad = part[int(m.group(1)) - 1] if m else None
            why = m2.group(1) if m2 and m2.group(1) else ('%s' % r2.violated[0])
            at = int(ml[-1]) if ml else 0
            chk.violation('framing:trace:%s' % re.sub(r'[^a-z]+', '-', why.lower())[:60],
                          'read trace (%r) rejected by Trace_Framing at event %d: %s; events: %r'
                          % (bad and bad['meta'], at, why, bad and bad['ev'][max(0, at - 2):at + 1]), {'trace': bad})
        elif not r2.ok:
            raise core.MachineryError('Trace_Framing failed: %s' % r2.errors[:3])

    # ---- the threshold changes in mid-stream: up to protocol 47 the server may switch compression on in the play state
    from . import c11
    for j in range(9 if quick else 90):
        version = (47, 5, 4)[j % 3]
        if version not in mc_supported():
            continue
        hr = random.Random(chk.seed * 353 + j)
        hist = c11.random_history(hr, hr.randint(6, 30), False)
        k = hr.randrange(1, len(hist) - 1)
        run_, tr, prof_ = c11.execute(version, hist, chk.seed * 359 + j, thr=None, mid_comp=(k, (0, 1, 64)[j % 3]),
                                      chunk=('random', 'one')[j % 2])
        chk.traces += 1
        chk.case(('mid-compress', j))
        sent_ = [e['p'] for e in tr['ev'] if e['k'] == 'srv']
        got_ = [e['p'] for e in tr['ev'] if e['k'] == 'deliver']
        if run_.outcome != 'done' or run_.errors or got_ != sent_:
            chk.violation('framing:mid-stream-compression', 'protocol %d, compression switched on by a play-state set-compression packet in front '
                          'of packet %d of %d: execution %s, errors %r, %d of %d packets recovered in order'
                          % (version, k, len(hist), run_.outcome, run_.errors[:1], sum(1 for a, b in zip(sent_, got_) if a == b), len(sent_)),
                          {'version': version, 'k': k})

    # ---- a negative threshold in force on a live connection (compression enabled, threshold -1: every frame carries the
    #      data-length field and none is compressed): writer and reader of the same connection must agree on it
    for j in range(6 if quick else 40):
        version = rng.choice(versions)
        ok_, why_ = negative_threshold_scenario(version, chk.seed * 383 + j, enc=bool(j % 2), n=3 + j % 4)
        chk.traces += 1
        chk.case(('negative-threshold', j))
        if not ok_:
            chk.violation('framing:negative-threshold', 'compression enabled with threshold -1 on a live connection (protocol %d, cipher %s): %s'
                          % (version, 'on' if j % 2 else 'off', why_), {'version': version})

    # ---- no compression is in force on a fresh socket: a status query after a whole compressed session on the same
    #      Connection object is framed plainly in both directions
    from . import c09
    for j in range(3 if quick else 20):
        v = [757, 340, 47][j % 3]
        why_ = c09.second_query_after_failure(None, v, 'play_comp', chk.seed * 389 + j)
        chk.traces += 1
        chk.case(('status-after-compressed-session', j))
        if why_:
            chk.violation('framing:status-after-compressed-session', 'a compressed session, then status() on the same Connection '
                          '(protocol %d): %s' % (v, why_), {'version': v})

    # ---- write direction
    n_w = 120 if quick else 1500
    wrote = 0
    for j in range(n_w):
        version = rng.choice(versions)
        thr = rng.choice([None, 0, 1, 64, 256])
        enc = rng.random() < 0.4
        t = thr if thr not in (None, 0) else 64
        sizes = [rng.choice([t - 1, t, t + 1, 8, rng.randint(8, 60), rng.randint(200, 3000), 127, 128, 129, 140, 16384 + rng.randint(-2, 40)])
                 for _ in range(rng.randint(1, 5))]
        fills = [rng.choice(['random', 'zeros', 'text', 'mixed']) for _ in sizes]
        run_, sent, got, sc = run_write(version, sizes, thr, enc, chk.seed * 17 + j, forced_mask=rng.getrandbits(5), fills=fills)
        chk.traces += 1
        chk.case(('write', j))
        wrote += len(sent)
        gp = [(g[0], g[1]) for g in got]
        if sorted(gp) != sorted(sent) or sc.de.errors or len(sc.de.buf):
            chk.violation('framing:write:recovered',
                          'peer recovered %d frames (errors %r, %d stray bytes) from %d written packets (thr %r, enc %r, protocol %d)'
                          % (len(got), sc.de.errors[:2], len(sc.de.buf), len(sent), thr, enc, version),
                          {'sizes': sizes, 'fills': fills, 'thr': thr, 'enc': enc, 'version': version})
        else:
            for (_, _, fr) in got:
                if fr['compressed'] and thr is not None and fr['size'] < thr:
                    chk.violation('framing:write:compressed-below-threshold',
                                  'a %d-byte packet was sent compressed under threshold %d' % (fr['size'], thr), {'thr': thr})
                if thr is not None and (fr['compressed'] is True) != (fr['size'] > thr):
                    chk.drift.append({'size': fr['size'], 'thr': thr, 'compressed': fr['compressed']})
    # Packet.write directly with thresholds the wire cannot announce (negative)
    from minecraft.networking.packets import serverbound
    from ..budget import Sink
    for thr in (None, -1, 0, 1, 5, 100):
        for n in (0, 1, 4, 5, 6, 99, 100, 101, 3000):
            pkt = serverbound.play.PluginMessagePacket(channel='a', data=bytes(range(256)) * 12)
            pkt.data = pkt.data[:n]
            pkt.context = Profile(757).ctx
            sink = Sink()
            pkt.write(sink, thr)
            de = P.Deframer()
            de.threshold = thr
            de.feed(sink.value())
            chk.case(('direct', thr, n))
            ok = len(de.frames) == 1 and not de.errors and not de.buf and de.frames[0]['body'] == P.S('a') + pkt.data
            if ok and thr == -1 and de.frames[0]['compressed']:
                ok = False
            if not ok:
                chk.violation('framing:write:direct', 'Packet.write with threshold %r and %d data bytes is not recovered' % (thr, n),
                              {'thr': thr, 'n': n})
    # FrameWriter: the model of the envelope (sizes), then frames of the real writer measured and judged by TLC
    chk.tlc('MC_FrameWriter', 'FrameWriter.cfg')
    rs = chk.tlc('MC_FrameWriter', 'FrameWriter_seeded.cfg', must_pass=False)
    if 'WellFramed' not in rs.violated:
        raise core.MachineryError('self-test: the envelope sized by the compressed length should violate WellFramed')
    if not quick:
        # the envelope laws for ALL sizes (TLC above: boundary sizes): TLAPS proofs of specs/FrameEnvelopeProofs.tla
        import subprocess
        pr = subprocess.run([os.path.join(core.VERIF, 'tools', 'prove.sh'), 'FrameEnvelopeProofs', '600'], capture_output=True, text=True)
        chk.extra['tlaps_FrameEnvelopeProofs'] = pr.stdout.strip().splitlines()[-1:] or ['no output']
        if pr.returncode != 0:
            raise core.MachineryError('TLAPS did not prove FrameEnvelopeProofs: %s' % (pr.stdout + pr.stderr)[-300:])
    import zlib
    obs = []
    sizes_fw = [0, 1, 2, 63, 64, 65, 100, 126, 127, 128, 129, 130, 140, 255, 256, 257, 300, 1000, 16382, 16383, 16384, 16385, 16390, 20000]
    if not quick:
        sizes_fw += [40000, 70000, 2097151 - 3, 2097152, 2097160] + [rng.randint(0, 70000) for _ in range(60)]
    ctx757 = Profile(757).ctx
    for thr in (None, -1, 0, 1, 64, 127, 128, 256, 16384):
        for n in sizes_fw:
            for fill in ('random', 'zeros', 'text', 'mixed'):
                if n > 100000 and fill in ('random', 'mixed'):
                    continue
                body = fill_bytes(rng, max(0, n - 3), fill)
                pkt = serverbound.play.PluginMessagePacket(channel='a', data=body)
                pkt.context = ctx757
                payload = P.VI(pkt.get_id(ctx757)) + P.S('a') + body
                sink = Sink()
                pkt.write(sink, thr)
                w = sink.value()
                o = measure_frame(w, payload, thr, zlib)
                o['fill'] = fill
                obs.append(o)
                chk.case(('fw', thr, n, fill))
    tf3 = os.path.join(chk.work, 'framewriter.json')
    with open(tf3, 'w') as f:
        json.dump([{k: v for k, v in o.items() if k != 'fill'} for o in obs], f)
    r4 = chk.tlc('Trace_FrameWriter', 'Trace_FrameWriter.cfg', env={'TRACE_FILE': tf3}, must_pass=False, workers=1)
    if 'Law' in r4.violated:
        m = re.search(r'\bi = (\d+)', r4.out)
        bad = obs[int(m.group(1)) - 1] if m else None
        chk.violation('framing:write:envelope', 'a frame written by Packet.write violates the envelope contract of Trace_FrameWriter: %r' % (bad,), {'obs': bad})
    elif not r4.ok and not r4.violated:
        raise core.MachineryError('Trace_FrameWriter failed: %s' % r4.errors[:3])
    for p_ in r4.printed:
        if 'drift' in p_:
            chk.drift.append({'envelope-differs-from-model': obs[p_['drift'] - 1]})
    chk.traces += len(obs)
    chk.extra['frames_measured'] = len(obs)
    chk.extra['frames_measured_deflated_into_smaller_varint_class'] = sum(
        1 for o in obs if o['dlv'] > 0 and (o['c'] < 128 <= o['n'] or o['c'] < 16384 <= o['n']))
    chk.extra['packets_written'] = wrote
    chk.extra['model_behaviours_replayed'] = len(rows[chk.seed % step::step])
    chk.extra['large_read_runs'] = n_big
    chk.assumptions += ['zlib (stdlib) as the compression primitive on both sides', 'the peer\'s CFB8 (AES block from cryptography; C18 checks it)']
    return chk.finish(
        rule='model behaviours of Framing (all arrival patterns and cuts of small streams) concretised and replayed; seeded runs with payload '
             'sizes thr-1/thr/thr+1 and up to 4 KiB, thresholds {off,0,1,64,256,1000}, cipher on/off, 1-byte / random / explicit-cut reads, '
             'random cuts; every pair of cut positions of a short 3-frame stream; write direction with queued and forced writes; '
             'distinct by behaviour / run index')


def run_read_with_cuts(version, packets, thr, enc, cuts, total, seed, bh, force_compress=None):
    """run_read with reads chopped at the given offsets (relative to the start of the play part)."""
    return run_read(version, packets, thr, enc, None, total, seed, force_compress, cuts=list(cuts))
