"""C16 - connection lifecycle: one active thread, clean refusal, always reusable.

Model: specs/ConnLifecycle.tla (slots, interrupt flags, socket/file attributes,
user threads calling connect/disconnect, the networking thread's run loop and
exception path step by step, reconnects from listeners and handlers, servers that
accept / refuse / close): all interleavings checked by TLC (invariants, action
properties, liveness); the code as it was before the disconnect() fixes must
fail.  S->I: every single-thread history up to length 4 replayed into the real
object.  I->S: two-thread scenarios under preemption-bounded and seeded random
schedules, validated against the contract specs/Trace_Lifecycle.tla.
"""
import json
import os
import random
import re

from .. import core
from .. import lifecycle, vsched


def validate(chk, traces, label):
    shards = 8
    per = (len(traces) + shards - 1) // shards
    for s in range(shards):
        part = traces[s * per:(s + 1) * per]
        if not part:
            continue
        tf = os.path.join(chk.work, '%s_%d.json' % (label, s))
        with open(tf, 'w') as f:
            json.dump([{'ev': t['ev']} for t in part], f)
        r2 = chk.tlc('Trace_Lifecycle', 'Trace_Lifecycle.cfg', env={'TRACE_FILE': tf}, must_pass=False, workers=4,
                     label='Trace_Lifecycle %s shard %d' % (label, s))
        if r2.violated:
            m = re.search(r'tid = (\d+)', r2.out)
            m2 = None
            for m2 in re.finditer(r'rejected = "([^"]*)"', r2.out):
                pass
            ml = re.findall(r'\bl = (\d+)', r2.out)
            bad = part[int(m.group(1)) - 1] if m else None
            why = m2.group(1) if m2 and m2.group(1) else r2.violated[0]
            at = int(ml[-1]) if ml else 0
            around = [e for e in (bad['ev'][max(0, at - 6):at] if bad else []) if e['k'] != 'io']
            chk.violation('lifecycle:%s' % re.sub(r'[^a-z]+', '-', why.lower())[:70],
                          'execution (spec %s, schedule seed %s) rejected by Trace_Lifecycle at event %d: %s; last events %r'
                          % (json.dumps(bad and bad['spec']), bad and bad.get('seed'), at, why, around),
                          {'spec': bad and bad['spec'], 'seed': bad and bad.get('seed'),
                           'choices': bad and bad.get('choices'), 'events': bad and bad['ev']})
        elif not r2.ok:
            raise core.MachineryError('Trace_Lifecycle failed: %s' % r2.errors[:3])


def interrupted_negotiation(seed, policy):
    """The user ends a connection whose status query (version negotiation) is still unanswered, and connects again: the
    first connection stays ended (its dying thread does not take the end of its stream for a server without status
    support and log in with the default version), and the second one is the user's: status query, then a login with the
    version the server reports.  Returns (run, results of the calls, [(tcp index, protocol, next state)])."""
    from ..session import Run, TracingScript
    from ..profile import Profile
    from .. import peer as P
    run = Run(policy=policy, seed=seed)
    log = []

    def factory(idx, sess):
        sc = TracingScript(run, None, [])

        class Lazy(object):
            def parse(self_, state, fr):
                if state == 'handshake':
                    pv = P.Reader(fr['body']).varint()
                    sc.prof = Profile(pv if pv in (757, 340) else 757)
                return sc.prof.parse(state, fr)
        sc.prof = Lazy()

        def dispatch(s):
            hs = s.parsed[0]
            log.append((idx, hs['protocol'], hs['next']))
            if hs['next'] == 1:
                if idx == 0:
                    s.steps += [('pause', 'never')]             # the first query is not answered in time
                else:
                    s.steps += [('send', s.prof.status_response(P.status_json(protocol=757, name='srv')))]
            else:
                s.steps += [('send', s.prof.login_success(bytes(range(16)), 'verif')), ('call', lambda s_: setattr(s_, 'state', 'play'))]
        sc.steps = [('expect', 2), ('call', dispatch)]
        return sc
    run.serve(factory)
    res = {}

    def scenario(run):
        c = run.make_connection(allowed_versions={757, 340}, initial_version=340)
        res['connect1'] = lifecycle.api(run, c, 'connect')
        run.settle()
        res['disc_now'] = lifecycle.api(run, c, 'disc_now')
        res['connect2'] = lifecycle.api(run, c, 'connect')
        run.settle()
        res['version'] = c.context.protocol_version
        res['disc'] = lifecycle.api(run, c, 'disc')
    run.go(scenario)
    return run, res, log


def reuse_from_status_callback(seed, where, policy=None):
    """A finished status exchange leaves the Connection reusable at once - also for the very callback that receives its
    result: connect() from the status handler of a query without ping, or from the ping handler, is a connect() like any
    other. (Round 11, C16k: a ping handler that runs while the finished connection still counts as active.)
    Returns None or what went wrong."""
    from ..session import Run, TracingScript
    from ..profile import Profile
    from .. import peer as P
    run = Run(policy=policy, seed=seed)
    scripts, res = [], {}

    def factory(idx, sess):
        sc = TracingScript(run, Profile(340), [])
        scripts.append(sc)
        if idx == 0:
            sc.steps = [('expect', 2), ('send', sc.prof.status_response(P.status_json(protocol=340, name='srv')))]
            if where == 'ping':
                sc.steps += [('expect', 3), ('send', lambda s: s.prof.status_pong(s.parsed[2].get('time', 0)))]
        else:
            sc.steps = [('expect', 2), ('send', sc.prof.login_success(bytes(range(16)), 'verif')),
                        ('call', lambda s_: setattr(s_, 'state', 'play'))]
        return sc
    run.serve(factory)

    def scenario(run):
        c = run.make_connection(allowed_versions={340})

        def again(_):
            try:
                c.connect()
                res['connect'] = 'ok'
            except Exception as e:      # noqa
                res['connect'] = '%s: %s' % (type(e).__name__, e)
        if where == 'ping':
            c.status(handle_status=lambda d: None, handle_ping=again)
        else:
            c.status(handle_status=again, handle_ping=False)
        run.settle()
        res['errors'] = list(run.errors)        # (what the final disconnect() does to a thread waiting in select is not at issue here)
        res['disc'] = lifecycle.api(run, c, 'disc')
    run.go(scenario)
    if run.outcome != 'done':
        return 'execution ended as %s' % run.outcome
    if res.get('connect') != 'ok':
        return 'connect() from the %s handler of the finished query: %s' % (where, res.get('connect', 'handler never ran'))
    second = [p['t'] for p in scripts[1].parsed[:2]] if len(scripts) > 1 else None
    if second != ['handshake', 'login_start']:
        return 'the server saw %r on the second connection, not handshake and login start' % (second,)
    if res.get('errors'):
        return 'an error was reported: %r' % (res['errors'][:1],)
    if res.get('disc') not in (None, 'ok', True) and 'Invalid' in str(res.get('disc')):
        return 'the final disconnect(): %r' % (res['disc'],)
    return None


def run(chk):
    core.import_minecraft()
    rng = random.Random(chk.seed)
    quick = chk.tier == 'quick'

    # ---- 1. model checking
    chk.tlc('MC_ConnLifecycle', 'ConnLifecycle_quick.cfg' if quick else 'ConnLifecycle_thorough.cfg', timeout=3000)
    if not quick:
        chk.tlc('MC_ConnLifecycle', 'ConnLifecycle_single6.cfg', timeout=3000)
        # one more thread and socket than the programs of the thorough configuration can use up with handler reconnects
        # (9.1 M distinct states, depth 43, against 7.0 M / 37)
        chk.tlc('MC_ConnLifecycle', 'ConnLifecycle_deep.cfg', timeout=3000)
    chk.tlc('MC_ConnLifecycle', 'ConnLifecycle_live.cfg')
    r0 = chk.tlc('MC_ConnLifecycle', 'ConnLifecycle_unfixed.cfg', must_pass=False)
    if 'DisconnectNeverRaises' not in r0.violated:
        raise core.MachineryError('self-test: the pre-fix model should violate DisconnectNeverRaises')
    chk.extra['prefix_model_violates_DisconnectNeverRaises'] = True
    rh = chk.tlc('MC_ConnLifecycle', 'ConnLifecycle_halfshut.cfg', must_pass=False)
    chk.extra['write_half_only_shutdown_model_violates_InterruptLeadsToTermination'] = 'InterruptLeadsToTermination' in rh.violated
    if 'InterruptLeadsToTermination' not in rh.violated:
        raise core.MachineryError('self-test: with only the write half shut down a thread blocked in a read must never terminate in the model')
    rc = chk.tlc('MC_ConnLifecycle', 'ConnLifecycle_cross.cfg', must_pass=False)
    if 'NoCrossTeardown' not in rc.violated:
        raise core.MachineryError('self-test: the model of the error handling as it was (check outside the lock) should violate NoCrossTeardown')
    chk.extra['check_outside_the_lock_model_violates_NoCrossTeardown'] = True

    # ---- 2. S->I: single-thread histories
    r = chk.tlc('MC_ConnLifecycle', 'ConnLifecycle_emit.cfg')
    allowed = {}
    for row in r.printed:
        res = row['result']['u1']
        key = (tuple(x[0] for x in res), tuple(x[2] for x in res if x[0] == 'connect' and x[2] != '-'))
        allowed.setdefault(tuple(x[0] for x in res), set()).add(tuple((x[1], x[2]) for x in res))
    n_hist = 0
    for ops, outcomes in sorted(allowed.items()):
        if not ops:
            continue
        # every mode assignment that occurs in the model for this program
        mode_seqs = set(tuple(m for (_, m) in o if m != '-') for o in outcomes)
        for modes in sorted(mode_seqs):
            for pol in ('seq', 'rand'):
                spec = {'programs': {'u1': list(ops)}, 'servers': ['idle' if m == 'accept' else 'refuse' for m in modes] + ['idle'] * 4}
                policy = vsched.SequentialPolicy(chk.seed) if pol == 'seq' else vsched.RandomPolicy(chk.seed + n_hist, 0.4)
                run_ = lifecycle.execute(spec, policy, chk.seed + n_hist)
                n_hist += 1
                chk.traces += 1
                chk.case(('hist', ops, modes, pol))
                got = []
                mi = 0
                rets = [e for e in run_.sched.events if e['ev'] == 'api_ret' and e['t'] == 'u1']
                tcps = [e for e in run_.sched.events if e['ev'] == 'tcp_connect']
                ti = 0
                for e in rets:
                    rr = e['r'] if not e['r'].startswith('Raised') else 'Raised'
                    if e['op'] == 'connect' and rr != 'InvalidState':
                        m = modes[mi] if mi < len(modes) else '?'
                        mi += 1
                        got.append((rr, m))
                    else:
                        got.append((rr, '-'))
                ok = any(tuple(got) == o for o in outcomes)
                if not ok:
                    # the model may have taken a different number of TCP attempts: compare results only when modes line up
                    same_results = any(tuple(g[0] for g in got) == tuple(x[0] for x in o) for o in outcomes)
                    if any(g[0] == 'Raised' for g in got):
                        which = [ops[i] for i, g in enumerate(got) if g[0] == 'Raised'][0]
                        chk.violation('lifecycle:history:%s-raised' % which,
                                      'history %s against servers %s: results %r (%r)' % (list(ops), list(modes), got, getattr(run_, 'last_raise', None)),
                                      {'ops': ops, 'modes': modes})
                    elif not same_results:
                        chk.violation('lifecycle:history:results',
                                      'history %s against servers %s: results %r, the model allows %r'
                                      % (list(ops), list(modes), got, sorted(outcomes)[:4]), {'ops': ops, 'modes': modes})
                if n_hist == 40:
                    chk.sample({'history': list(ops), 'servers': list(modes), 'results': got})
    chk.extra['single_thread_histories_replayed'] = n_hist

    # ---- 2b. a negotiation interrupted by the user, then connect() again (seeded schedules)
    n_neg = 160 if quick else 2000
    for j in range(n_neg):
        pol = vsched.SequentialPolicy() if j % 4 == 0 else vsched.RandomPolicy(chk.seed * 1000 + j, switch_prob=(0.05, 0.3, 0.7)[j % 3])
        run_, res_, log_ = interrupted_negotiation(chk.seed * 83 + j, pol)
        chk.traces += 1
        chk.case(('interrupted-negotiation', j))
        want = [(0, 757, 1), (1, 757, 1), (2, 757, 2)]
        calls_ok = all(res_.get(k) == 'ok' for k in ('connect1', 'disc_now', 'connect2', 'disc'))
        if run_.outcome not in ('done', 'quiescent') or not calls_ok or log_ != want or res_.get('version') != 757:
            chk.violation('lifecycle:disconnect-during-status-query', 'disconnect(immediate) while the status query of a negotiating connect() was '
                          'unanswered, then connect() (schedule %d): calls %r, TCP connections (index, protocol, next state) %r - expected %r and a '
                          'login at 757; execution %s' % (j, res_, log_, want, run_.outcome), {'j': j})
    # ---- reuse from the callback that receives the result of a finished status exchange
    for j in range(8 if quick else 80):
        where = ('ping', 'status')[j % 2]
        pol = vsched.SequentialPolicy() if j % 4 < 2 else vsched.RandomPolicy(chk.seed * 1000 + j, switch_prob=(0.05, 0.3, 0.7)[j % 3])
        what = reuse_from_status_callback(chk.seed * 89 + j, where, pol)
        chk.traces += 1
        chk.case(('reuse-from-status-callback', j))
        if what:
            chk.violation('lifecycle:reuse-from-%s-handler' % where, 'status(), and connect() from the %s handler once the exchange is '
                          'over (schedule %d): %s' % (where, j, what), {'j': j, 'where': where})
    chk.extra['interrupted_negotiations'] = n_neg
    # ---- 3. I->S: two-thread scenarios
    traces = []
    # 3a. preemption-bounded exploration of small scenarios
    small = [
        {'programs': {'u1': ['connect', 'disc'], 'u2': ['connect']}, 'servers': ['idle'] * 4},
        {'programs': {'u1': ['connect'], 'u2': ['disc', 'connect']}, 'servers': ['disc', 'idle', 'idle']},
        {'programs': {'u1': ['connect', 'disc_now', 'connect'], 'u2': ['disc']}, 'servers': ['close', 'idle', 'idle']},
        {'programs': {'u1': ['connect', 'connect'], 'u2': ['status']}, 'servers': ['refuse', 'idle', 'idle']},
        {'programs': {'u1': ['connect', 'disc_now', 'connect'], 'u2': ['disc_now']}, 'servers': ['stall', 'idle', 'idle']},
        {'programs': {'u1': ['connect', 'disc', 'connect', 'disc_now'], 'u2': ['connect']}, 'servers': ['stall', 'stall', 'idle']},
        {'programs': {'u1': ['disc', 'connect'], 'u2': ['disc_now']}, 'servers': ['trigger', 'idle', 'idle'],
         'listener_reconnect': True},
        {'programs': {'u1': ['connect'], 'u2': ['connect', 'disc']}, 'servers': ['close', 'idle', 'idle'],
         'handler_reconnect': True},
        {'programs': {'u1': ['connect'], 'u2': ['status']}, 'servers': ['disc', 'keepalive', 'idle'],
         'listener_reconnect': True, 'relisten_on_disc': True, 'early': True},
    ]
    bound = 1 if quick else 2
    cap = 250 if quick else 3000
    n_pb = 0
    for spec in small:
        frontier = [[]]
        seen = set()
        count = 0
        while frontier and count < cap:
            prefix = frontier.pop()
            pol = vsched.PreemptionBoundedPolicy(prefix, env_seed=chk.seed)
            run_ = lifecycle.execute(spec, pol, chk.seed)
            count += 1
            n_pb += 1
            chk.traces += 1
            trail = [c for (_, c, _) in pol.trail]
            key = tuple(trail)
            if key in seen:
                continue
            seen.add(key)
            chk.case(('pb', json.dumps(spec, sort_keys=True), key))
            traces.append({'ev': lifecycle.lifecycle_events(run_), 'spec': spec, 'seed': 'pb', 'choices': trail})
            if run_.outcome not in ('done', 'quiescent'):
                chk.violation('lifecycle:outcome:%s' % run_.outcome, 'scenario %s under schedule %r ended as %s'
                              % (json.dumps(spec), trail[:40], run_.outcome), {'spec': spec, 'choices': trail})
            # children: one more preemption somewhere after the prefix
            used = sum(1 for i in range(len(prefix)) if i < len(pol.trail) and pol.trail[i][2] is not None
                       and pol.trail[i][2] in pol.trail[i][0] and prefix[i] != pol.trail[i][2])
            if used < bound:
                for i in range(len(prefix), min(len(pol.trail), 400)):
                    opts, chosen, cur = pol.trail[i]
                    for alt in opts:
                        if alt != chosen:
                            frontier.append(trail[:i] + [alt])
    chk.extra['preemption_bounded_executions'] = n_pb
    # 3b. seeded random schedules over random scenarios
    n_rand = 1500 if quick else 30000
    for j in range(n_rand):
        r_ = random.Random(chk.seed * 1000003 + j)
        spec = lifecycle.random_spec(r_)
        sp = r_.choice([0.05, 0.2, 0.5, 0.8])
        run_ = lifecycle.execute(spec, vsched.RandomPolicy(chk.seed * 77 + j, switch_prob=sp), j)
        chk.traces += 1
        chk.case(('rand', j))
        traces.append({'ev': lifecycle.lifecycle_events(run_), 'spec': spec, 'seed': chk.seed * 77 + j})
        if run_.outcome not in ('done', 'quiescent'):
            chk.violation('lifecycle:outcome:%s' % run_.outcome, 'scenario %s (seed %d) ended as %s'
                          % (json.dumps(spec), chk.seed * 77 + j, run_.outcome), {'spec': spec})
    validate(chk, traces, 'lifecycle')
    chk.sample({'scenario': traces[-1]['spec'], 'events': [e for e in traces[-1]['ev'] if e['k'] != 'io'][:14]})
    chk.extra['random_schedule_executions'] = n_rand
    chk.assumptions += ['API bodies are atomic in the model because the code holds the write lock throughout them',
                        'InvalidState-iff-active is judged on the object\'s own slot / interrupt state read when the call acquires the lock; '
                        'staleness of that state is judged against thread start/end events',
                        'CPython attribute reads/writes are atomic; preemption happens at lock, socket, file, select, queue and thread operations']
    return chk.finish(
        rule='model: all interleavings of 2 user threads x <= 2 calls (thorough adds the full reaction set and single histories of 4-6 calls); '
             'S->I: every single-thread history <= 4 x server mode assignment x 2 schedules; I->S: preemption-bounded schedules of 6 small '
             'two-thread scenarios + seeded random schedules over random scenarios (calls, servers, reconnecting listeners/handlers); '
             'distinct by history / schedule')
