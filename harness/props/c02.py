"""C02 - primitive wire types encode and decode exactly as the protocol prescribes.

Spec: specs/Wire.tla (reference encoders), specs/WireCases.tla (case generator
as a transition system).  TLC emits (type, value, reference bytes, admissible
alternatives) rows; each is replayed into types/basic.py: send must give the
bytes, read must give the value back consuming exactly the encoding, and every
strict prefix of a self-delimiting encoding must raise.  Seeded random wide
values go the other way (I->S): the code's bytes are recomputed by TLC.
"""
import json
import math
import os
import random
import re
import struct

from .. import core
from ..budget import run_with_budget, CountingStream, Sink, open_stream, STREAM_KINDS

_rot = [0]

INT_TYPES = {'Byte': (1, True), 'UnsignedByte': (1, False), 'Short': (2, True),
             'UnsignedShort': (2, False), 'Integer': (4, True), 'Long': (8, True),
             'UnsignedLong': (8, False)}
FW = {'Float': (23, 127, 8), 'Double': (52, 1023, 11)}


_FIXED = {}


def type_obj(T, ty):
    t = ty[0]
    if t == 'FixedPoint':
        # the instance is made once and kept (as a packet definition keeps it); other scales over the same integer type
        # come and go in between: each instance owns its scale
        key = (id(T), ty[1], ty[2])
        if key not in _FIXED:
            _FIXED[key] = T.FixedPoint(getattr(T, ty[1]), ty[2])
        T.FixedPoint(getattr(T, ty[1]), 12 if ty[2] != 12 else 5)
        return _FIXED[key]
    if t == 'PrefixedArray':
        return T.PrefixedArray(getattr(T, ty[1]), type_obj(T, ty[2]))
    return getattr(T, t)


def pyval(ty, v):
    """Abstract (spec) value -> Python value."""
    t = ty[0]
    if t in INT_TYPES:
        n = int.from_bytes(bytes(v['m']), 'big')
        return -n if v['s'] else n
    if t == 'Boolean':
        return bool(v)
    if t in ('VarInt', 'VarLong'):
        return core.unlimbs(v)
    if t in FW:
        fw, bias, _ = FW[t]
        sign = -1.0 if v['s'] else 1.0
        F = 0
        for i, bit in enumerate(v['f']):
            F |= bit << (fw - 1 - i)
        if v['cls'] == 'zero':
            return sign * 0.0
        if v['cls'] == 'inf':
            return sign * math.inf
        if v['cls'] == 'nan':
            return math.nan
        if v['cls'] == 'sub':
            return sign * math.ldexp(F, 1 - bias - fw)
        return sign * math.ldexp((1 << fw) + F, v['e'] - fw)
    if t == 'String':
        return ''.join(chr(c) for c in v)
    if t in ('ShortPrefixedByteArray', 'VarIntPrefixedByteArray', 'TrailingByteArray'):
        return bytes(v)
    if t == 'UUID':
        return ''.join(chr(c) for c in v['txt'])
    if t == 'Angle':
        return v * 360 / 2048
    if t == 'FixedPoint':
        return (2 * v[0] + v[1]) / 2 ** (ty[2] + 1)
    if t == 'PrefixedArray':
        return [pyval(ty[2], e) for e in v]
    if t == 'Position':
        from minecraft.networking.types import Position
        return Position(*v)
    raise core.MachineryError('unknown type %r' % (ty,))


def same(ty, a, b):
    t = ty[0]
    if t in FW:
        if not isinstance(a, float) or not isinstance(b, float):
            return False
        return struct.pack('>d', a) == struct.pack('>d', b) or (a != a and b != b)
    if t == 'PrefixedArray':
        return isinstance(a, list) and len(a) == len(b) and all(same(ty[2], x, y) for x, y in zip(a, b))
    if t == 'Boolean':
        return a is b
    return type(a) == type(b) and a == b


def self_delimiting(ty):
    return ty[0] != 'TrailingByteArray' and not (ty[0] == 'PrefixedArray' and not self_delimiting(ty[2]))


def tname(ty):
    if ty[0] == 'FixedPoint':
        return 'FixedPoint(%s,%d)' % (ty[1], ty[2])
    if ty[0] == 'PrefixedArray':
        return 'PrefixedArray(%s,%s)' % (ty[1], tname(ty[2]))
    return ty[0]


def do_send(obj, val, ctx):
    sink = Sink()
    kind, r = run_with_budget(lambda: obj.send_with_context(val, sink, ctx), 400000)
    if kind == 'ok':
        return 'bytes', sink.value()
    return kind, r


def do_read(obj, data, ctx):
    # the stream kinds the decoders meet in the library rotate: socket-file stand-in, PacketBuffer, BytesIO
    _rot[0] += 1
    stream, st = open_stream(STREAM_KINDS[_rot[0] % 3], data)
    kind, r = run_with_budget(lambda: obj.read_with_context(stream, ctx), 400000)
    return kind, r, st.pos


def prefix_lengths(n):
    if n <= 80:
        return range(n)
    s = set(range(40)) | set(range(n - 24, n)) | set(range(40, n, max(1, n // 37)))
    return sorted(s)


def malformed_inputs(chk, T, ctx):
    """Feeds the decoders input no encoder produces (text cut inside a character, stray continuation bytes, lengths
    beyond the data, bad booleans / UUID text).  The outcome of those decodes is not judged; what is judged is that
    nothing lingers: a valid encoding decoded right afterwards (and the valid rows that follow) reads as before."""
    bad = [(T.String, b'\x03ab\xc3'), (T.String, b'\x02\xe2\x82'), (T.String, b'\x01\x80'), (T.String, b'\x04\xf0\x9f\x98'),
           (T.String, b'\x05ab'), (T.VarInt, b'\xff\xff\xff\xff\xff\xff\xff'), (T.VarIntPrefixedByteArray, b'\x09abc'),
           (T.UUID, b'\x00' * 7), (T.Boolean, b''), (T.Double, b'\x7f\xf8')]
    good = [(T.String, b'\x02ab', 'ab'), (T.String, b'\x05\xc3\xa9\xe2\x82\xac', '\xe9\u20ac'), (T.VarInt, b'\xac\x02', 300),
            (T.String, b'\x00', '')]
    for n, (ty, data) in enumerate(bad):
        for kind in ('packetbuffer', 'counting'):
            stream, _ = open_stream(kind, data)
            run_with_budget(lambda: ty.read_with_context(stream, ctx), 20000)
            for gty, gdata, want in good:
                gs, _ = open_stream(kind, gdata + b'\x55')
                got = run_with_budget(lambda: gty.read_with_context(gs, ctx), 20000)
                got = got[1] if got[0] == 'ok' else '%s %r' % got
                if got != want or gs.read(2) != b'\x55':
                    chk.violation('%s.read:after-malformed-input' % gty.__name__,
                                  'after %s.read was given the malformed input %s, the valid encoding %s decoded as %r (expected %r)'
                                  % (ty.__name__, data.hex(), gdata.hex(), got, want), {'malformed': data.hex(), 'then': gdata.hex()})
                    return


def replay_row(chk, T, ctx, row, stats):
    ty, v, b = row['ty'], row['v'], bytes(row['b'])
    alts = [bytes(a) for a in row['alt']]
    obj = type_obj(T, ty)
    name = tname(ty)
    val = pyval(ty, v)
    short = repr(val) if len(repr(val)) < 70 else repr(val)[:60] + '...'
    # -- send
    kind, out = do_send(obj, val, ctx)
    if kind != 'bytes':
        chk.violation('%s.send:%s' % (name, 'diverges' if kind == 'diverges' else 'raises'),
                      '%s.send(%s) %s: %r' % (name, short, kind, out), {'row': row})
    elif out not in alts:
        chk.violation('%s.send:bytes' % name,
                      '%s.send(%s) = %s, protocol prescribes %s' % (name, short, out[:40].hex(), b[:40].hex()),
                      {'row': row, 'observed': list(out)})
    elif out != b:
        chk.drift.append({'type': name, 'value': short, 'observed': out.hex(), 'model': b.hex()})
    # -- read of the reference encoding (plus a sentinel that must stay unread)
    sentinel = b'' if not self_delimiting(ty) else b'\xa5\x5a'
    kind, got, pos = do_read(obj, b + sentinel, ctx)
    if kind != 'ok':
        chk.violation('%s.read:%s' % (name, kind), '%s.read(%s) %s: %r' % (name, b[:40].hex(), kind, got),
                      {'row': row})
    else:
        if ty[0] == 'Angle':
            exp_ok = isinstance(got, (int, float)) and got == 360 * b[0] / 256
        elif ty[0] == 'FixedPoint':
            w = INT_TYPES[ty[1]][0]
            exp_ok = got == int.from_bytes(b, 'big', signed=True) / 2 ** ty[2] and \
                abs(got - val) < 1 / 2 ** ty[2]
        else:
            exp_ok = same(ty, got, val)
        if not exp_ok:
            chk.violation('%s.read:value' % name,
                          '%s.read(%s) = %r, expected %s' % (name, b[:40].hex(), got if len(repr(got)) < 80 else '...', short),
                          {'row': row})
        elif pos != len(b):
            chk.violation('%s.read:consumed' % name,
                          '%s.read consumed %d of %d encoded bytes' % (name, pos, len(b)), {'row': row})
    # -- strict prefixes must raise
    if self_delimiting(ty):
        for k in prefix_lengths(len(b)):
            stats['prefixes'] += 1
            kind, got, pos = do_read(obj, b[:k], ctx)
            if kind == 'ok':
                chk.violation('%s.read:truncated-returns' % name,
                              '%s.read of %d-byte prefix %s of a %d-byte encoding returned %r instead of raising'
                              % (name, k, b[:k][:24].hex(), len(b), got if len(repr(got)) < 60 else '...'),
                              {'row': row, 'prefix_len': k})
                break
            if kind == 'diverges':
                chk.violation('%s.read:truncated-diverges' % name,
                              '%s.read of a %d-byte prefix does not terminate' % (name, k), {'row': row})
                break


# ---------------------------------------------------------------- I->S random observations

def int_abs(n):
    m = list(abs(n).to_bytes((abs(n).bit_length() + 7) // 8, 'big'))
    return {'s': 1 if n < 0 else 0, 'm': m}


def float_abs(x, t):
    fw, bias, ew = FW[t]
    if x != x:
        return {'cls': 'nan', 's': 0, 'e': 0, 'f': []}
    s = 1 if math.copysign(1.0, x) < 0 else 0
    a = abs(x)
    if a == 0:
        return {'cls': 'zero', 's': s, 'e': 0, 'f': []}
    if a == math.inf:
        return {'cls': 'inf', 's': s, 'e': 0, 'f': []}
    m, e = math.frexp(a)          # a = m * 2^e, 0.5 <= m < 1
    e -= 1                        # a = (2m) * 2^e, 1 <= 2m < 2
    if e < 1 - bias:              # subnormal
        F = int(math.ldexp(a, bias - 1 + fw))
        assert math.ldexp(F, 1 - bias - fw) == a
        return {'cls': 'sub', 's': s, 'e': 0, 'f': [(F >> (fw - 1 - i)) & 1 for i in range(fw)]}
    F = int(math.ldexp(2 * m - 1, fw))
    assert math.ldexp((1 << fw) + F, e - fw) == a
    return {'cls': 'normal', 's': s, 'e': e, 'f': [(F >> (fw - 1 - i)) & 1 for i in range(fw)]}


def random_obs(T, ctx, rng, n):
    obs = []
    for i in range(n):
        k = i % 9
        if k == 0:
            ty = ['Integer']; val = rng.randint(-2 ** 31, 2 ** 31 - 1); v = int_abs(val)
        elif k == 1:
            ty = ['Long']; val = rng.randint(-2 ** 63, 2 ** 63 - 1); v = int_abs(val)
        elif k == 2:
            ty = ['UnsignedLong']; val = rng.getrandbits(64); v = int_abs(val)
        elif k == 3:
            ty = ['Float']
            val = struct.unpack('>f', struct.pack('>I', rng.getrandbits(32)))[0]
            if val != val:
                val = 1.5
            v = float_abs(val, 'Float')
        elif k == 4:
            ty = ['Double']
            val = struct.unpack('>d', struct.pack('>Q', rng.getrandbits(64)))[0]
            if val != val:
                val = -2.75
            v = float_abs(val, 'Double')
        elif k == 5:
            ty = ['String']
            cps = []
            for _ in range(rng.randint(0, 40)):
                c = rng.choice([rng.randint(0, 127), rng.randint(128, 2047), rng.randint(2048, 65535),
                                rng.randint(65536, 1114111)])
                if 0xD800 <= c <= 0xDFFF:
                    c = 0x20AC
                cps.append(c)
            val = ''.join(map(chr, cps)); v = cps
        elif k == 6:
            ty = [rng.choice(['VarIntPrefixedByteArray', 'ShortPrefixedByteArray'])]
            val = bytes(rng.getrandbits(8) for _ in range(rng.choice([0, 3, 130, 300])))
            v = list(val)
        elif k == 7:
            ty = ['PrefixedArray', rng.choice(['VarInt', 'Short', 'Integer']), ['Long']]
            val = [rng.randint(-2 ** 63, 2 ** 63 - 1) for _ in range(rng.randint(0, 5))]
            v = [int_abs(x) for x in val]
        else:
            ty = ['UUID']
            raw = bytes(rng.getrandbits(8) for _ in range(16))
            h = raw.hex()
            val = '%s-%s-%s-%s-%s' % (h[:8], h[8:12], h[12:16], h[16:20], h[20:])
            v = {'by': list(raw), 'txt': [ord(c) for c in val]}
        obj = type_obj(T, ty)
        kind, out = do_send(obj, val, ctx)
        ok = False
        outb = []
        if kind == 'bytes':
            outb = list(out)
            k2, got, pos = do_read(obj, out + b'\x00', ctx)
            ok = k2 == 'ok' and pos == len(out) and same(ty, got, val)
        obs.append({'ty': ty, 'v': v, 'b': outb, 'ok': ok, 'note': '%s %r' % (kind, val if len(repr(val)) < 60 else '')})
    return obs


def run(chk):
    core.import_minecraft()
    from minecraft.networking import types as T
    from minecraft.networking.connection import ConnectionContext
    ctx = ConnectionContext(protocol_version=757)
    rng = random.Random(chk.seed)

    r = chk.tlc('MC_Wire_%s' % chk.tier, 'Wire_cases.cfg')
    rows = r.printed
    if len(rows) < 100000:
        raise core.MachineryError('TLC emitted only %d rows' % len(rows))
    stats = {'prefixes': 0}
    per_type = {}
    for i, row in enumerate(rows):
        name = tname(row['ty'])
        per_type[name] = per_type.get(name, 0) + 1
        chk.case((name, json.dumps(row['v'], sort_keys=True)[:200], len(row['b'])))
        chk.traces += 1
        if i % 997 == 5:
            malformed_inputs(chk, T, ctx)   # whatever a decoder made of malformed input must not affect later decodes
        replay_row(chk, T, ctx, row, stats)
        if per_type[name] == 3 and len(row['b']) < 40:
            chk.sample({'type': name, 'value': row['v'], 'bytes': bytes(row['b']).hex()}, limit=12)

    n = 4000 if chk.tier == 'quick' else 60000
    obs = random_obs(T, ctx, rng, n)
    tf = os.path.join(chk.work, 'wire_obs.json')
    with open(tf, 'w') as f:
        json.dump([{k: o[k] for k in ('ty', 'v', 'b', 'ok')} for o in obs], f)
    r2 = chk.tlc('Trace_Wire', 'Trace_Wire.cfg', env={'TRACE_FILE': tf}, must_pass=False)
    if r2.violated:
        m = re.search(r'tid = (\d+)', r2.out)
        bad = obs[int(m.group(1)) - 1] if m else None
        chk.violation('%s:random(%s)' % (tname(bad['ty']) if bad else '?', r2.violated[0]),
                      'observation rejected by Trace_Wire: %r' % (bad,), {'observation': bad})
    elif not r2.ok:
        raise core.MachineryError('Trace_Wire failed: %s' % r2.errors[:3])
    else:
        chk.traces += len(obs)
        for j in range(len(obs)):
            chk.case(('rand', j))
    chk.extra['rows_per_type'] = per_type
    chk.extra['strict_prefixes_checked'] = stats['prefixes']
    chk.extra['random_observations'] = len(obs)
    chk.extra['not_covered'] = ['strings/arrays at the 3-byte VarInt boundary of 2^21 bytes',
                                'NaN payloads other than the canonical quiet NaN', 'NBT (opaque external codec)']
    chk.assumptions += ['Python float arithmetic (ldexp/frexp) carries float values across the boundary exactly',
                        'for encodings longer than 80 bytes strict prefixes are sampled (first 40, last 24, ~37 in between)']
    return chk.finish(
        rule='rows = terminal states of WireCases: exhaustive Boolean/Byte/UnsignedByte/Short/UnsignedShort, '
             'all angle steps in 1/8 quantum resolution over several turns, boundary sets for wide ints and floats, '
             'strings of every UTF-8 width and lengths around 127/128 and 16383/16384 bytes, byte arrays, UUIDs, '
             'fixed point, nested arrays; + seeded random wide values validated by TLC; distinct by (type, value)')
