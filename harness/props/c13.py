"""C13 - listeners fire in documented order, once each; ignore stops later stages.

Model: specs/Dispatch.tla, exhaustive over listener configurations (four lists,
filters from a class poset, ignore flags) x packet histories x batch mode x
state (login / play); a seeded sample of the behaviours (all of them in the
thorough tier's budget) is replayed into a real Connection (S->I).  Larger
random configurations are run against the code and validated by running the
model from the recorded configuration in TLC (I->S, Trace_Dispatch).
"""
import json
import os
import random
import re

from .. import core
from ..session import Run, TracingScript
from .. import peer as P
from ..profile import Profile

THR0 = 5000          # set-compression thresholds are THR0 + position: frames stay plain inside the envelope
VERSIONS = {'play': [757, 340, 47, 498], 'login': [757, 404, 578]}


class _Holder(object):
    def __init__(self, fn):
        self.fn = fn

    def on_packet(self, pkt):
        return self.fn(pkt)


def execute(row, seed, version=None, share=False):
    from minecraft.networking.packets import Packet, AbstractKeepAlivePacket, clientbound as cb, serverbound as sb
    from minecraft.exceptions import IgnorePacket
    st = row['st']
    rng = random.Random(seed)
    hist = row['hist']
    version = version or (47 if (st == 'play' and 'C' in hist) else rng.choice(VERSIONS[st]))
    prof = Profile(version)
    if st == 'play':
        cls = {'Packet': (Packet,), 'Abs': (AbstractKeepAlivePacket,), 'A': (cb.play.KeepAlivePacket,),
               'RA': (sb.play.KeepAlivePacket,), 'B': (cb.play.TimeUpdatePacket,), 'D': (cb.play.DisconnectPacket,),
               'C': (cb.play.SetCompressionPacket,)}
    else:
        cls = {'Packet': (Packet,), 'Abs': (cb.login.PluginRequestPacket, sb.login.PluginResponsePacket),
               'A': (cb.login.PluginRequestPacket,), 'RA': (sb.login.PluginResponsePacket,),
               'B': (cb.login.EncryptionRequestPacket,), 'D': (cb.login.LoginSuccessPacket,),
               'C': (cb.login.SetCompressionPacket,)}

    def kind_occ(pkt):
        if type(pkt) is Packet:
            return 'U', pkt.id - uid0 + 1 if st == 'play' or True else 0
        n = getattr(pkt, 'packet_name', '')
        if isinstance(pkt, cb.play.KeepAlivePacket) and st == 'play':
            return 'A', pkt.keep_alive_id
        if isinstance(pkt, sb.play.KeepAlivePacket) and st == 'play':
            return 'RA', pkt.keep_alive_id
        if isinstance(pkt, cb.play.TimeUpdatePacket) and st == 'play':
            return 'B', pkt.world_age
        if isinstance(pkt, cb.play.DisconnectPacket) and st == 'play':
            return 'D', len(hist)
        if isinstance(pkt, (cb.login.SetCompressionPacket, cb.play.SetCompressionPacket)):
            return 'C', pkt.threshold - THR0
        if isinstance(pkt, cb.login.PluginRequestPacket):
            return 'A', pkt.message_id
        if isinstance(pkt, sb.login.PluginResponsePacket):
            return 'RA', pkt.message_id
        if isinstance(pkt, cb.login.LoginSuccessPacket):
            return 'D', len(hist)
        return '?' + n, 0
    # unknown ids: one distinct unknown id per position so that the occurrence is recoverable
    known = prof.known_cb_play if st == 'play' else prof.known_cb_login
    uid0 = 0x60
    while any((uid0 + j) in known for j in range(len(hist) + 1)):
        uid0 += 1

    def matches(l, kind):
        cl = {'A': {'Packet', 'Abs', 'A'}, 'B': {'Packet', 'B'}, 'U': {'Packet'}, 'D': {'Packet', 'D'}, 'C': {'Packet', 'C'}}[kind]
        return bool(set(l['f']) & cl)
    # an early listener that ignores the set-compression packet keeps the reaction from happening: the peer stays plain
    def c_suppressed(k):
        return any(l['ig'] and matches(l, 'C') and not (l.get('late') and k <= row.get('lateK', 0)) for l in row['EI'])

    def payload(k, kind):
        if kind == 'C':
            return P.VI(prof.c['play_compress' if st == 'play' else 'login_compress']) + P.VI(THR0 + k)
        if st == 'play':
            if kind == 'A':
                return prof.keep_alive(k)
            if kind == 'B':
                return prof.time_update(k, 1)
            if kind == 'U':
                return P.VI(uid0 + k - 1) + b'\x01\x02\x03'
            return prof.play_disconnect('{"text":"x"}')
        if kind == 'A':
            return prof.plugin_request(k, 'verif:x', b'zz')
        if kind == 'U':
            return P.VI(uid0 + k - 1) + b'\x09'
        return prof.login_success(bytes(range(16)), 'verif')
    run = Run(seed=seed)
    holder = {}

    def factory(idx, sess):
        sc = TracingScript(run, prof, [])
        steps = [('expect', 2)]
        if st == 'play':
            steps += [('send', prof.login_success(bytes(range(16)), 'verif')),
                      ('call', lambda s: setattr(s, 'state', 'play'))]
        steps.append(('pause', 'go'))
        for k, kind in enumerate(hist, 1):
            steps.append(('send', payload(k, kind)))
            if kind == 'C' and not c_suppressed(k):
                steps.append(('compress', THR0 + k))
            if not row['batch']:
                steps.append(('pause', 'p%d' % k))
        sc.steps = steps
        holder['sc'] = sc
        return sc
    run.serve(factory)
    log = []

    def scenario(run):
        c = run.make_connection(allowed_versions={version})
        holder['c'] = c
        answered = set()
        real_write = c.write_packet

        def noting_write(packet, force=False):
            answered.add(getattr(packet, 'keep_alive_id', getattr(packet, 'message_id', None)))
            return real_write(packet, force)
        c.write_packet = noting_write

        dc_ran = []

        def effect_visible(kd, occ, name='OI'):
            # is the built-in reaction to this packet occurrence already in effect?
            if kd == 'A':
                return occ in answered
            if kd == 'C':
                return bool(c.options.compression_enabled) and c.options.compression_threshold == THR0 + occ
            if kd == 'D':
                if st == 'play' and dc_ran:
                    return name == 'OI'     # a listener has closed the socket already: the reaction's own close cannot be told apart
                return (c.socket is None) if st == 'play' else type(c.reactor).__name__ == 'PlayingReactor'
            return False
        c.connect()
        run.settle()
        regs = []
        shared = {}
        for name, early, outgoing in (('EI', True, False), ('OI', False, False), ('EO', True, True), ('OO', False, True)):
            for i, l in enumerate(row[name], 1):
                regs.append((name, i, l, early, outgoing))
        # registration order across lists is shuffled (within a list it is the list order):
        # 'early' must beat registration time
        order = list(range(len(regs)))
        groups = {}
        for j, r_ in enumerate(regs):
            groups.setdefault(r_[0], []).append(j)
        names = list(groups)
        rng.shuffle(names)
        merged = []
        pools = {n: list(groups[n]) for n in names}
        while any(pools.values()):
            n = rng.choice([n for n in names if pools[n]])
            merged.append(pools[n].pop(0))
        late_regs = []
        decos = {}
        as_method = rng.random() < 0.5
        reuse_deco = rng.random() < 0.6     # one decorator object (the value of c.listener(...)) applied to several functions

        def register(j):
            name, i, l, early, outgoing = regs[j]
            types = []
            for f in l['f']:
                types += list(cls[f])

            def cbk(pkt, name=name, i=(0 if share else i), l=l):
                kd, occ = kind_occ(pkt)
                log.append([name, i, kd, occ, 1 if (name in ('EI', 'OI') and effect_visible(kd, occ, name)) else 0])
                if l.get('dc'):
                    dc_ran.append(1)
                    c.disconnect(immediate=True)        # a listener may close its connection: only 'ignore' stops later stages
                if l['ig']:
                    raise IgnorePacket
            if as_method:
                # the listener is a bound method of an object nothing else refers to (conn.register_packet_listener(
                # Handler(...).on_packet, ...)): the connection keeps its listeners alive
                cbk = _Holder(cbk).on_packet
            if share:
                # one and the same callable for every registration of this list with this behaviour: each registration
                # still is a listener of its own, at its own place in the order
                cbk = shared.setdefault((name, l['ig'], bool(l.get('dc'))), cbk)
            if j % 2:
                c.register_packet_listener(cbk, *types, early=early, outgoing=outgoing)
            else:                       # the decorator spelling of the same registration
                if reuse_deco:
                    dk = (tuple(types), early, outgoing)
                    if dk not in decos:
                        decos[dk] = c.listener(*types, early=early, outgoing=outgoing)
                    decos[dk](cbk)
                else:
                    c.listener(*types, early=early, outgoing=outgoing)(cbk)
        for j in merged:
            if regs[j][2].get('late'):
                late_regs.append(j)         # registered later, while packets of that class have already been dispatched
            else:
                register(j)
        holder['sc'].resume('go')
        if not row['batch']:
            for k in range(1, len(hist) + 1):
                run.settle()
                if k == row.get('lateK', 0):
                    for j in late_regs:
                        register(j)
                holder['sc'].resume('p%d' % k)
        run.settle()
        # finally the user writes a packet with force=True (kind RA, occurrence 99); IgnorePacket must not escape
        if row.get('forced') and not holder['sc'].client_closed:
            if st == 'play':
                fp = sb.play.KeepAlivePacket(keep_alive_id=99)
            else:
                fp = sb.login.PluginResponsePacket(message_id=99, successful=False)
            try:
                c.write_packet(fp, force=True)
            except BaseException as e:      # noqa
                if type(e).__name__ == 'Poison':
                    raise
                holder['forced_exc'] = e
            run.settle()
            # ... and a listener may itself write: an early outgoing listener, registered last, that answers packet 199 by
            # force-writing packet 198 from inside its callback (the write lock is re-entrant for this).  Every listener sees
            # both packets exactly once, the inner packet's whole dispatch nested inside the outer one's early stage.
            quiet = not any(l.get('dc') or l.get('late') for nm in ('EI', 'OI', 'EO', 'OO') for l in row[nm])
            if st == 'play' and quiet and not holder['sc'].client_closed and 'forced_exc' not in holder:
                mark = len(log)
                nlog = holder['nlog'] = []

                def nesting(pkt):
                    nlog.append(pkt.keep_alive_id)
                    if pkt.keep_alive_id == 199:
                        c.write_packet(sb.play.KeepAlivePacket(keep_alive_id=198), force=True)
                c.register_packet_listener(nesting, sb.play.KeepAlivePacket, outgoing=True, early=True)
                try:
                    c.write_packet(sb.play.KeepAlivePacket(keep_alive_id=199), force=True)
                except BaseException as e:      # noqa
                    if type(e).__name__ == 'Poison':
                        raise
                    holder['forced_exc'] = e
                run.settle()
                holder['nested_log'] = log[mark:]
                del log[mark:]
    run.go(scenario)
    sc = holder['sc']
    run.forced_exc = holder.get('forced_exc')
    wire = []
    for p in sc.parsed[2:]:
        if p['t'] == 'keep_alive':
            wire.append(p['id'])
        elif p['t'] == 'plugin_response':
            wire.append(p['mid'])
        else:
            wire.append('?' + p['t'])
    closed = sc.client_closed
    run.comp = bool(holder['c'].options.compression_enabled)
    run.nested = None
    if 'nested_log' in holder:
        run.nested = {'log': holder['nested_log'], 'n': holder['nlog'], 'wire': [w for w in wire if w in (198, 199)]}
        wire = [w for w in wire if w not in (198, 199)]
    return run, log, wire, closed, version


def long_burst_scenario(version, seed, n_packets=60, policy=None):
    """More packets in one burst than the networking loop reads per round (50), followed by the server's close: the
    answers queued in the first round can no longer be written (EPIPE) when the second round starts, and the packets
    still unread at that moment are incoming packets like any other: early listener, reaction, ordinary listener, once
    each and in order. (Round 11, C13k: a loop that stops dispatching once a write has failed.)"""
    from minecraft.networking.packets import Packet, clientbound
    prof = Profile(version)
    run = Run(policy=policy, seed=seed)
    holder = {}

    def factory(idx, sess):
        sc = TracingScript(run, prof, [])
        sc.steps = [('expect', 2), ('send', prof.login_success(bytes(range(16)), 'verif')),
                    ('call', lambda s: setattr(s, 'state', 'play')), ('pause', 'go')]
        sc.steps += [('send', prof.keep_alive(1000 + k)) for k in range(n_packets)] + [('close',)]
        holder['sc'] = sc
        return sc
    run.serve(factory)
    log = []

    def scenario(run):
        c = run.make_connection(allowed_versions={version})
        c.register_packet_listener(lambda p: log.append(('E', p.keep_alive_id)), clientbound.play.KeepAlivePacket, early=True)
        c.register_packet_listener(lambda p: log.append(('O', p.keep_alive_id)), clientbound.play.KeepAlivePacket)
        c.connect()
        run.settle()
        holder['sc'].resume('go')
    run.go(scenario)
    want = [(g, 1000 + k) for k in range(n_packets) for g in ('E', 'O')]
    return run, log, want


def run(chk):
    core.import_minecraft()
    rng = random.Random(chk.seed)
    quick = chk.tier == 'quick'
    r = chk.tlc('MC_Dispatch', 'Dispatch_%s.cfg' % chk.tier, timeout=1800)
    rows = r.printed
    if len(rows) < 50000:
        raise core.MachineryError('only %d behaviours' % len(rows))
    rows = [row for row in rows if not (row['st'] == 'login' and 'B' in row['hist'])]
    budget = 4000 if quick else 40000
    # stratified sample: prefer configurations in which something happens
    interesting = [row for row in rows if row['log']]
    rng.shuffle(interesting)
    sample = interesting[:budget]
    n = 0
    for i, row in enumerate(sample):
        run_, log, wire, closed, version = execute(row, chk.seed * 104729 + i)
        n += 1
        chk.traces += 1
        chk.case(('cfg', json.dumps([row[k] for k in ('EI', 'OI', 'EO', 'OO', 'hist', 'batch', 'st')], sort_keys=True)))
        what = None
        if log != row['log']:
            j = next((j for j in range(min(len(log), len(row['log']))) if log[j] != row['log'][j]), min(len(log), len(row['log'])))
            what = 'call log differs at entry %d: real %r, model %r' % (j, log[j:j + 2], row['log'][j:j + 2])
            key = 'dispatch:%s:log' % row['st']
            if [e[:4] for e in log] == [e[:4] for e in row['log']]:
                what = ('the built-in reaction is not between the early and the ordinary listeners: at entry %d the listener saw '
                        'effect=%r, model %r (entries [list, index, kind, occurrence, effect visible])' % (j, log[j], row['log'][j]))
                key = 'dispatch:%s:reaction-stage' % row['st']
        elif wire != row['wire']:
            what, key = 'answers on the wire %r, model %r' % (wire, row['wire']), 'dispatch:%s:wire' % row['st']
        elif closed != row['closed']:
            what, key = 'connection closed=%r, model %r' % (closed, row['closed']), 'dispatch:%s:closed' % row['st']
        elif run_.comp != row['comp']:
            what, key = 'compression enabled=%r at the end, model %r' % (run_.comp, row['comp']), 'dispatch:%s:reaction-effect' % row['st']
        elif run_.errors:
            what, key = 'unexpected error %r' % (run_.errors[-1],), 'dispatch:%s:error' % row['st']
        elif getattr(run_, 'forced_exc', None) is not None:
            what, key = 'write_packet(force=True) let %r escape' % (run_.forced_exc,), 'dispatch:%s:forced-write-raises' % row['st']
        elif run_.nested is not None:
            # the order law applied to a write made from inside a listener: E = the early outgoing entries the model gives
            # for the forced packet 99, O = the ordinary ones; 199 and 198 are packets of the same class
            E = [e for e in row['log'] if e[0] == 'EO' and e[2] == 'RA' and e[3] == 99]
            O = [e for e in row['log'] if e[0] == 'OO' and e[2] == 'RA' and e[3] == 99]
            sub = lambda es, occ: [[e[0], e[1], e[2], occ, e[4]] for e in es]       # noqa
            if 99 in row['wire']:
                want = sub(E, 199) + sub(E, 198) + sub(O, 198) + sub(O, 199)
                want_n, want_w = [199, 198], [198, 199]
            else:       # an early outgoing listener suppresses packets of this class: the nesting listener is never reached
                want, want_n, want_w = sub(E, 199), [], []
            got = run_.nested
            if got['log'] != want or got['n'] != want_n or got['wire'] != want_w:
                what = ('a listener that force-writes packet 198 while packet 199 is being dispatched: calls %r (expected %r), the nesting '
                        'listener saw %r (expected %r), wire %r (expected %r)' % (got['log'], want, got['n'], want_n, got['wire'], want_w))
                key = 'dispatch:%s:nested-write' % row['st']
        if what:
            chk.violation(key, 'state %s, history %s (batch=%s), listeners EI=%s OI=%s EO=%s OO=%s at protocol %d: %s'
                          % (row['st'], row['hist'], row['batch'], json.dumps(row['EI']), json.dumps(row['OI']),
                             json.dumps(row['EO']), json.dumps(row['OO']), version, what), {'row': row})
        if i == 11:
            chk.sample({'config': {k: row[k] for k in ('EI', 'OI', 'EO', 'OO', 'hist', 'batch', 'st')}, 'log': log, 'wire': wire})

    # ---- I->S: larger random configurations, validated by running the model from the recorded configuration
    FILT = [['Packet'], ['Abs'], ['A', 'Packet'], ['B', 'RA'], ['D', 'A'], ['A'], ['RA'], ['B'], ['Abs', 'D'], [], ['C'], ['C', 'A'], ['B', 'RA', 'C']]
    obs = []
    n_big = 400 if quick else 5000
    for j in range(n_big):
        st = rng.choice(['play', 'play', 'login'])
        def lst(mx):
            return [{'f': rng.choice(FILT), 'ig': rng.random() < 0.25, 'dc': False, 'late': False} for _ in range(rng.randint(0, mx))]
        kinds = ['A', 'A', 'U', 'B'] if st == 'play' else ['A', 'A', 'U']
        if rng.random() < 0.35:
            kinds = kinds + ['C']
        ei = lst(3)
        if ei and rng.random() < 0.2:
            d_ = rng.choice(ei)
            d_['dc'], d_['ig'] = True, False
        oi = lst(3)
        batch_ = rng.random() < 0.5
        n_hist = rng.randint(1, 6)
        late_k = 0
        if not batch_ and n_hist >= 2 and rng.random() < 0.4:
            # some incoming listeners - superclass filters among them - are registered only after packet late_k
            late_k = rng.randint(1, n_hist - 1)
            for lst_ in (ei, oi):
                for l_ in lst_:
                    if rng.random() < 0.5 and not l_['dc']:
                        l_['late'] = True
                        if rng.random() < 0.6:
                            l_['f'] = rng.choice([['Packet'], ['Abs'], ['A', 'Packet']])
                lst_.sort(key=lambda l_: l_['late'])        # registration order: the late ones come last
        row = {'EI': ei, 'OI': oi, 'EO': lst(3), 'OO': lst(3), 'st': st, 'batch': batch_, 'forced': True, 'lateK': late_k,
               'hist': [rng.choice(kinds) for _ in range(n_hist)] + ['D']}
        row['shared'] = (j % 3 == 2)
        run_, log, wire, closed, version = execute(row, chk.seed * 31337 + j, share=row['shared'])
        chk.traces += 1
        chk.case(('big', j))
        o = dict(row)
        o['log'], o['wire'], o['comp'] = log, wire, run_.comp
        obs.append(o)
    # ---- a burst longer than one round of the networking loop, then the server's close (the queued answers fail to be written)
    for v in ([47, 340, 578] if quick else [47, 107, 210, 340, 404, 498, 578]):
        for sd in range(2 if quick else 6):
            run_, got, want = long_burst_scenario(v, chk.seed * 7919 + sd, n_packets=60 + 7 * sd)
            chk.traces += 1
            chk.case(('long_burst', v, sd))
            if got != want:
                j = next((j for j in range(min(len(got), len(want))) if got[j] != want[j]), min(len(got), len(want)))
                chk.violation('dispatch:play:after-failed-write',
                              'a burst of %d keep-alives followed by the server\'s close at protocol %d: listener calls differ from '
                              'early-then-ordinary once per packet at entry %d: real %r, expected %r (%d of %d calls made)'
                              % (len(want) // 2, v, j, got[j:j + 2], want[j:j + 2], len(got), len(want)),
                              {'version': v, 'seed': chk.seed * 7919 + sd, 'n': len(want) // 2})
    tf = os.path.join(chk.work, 'dispatch_obs.json')
    with open(tf, 'w') as f:
        json.dump(obs, f)
    r2 = chk.tlc('Trace_Dispatch', 'Trace_Dispatch.cfg', env={'TRACE_FILE': tf}, must_pass=False)
    if r2.violated:
        m = re.search(r'tid = (\d+)', r2.out)
        bad = obs[int(m.group(1)) - 1] if m else None
        chk.violation('dispatch:%s:trace(%s)' % (bad['st'] if bad else '?', r2.violated[0]),
                      'recorded run rejected by Trace_Dispatch (%s): %s' % (r2.violated[0], json.dumps(bad)[:600]), {'obs': bad})
    elif not r2.ok:
        raise core.MachineryError('Trace_Dispatch failed: %s' % r2.errors[:3])
    chk.sample({'large_configuration': {k: obs[0][k] for k in ('EI', 'OI', 'EO', 'OO', 'hist', 'st', 'batch')}, 'log': obs[0]['log']})
    for o in obs:
        pass
    chk.extra['behaviours_in_model'] = len(rows)
    chk.extra['behaviours_replayed'] = n
    chk.extra['large_configurations'] = len(obs)
    chk.assumptions += ['listeners are registered while the networking thread is idle (after the handshake has been written), '
                        'so registration itself does not race with dispatch']
    return chk.finish(
        rule='model: all configurations with <= 1 listener per list over 5 filter sets x ignore flag x histories x batch x state; replayed: '
             'a seeded sample of the behaviours with a non-empty call log; I->S: random configurations with up to 3 listeners per '
             'list and histories up to 6; distinct by configuration')
