"""C10 - login completes correctly for every order of optional server steps.

Model: specs/SessionLogin.tla, exhaustive over all admissible scripts; every
behaviour replayed into a real Connection against the independent peer, which
decrypts with its own CFB8 and RSA key and decodes the compression envelope
(S->I).  The same runs plus longer random scripts are recorded and judged by
the contract specs/Trace_Login.tla in TLC (I->S).
"""
import hashlib
import json
import os
import random
import re

from .. import core
from ..session import Run, TracingScript
from .. import peer as P
from ..profile import Profile

THR = [0, 1, 64, 256, 2 ** 31 - 1]
TEXTS = {
    'json': ('{"text": "You are banned"}', 'You are banned', None),
    'raw': ('not json at all', 'not json at all', None),
    'outdated_client': ('{"text": "Outdated client! Please use 1.16.5"}', None, '1.16.5'),
    'outdated_server': ("Outdated server! I'm still on 1.8.9", None, '1.8.9'),
    'jsonstr': ('"You are not whitelisted"', 'You are not whitelisted', None),
    'jsonarr': ('["kicked", {"text": "x"}]', 'kicked', None),
    'jsonnull': ('null', 'null', None),
    'jsonnum': ('42', '42', None),
    'jsonnotext': ('{"translate": "multiplayer.disconnect.banned"}', 'multiplayer.disconnect.banned', None),
}
_KEY = {}


def rsa_key(bits=1024):
    if bits not in _KEY:
        from cryptography.hazmat.primitives.asymmetric import rsa
        from cryptography.hazmat.primitives import serialization
        from cryptography.hazmat.backends import default_backend
        k = rsa.generate_private_key(public_exponent=65537, key_size=bits, backend=default_backend())
        der = k.public_key().public_bytes(serialization.Encoding.DER, serialization.PublicFormat.SubjectPublicKeyInfo)
        _KEY[bits] = (k, der)
    return _KEY[bits]


def key_encoding(bits, form):
    """The server's public key in an encoding the client accepts: canonical SubjectPublicKeyInfo, the bare PKCS#1
    RSAPublicKey, or SubjectPublicKeyInfo with the optional NULL parameters left out.  The session hash covers the bytes sent."""
    from cryptography.hazmat.primitives import serialization
    priv, der = rsa_key(bits)
    if form == 'pkcs1':
        return priv, priv.public_key().public_bytes(serialization.Encoding.DER, serialization.PublicFormat.PKCS1)
    if form == 'nonull' and bits == 1024:
        i = der.index(bytes.fromhex('0500'), 0, 24)
        b = bytearray(der[:i] + der[i + 2:])
        b[2] -= 2
        b[4] -= 2
        return priv, bytes(b)
    return priv, der


def rsa_decrypt(priv, data):
    from cryptography.hazmat.primitives.asymmetric.padding import PKCS1v15
    return priv.decrypt(bytes(data), PKCS1v15())


def java_hex(digest):
    n = int.from_bytes(digest, 'big', signed=True)
    return ('-' if n < 0 else '') + format(abs(n), 'x')


class Token(object):
    """Stand-in for AuthenticationToken: records join() calls."""
    class _P(object):
        name = 'tok_user'
        id_ = 'abcdef0123456789abcdef0123456789'

    def __init__(self, run):
        self.profile = Token._P()
        self.run = run
        self.joins = []

    def join(self, server_id):
        self.joins.append(server_id)
        self.run.ev('join', hash=server_id)
        return True


def execute(version, script, token, user_plug, seed, thr_of=None, keybits=1024, chunk='random', burst=False, key_form='spki', second=None):
    from minecraft.networking.packets import Packet
    from minecraft.networking.packets import clientbound, serverbound
    from minecraft.exceptions import IgnorePacket
    prof = Profile(version)
    rng = random.Random(seed)
    priv, der = key_encoding(keybits, key_form)
    run = Run(seed=seed, chunk=chunk)
    info = {'secret': None, 'srv_token': None, 'server_id': None, 'hash': None, 'der': der}
    thr_of = thr_of or (lambda t: THR[t % len(THR)])

    pending_burst, burst_seen, deferred = [0], [0], [0]

    def plug_payload(mid, cur_thr, j):
        # every other request under a threshold of 64 / 256 is exactly as long as the threshold: a vanilla server
        # compresses from the threshold upwards, so that frame arrives compressed
        base = len(prof.plugin_request(mid, 'verif:chan', b''))
        if cur_thr in (64, 256) and (seed + j) % 2 == 0:
            return prof.plugin_request(mid, 'verif:chan', b'\x01' * (cur_thr - base))
        return prof.plugin_request(mid, 'verif:chan', b'\x01\x02')

    def disc_text(kind):
        text = TEXTS[kind][0]
        if kind == 'json' and seed % 3 == 0:
            # a long-winded server: one login packet of 20 KB (arrives in one read or several, also through the cipher)
            text = '{"text": "You are banned%s"}' % (' .' * 10000)
        if kind.startswith('outdated') and seed % 2:
            # the usual case in the field: the server names a version this library has never heard of
            text = text.replace('1.16.5', '1.99.9').replace('1.8.9', '0.30-classic')
        return text

    def factory(idx, sess, script=script):
        if idx >= 1 and second is not None:
            script = second             # the script of the connection an exception handler opens after the first one failed
        sc = TracingScript(run, prof, [])
        steps = [('expect', 2)]
        cur_thr = None
        for j, st in enumerate(script):
            if st[0] == 'enc':
                sid = (('\ufeff' if rng.random() < 0.3 else '') + 'srv%04x\u00e9' % rng.getrandbits(16)) if st[1] else '-'
                tok = bytes(rng.getrandbits(8) for _ in range(rng.choice([1, 4, 16, 64])))
                info['srv_token'], info['server_id'] = tok, sid

                def after_resp(sc):
                    for p in sc.parsed:
                        if p['t'] == 'enc_response' and 'dec' not in p:
                            try:
                                p['dec'] = (rsa_decrypt(priv, p['secret']), rsa_decrypt(priv, p['token']))
                            except Exception as e:     # noqa
                                p['dec'] = (None, None)
                            info['secret'] = p['dec'][0]
                            return True
                    return False
                steps += [('call', lambda sc, st=st: run.ev('srv', s=['enc', bool(st[1])])),
                          ('send', prof.enc_request(sid, der, tok)),
                          ('wait', after_resp),
                          ('encrypt', lambda sc: info['secret'] if info['secret'] and len(info['secret']) == 16 else b'\0' * 16)]
                if deferred[0]:
                    # plugin requests that went out right in front of the encryption request: their answers may come before
                    # (plain) or after (encrypted) the encryption response, and are awaited here
                    k = deferred[0]
                    deferred[0] = 0
                    steps += [('wait', lambda sc, k=k: sum(1 for p in sc.parsed if p['t'] == 'plugin_response') >= burst_seen[0] + k),
                              ('call', lambda sc, k=k: burst_seen.__setitem__(0, burst_seen[0] + k))]
            elif st[0] == 'comp':
                t = cur_thr = thr_of(st[1])
                steps += [('call', lambda sc, t=t: (run.ev('srv', s=['comp', st_idx(t)]), info.__setitem__('thr', t))),
                          ('send', prof.login_compress(t)), ('compress', t)]
            elif st[0] == 'plug':
                n_before = [0]
                steps += [('call', lambda sc, st=st, nb=n_before: (run.ev('srv', s=['plug', st[1]]), nb.__setitem__(0, len(sc.de.frames)))),
                          ('send', plug_payload(st[1], cur_thr, j))]
                if burst and j + 1 < len(script) and script[j + 1][0] == 'plug':
                    pending_burst[0] += 1           # consecutive requests go out back to back; the answers are awaited together
                elif burst == 'xenc' and j + 1 < len(script) and script[j + 1][0] == 'enc':
                    deferred[0] = pending_burst[0] + 1      # ... and so does an encryption request right behind them
                    pending_burst[0] = 0
                else:
                    k = pending_burst[0] + 1
                    pending_burst[0] = 0
                    if burst and k > 1:
                        # the first request of the run recorded the frame count; wait for k answers from there
                        steps += [('wait', lambda sc, k=k: sum(1 for p in sc.parsed if p['t'] == 'plugin_response') >= burst_seen[0] + k),
                                  ('call', lambda sc, k=k: burst_seen.__setitem__(0, burst_seen[0] + k))]
                    else:
                        steps += [('wait', lambda sc: sum(1 for p in sc.parsed if p['t'] == 'plugin_response') >= burst_seen[0] + 1),
                                  ('call', lambda sc: burst_seen.__setitem__(0, burst_seen[0] + 1))]
            elif st[0] == 'succ':
                steps += [('call', lambda sc: run.ev('srv', s=['succ'])),
                          ('send', prof.login_success(bytes(range(16)), 'verif')),
                          ('call', lambda sc: setattr(sc, 'state', 'play')),
                          ('send', prof.play_disconnect('{"text":"done"}'))]
            elif st[0] == 'disc':
                kind = 'disc_outdated' if st[1].startswith('outdated') else 'disc_plain'
                steps += [('call', lambda sc, kind=kind: run.ev('srv', s=[kind])),
                          ('send', prof.login_disconnect(disc_text(st[1])))]
        sc.steps = steps
        return sc

    def st_idx(t):
        return THR.index(t) if t in THR else t
    run.serve(factory)
    tok_obj = Token(run) if token else None
    state = {}

    def scenario(run):
        c = run.make_connection(allowed_versions={version}, auth_token=tok_obj)
        state['conn'] = c
        if user_plug:
            def take_over(pkt):
                # payload sized to straddle the announced threshold (thr-1, thr, thr+1) when there is one
                data = b'ok'
                thr = info.get('thr')
                if thr is not None and 8 <= thr <= 4096:
                    target = thr + rng.choice([-1, 0, 1])
                    data = bytes((i * 31 + 7) % 256 for i in range(max(0, target - 2 - len(P.venc(pkt.message_id)))))
                how = rng.randrange(3)
                if how == 2:
                    data = b''                      # a successful answer with an empty payload
                info.setdefault('plug_data', []).append(data)
                if how == 0:
                    resp = serverbound.login.PluginResponsePacket(message_id=pkt.message_id, successful=True, data=data)
                else:                               # success is implied by giving data (the documented short form)
                    resp = serverbound.login.PluginResponsePacket(message_id=pkt.message_id, data=data)
                c.write_packet(resp)
                raise IgnorePacket
            c.register_packet_listener(take_over, clientbound.login.PluginRequestPacket, early=True)
        if second is not None:
            from minecraft.exceptions import LoginDisconnect
            c.register_exception_handler(lambda exc, exc_info: c.connect(), LoginDisconnect)
        c.connect()
    run.go(scenario)
    run.info = info
    run.prof = prof
    return run


def hasty_disconnect(version, kind, seed):
    """A server that refuses at the door: the login disconnect packet and the close come before the client has written
    anything, so the client's own first writes fail (EPIPE) in the very round in which the disconnect packet is read.
    The write error is not the news - the server's message is. (Round 11, C10k.)"""
    prof = Profile(version)
    run = Run(seed=seed, chunk='random')
    run.grammar = False         # nothing of the client reaches the wire in this scenario

    def factory(idx, sess):
        sc = TracingScript(run, prof, [])
        sc.steps = [('send', prof.login_disconnect(TEXTS[kind][0])), ('close',)]
        return sc
    run.serve(factory)

    def scenario(run):
        c = run.make_connection(allowed_versions={version})
        c.connect()
    run.go(scenario)
    if run.outcome != 'done':
        return 'execution ended as %s' % run.outcome
    names = [type(e).__name__ for e in run.errors]
    want = 'VersionMismatch' if kind.startswith('outdated') else 'LoginDisconnect'
    if names != [want]:
        return 'reported %r, not one %s' % (names, want)
    _, msg, ver = TEXTS[kind]
    if (msg or ver) not in str(run.errors[0]):
        return 'the error does not carry the server\'s message: %r' % (str(run.errors[0])[:120],)
    return None


def observe(run, token, user_plug, thr_index):
    """Project the run onto Trace_Login events; also returns the frame list for the S->I comparison."""
    info = run.info
    ev = []
    frames = []
    expected_hash = None
    for e in run.trace:
        if e['k'] == 'srv':
            ev.append({'k': 'srv', 's': e['s']})
        elif e['k'] == 'join':
            if info['secret'] is None:
                # join happens before the response: recompute lazily at the end
                ev.append({'k': 'join', 'ok': None, 'hash': e['hash']})
            else:
                ev.append({'k': 'join', 'ok': None, 'hash': e['hash']})
        elif e['k'] == 'c2s':
            f = e['f']
            fr = f['_frame']
            if f['t'] in ('keep_alive', 'teleport_confirm', 'pos_look', 'chat'):
                continue
            ok = 'trailing' not in f
            a = 0
            if f['t'] == 'handshake':
                ok = ok and f['protocol'] == run.prof.version and f['host'] == 'mc.verif' and f['port'] == 25565 and f['next'] == 2
            elif f['t'] == 'login_start':
                ok = ok and f['name'] == ('tok_user' if token else 'verif')
                a = 1 if token else 0
            elif f['t'] == 'enc_response':
                sec, tok = f.get('dec', (None, None))
                ok = ok and sec is not None and len(sec) == 16 and tok == info['srv_token']
            elif f['t'] == 'plugin_response':
                a = [f['mid'], bool(f['ok'])]
                want = b''
                if f['ok']:
                    pd = info.get('plug_data', [])
                    want = pd.pop(0) if pd else None
                ok = ok and f['data'] == want
            else:
                ok = False
            c = -9 if fr['thr'] is None else (THR.index(fr['thr']) if fr['thr'] in THR else fr['thr'])
            if fr['compressed'] and fr['thr'] is not None and fr['size'] < fr['thr']:
                ok = False      # a compressed frame below the threshold would be rejected by a vanilla server
            rec = {'t': f['t'], 'e': bool(fr['enc']), 'c': c, 'ok': bool(ok), 'a': a}
            ev.append({'k': 'c2s', 'f': rec})
            frames.append(rec)
    # resolve join hashes now that the secret is known
    for e in ev:
        if e['k'] == 'join':
            h = hashlib.sha1()
            h.update(info['server_id'].encode('utf-8'))
            h.update(info['secret'] or b'')
            h.update(info['der'])
            e['ok'] = e.pop('hash') == java_hex(h.digest())
    conn = run.conn
    if run.errors:
        exc = run.errors[-1]
        name = type(exc).__name__
        ok = True
        last = [e for e in run.trace if e['k'] == 'srv'][-1]['s']
        if name == 'VersionMismatch':
            ok = getattr(exc, 'server_version', None) in ('1.16.5', '1.8.9', '1.99.9', '0.30-classic') and getattr(exc, 'server_version') in str(exc)
        elif name == 'LoginDisconnect':
            ok = any(t[1] and t[1] in str(exc) for t in TEXTS.values())
        ok = ok and run.exits == 0
        ev.append({'k': 'outcome', 'o': name, 'ok': bool(ok)})
    else:
        playing = type(conn.reactor).__name__ == 'PlayingReactor'
        ev.append({'k': 'outcome', 'o': 'play' if playing else 'none', 'ok': playing and run.exits == 1 and run.outcome == 'done'})
    return ev, frames


def run(chk):
    mc = core.import_minecraft()
    rng = random.Random(chk.seed)
    quick = chk.tier == 'quick'
    r = chk.tlc('MC_SessionLogin', 'SessionLogin_%s.cfg' % chk.tier)
    rows = r.printed
    if len(rows) < 500:
        raise core.MachineryError('only %d behaviours' % len(rows))
    sup = list(mc.SUPPORTED_PROTOCOL_VERSIONS)
    known = list(mc.KNOWN_PROTOCOL_VERSIONS)

    def around(b):
        i = known.index(b)
        lo = [v for v in sup if known.index(v) < i]
        hi = [v for v in sup if known.index(v) >= i]
        return lo[-1:], hi[:1]
    plug_versions, old_versions = [], []
    for b in (385, 391, 707):
        lo, hi = around(b)
        for v in lo + hi:
            (plug_versions if known.index(v) >= known.index(385) else old_versions).append(v)
    plug_versions += [sup[-1], 389]
    old_versions += [sup[0], 47, 340]
    chk.extra['versions'] = {'plugin': sorted(set(plug_versions)), 'no_plugin': sorted(set(old_versions))}
    traces = []
    if quick:
        rows = [row for i, row in enumerate(rows) if i % 2 == chk.seed % 2]
    for i, row in enumerate(rows):
        version = rng.choice(plug_versions if row['plugOk'] else old_versions)
        rot = i
        run_ = execute(version, row['script'], row['token'], row['userPlug'], chk.seed * 65537 + i,
                       thr_of=lambda t, rot=rot: THR[(t + rot) % len(THR)], burst=bool(i % 2),
                       key_form=('spki', 'pkcs1', 'nonull')[(i // 2) % 3])
        ev, frames = observe(run_, row['token'], row['userPlug'], None)
        chk.traces += 1
        chk.case(('script', json.dumps(row['script']), row['token'], row['userPlug'], row['plugOk']))
        # S->I: compare with the model's wire, property-level fields
        exp = []
        for w in row['wire']:
            c = w['c'] if w['c'] == -9 else THR.index(THR[(w['c'] + rot) % len(THR)])
            a = w['a']
            exp.append({'t': w['k'], 'e': w['e'], 'c': c, 'ok': True, 'a': a})
        outcome = [e for e in ev if e['k'] == 'outcome'][-1]
        joins = sum(1 for e in ev if e['k'] == 'join')
        what = None
        if frames != exp:
            k = next((j for j in range(min(len(frames), len(exp))) if frames[j] != exp[j]), min(len(frames), len(exp)))
            what, key = 'client frame %d is %r, model expects %r' % (
                k, frames[k] if k < len(frames) else None, exp[k] if k < len(exp) else None), \
                'login:replay:frame:%s' % (exp[k]['t'] if k < len(exp) else 'extra')
        elif outcome['o'] != row['outcome'] or not outcome['ok']:
            what, key = 'outcome %r (ok=%r), model expects %s; errors %r' % (
                outcome['o'], outcome['ok'], row['outcome'], [repr(x)[:80] for x in run_.errors]), 'login:replay:outcome:%s' % row['outcome']
        elif joins != row['joins'] or not all(e['ok'] for e in ev if e['k'] == 'join'):
            what, key = 'session join called %d times (model %d) or with a wrong hash' % (joins, row['joins']), 'login:replay:join'
        if what:
            chk.violation(key, 'script %s token=%s userPlug=%s at protocol %d: %s'
                          % (json.dumps(row['script']), row['token'], row['userPlug'], version, what),
                          {'row': row, 'version': version, 'events': ev})
        traces.append({'token': row['token'], 'userPlug': row['userPlug'], 'ev': ev, 'version': version,
                       'script': row['script']})
        if i == 7:
            chk.sample({'script': row['script'], 'version': version, 'frames': frames, 'outcome': outcome})

    # ---- a login that fails after the server has switched compression (and / or encryption) on, retried from an exception
    #      handler (which by-passes disconnect()): the new connection starts from scratch - plain, uncompressed
    for j in range(12 if quick else 120):
        plug = bool(j % 2)
        version = rng.choice(plug_versions if plug else old_versions)
        first = []
        if j % 3 != 1:
            first.append(['comp', j % 5])
        if j % 3 != 0:
            first.append(['enc', bool(j % 2)])
        if j % 4 == 0:
            first.reverse()
        first.append(['disc', 'json'])
        second = [['succ']] if j % 2 else [['comp', (j + 2) % 5], ['succ']]
        run_ = execute(version, first, False, False, chk.seed * 577 + j, second=second)
        chk.traces += 1
        chk.case(('retry-from-handler', j))
        heads = [[p['t'] for p in sc.parsed[:2]] for sc in run_.scripts]
        bad_frames = [p['t'] for sc in run_.scripts[1:] for p in sc.parsed if p['t'] in ('other', 'undecodable') or 'trailing' in p]
        entered = len(run_.scripts) == 2 and any(p['t'] in ('keep_alive',) for p in run_.scripts[1].parsed) or \
            (len(run_.scripts) == 2 and run_.scripts[1].finished())
        if len(run_.scripts) != 2 or heads[1:] != [['handshake', 'login_start']] or bad_frames or run_.scripts[1].de.errors or not entered:
            chk.violation('login:retry-from-handler', 'first login %s failed and an exception handler reconnected (protocol %d): the second '
                          'connection received %r (undecodable / unexpected frames %r, deframer errors %r), %d connections'
                          % (json.dumps(first), version, heads[1:], bad_frames[:3], run_.scripts[1].de.errors[:1] if len(run_.scripts) > 1 else None,
                             len(run_.scripts)), {'first': first, 'second': second, 'version': version})

    # ---- longer random scripts (I->S only)
    n_rand = 150 if quick else 1500
    for j in range(n_rand):
        plug = rng.random() < 0.7
        version = rng.choice(plug_versions if plug else old_versions)
        if rng.random() < 0.3:
            version = rng.choice([v for v in sup if (known.index(v) >= known.index(385)) == plug])
        script = []
        n = rng.randint(2, 8)
        did_enc = did_comp = False
        for _ in range(n):
            opts = []
            if not did_enc:
                opts.append('enc')
            if not did_comp:
                opts.append('comp')
            if plug:
                opts += ['plug', 'plug']
            if not opts:
                break
            o = rng.choice(opts)
            if o == 'enc' and plug and rng.random() < 0.5:
                script.append(['plug', rng.choice([5, 6, 7, 200])])        # a plugin request right in front of the encryption request
            if o == 'enc':
                script.append(['enc', rng.random() < 0.5]); did_enc = True
            elif o == 'comp':
                script.append(['comp', rng.randrange(5)]); did_comp = True
            else:
                script.append(['plug', rng.choice([0, 1, 127, 128, 2 ** 31 - 1])])
                while rng.random() < 0.4:       # runs of requests with distinct ids (sent back to back in burst mode)
                    script.append(['plug', rng.choice([2, 3, 129, 16383, 16384, 2 ** 31 - 2])])
        script.append(['succ'] if rng.random() < 0.6 else ['disc', rng.choice(sorted(TEXTS))])
        token, up = rng.random() < 0.5, rng.random() < 0.3
        run_ = execute(version, script, token, up, chk.seed * 31 + j, keybits=1024 if j % 7 else 2048, burst=('xenc' if j % 4 == 0 else j % 2 == 0),
                       key_form=('spki', 'pkcs1', 'nonull')[j % 3])
        ev, frames = observe(run_, token, up, None)
        chk.traces += 1
        chk.case(('rand', j))
        traces.append({'token': token, 'userPlug': up, 'ev': ev, 'version': version, 'script': script})
    # ---- validate
    shards = 8
    per = (len(traces) + shards - 1) // shards
    for s in range(shards):
        part = traces[s * per:(s + 1) * per]
        if not part:
            continue
        tf = os.path.join(chk.work, 'login_traces_%d.json' % s)
        with open(tf, 'w') as f:
            json.dump(part, f)
        r2 = chk.tlc('Trace_Login', 'Trace_Login.cfg', env={'TRACE_FILE': tf}, must_pass=False, workers=4,
                     label='Trace_Login shard %d' % s)
        if r2.violated:
            m = re.search(r'tid = (\d+)', r2.out)
            m2 = None
            for m2 in re.finditer(r'rejected = "([^"]*)"', r2.out):
                pass
            ml = re.findall(r'\bl = (\d+)', r2.out)
            bad = part[int(m.group(1)) - 1] if m else None
            why = m2.group(1) if m2 and m2.group(1) else ('final state check %s' % r2.violated[0])
            at = int(ml[-1]) if ml else 0
            chk.violation('login:trace:%s' % re.sub(r'[^a-z]+', '-', why.lower())[:60],
                          'script %s at protocol %s rejected by Trace_Login at event %d: %s; event: %r'
                          % (bad and json.dumps(bad['script']), bad and bad['version'], at, why,
                             bad and bad['ev'][at - 1:at]), {'trace': bad})
        elif not r2.ok:
            raise core.MachineryError('Trace_Login failed: %s' % r2.errors[:3])
    # ---- refused at the door: disconnect packet and close before the client has written anything
    kinds = sorted(TEXTS)
    for j in range(len(kinds) * (1 if chk.tier == 'quick' else 6)):
        v, kind = [47, 340, 384, 385, 390, 391, 706, 707, 757][j % 9], kinds[j % len(kinds)]
        what = hasty_disconnect(v, kind, chk.seed * 313 + j)
        chk.traces += 1
        chk.case(('hasty', v, kind))
        if what:
            chk.violation('login:disconnect-before-first-write', 'the server sends its login disconnect (%s) and closes before the client '
                          'has written its handshake (protocol %d): %s' % (kind, v, what), {'version': v, 'kind': kind, 'seed': chk.seed * 313 + j})
    chk.extra['behaviours_replayed'] = len(rows)
    chk.extra['random_scripts'] = n_rand
    chk.assumptions += ['RSA private-key operation and the AES block primitive of the peer come from the cryptography package (C18 checks the cipher)',
                        'the peer waits for the answer to a request before switching modes (admissible scripts)',
                        'the join hash oracle here is hashlib + Java signed hex written in the harness (C17 checks it against the TLA+ SHA-1)']
    return chk.finish(
        rule='S->I: every admissible script up to 3 (quick: every 2nd) / 4 optional steps x token x user plugin handler x plugin-capable '
             'version class from TLC\'s exhaustive run of SessionLogin, at versions either side of 385/391/707; I->S: those runs plus '
             'seeded random scripts of up to 8 steps; distinct by script and configuration')
