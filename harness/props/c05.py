"""C05 - every packet class round-trips under every supported protocol version.

 (a) specs/PacketCodec.tla generates "programs" - field-list definitions over
     library types incl. nested arrays, with the exact payload bytes - replayed
     into user-defined Packet subclasses (definition and get_definition styles).
 (b) every class of the 8 state/direction tables x every supported version x
     every action / event / optional-field variant is written and read back by
     the harness; the observations are judged by the law in
     specs/Trace_RoundTrip.tla.
 (c) for definition-driven classes whose field types the reference encoders
     cover, the field list and the payload the library wrote are recomputed by
     TLC (PacketCodec "observed" mode): payload = id ++ reference encodings.
"""
import json
import math
import os
import random
import re
import struct

from .. import core
from ..budget import Sink, CountingStream
from . import c02

F32 = [0.0, 1.0, -1.5, 0.25, 1024.0, -3.75, 65536.5, 0.001953125]


def f32(rng):
    return rng.choice(F32) if rng.random() < 0.5 else struct.unpack('>f', struct.pack('>f', rng.uniform(-1000, 1000)))[0]


class Gen(object):
    def __init__(self, rng, ctx, boundary=False):
        self.rng, self.ctx, self.boundary = rng, ctx, boundary
        from minecraft.networking import types as T
        from minecraft.networking.packets import clientbound as cb
        self.T, self.cb = T, cb

    def pick(self, lo, hi):
        r = self.rng
        if self.boundary or r.random() < 0.4:
            return r.choice([lo, hi, 0 if lo <= 0 <= hi else lo, min(hi, 1), max(lo, -1) if lo < 0 else lo])
        return r.randint(lo, hi)

    def value(self, t):
        T, r = self.T, self.rng
        if isinstance(t, T.FixedPoint):
            lo, hi = {'Integer': (-2 ** 31, 2 ** 31 - 1), 'Short': (-2 ** 15, 2 ** 15 - 1), 'Byte': (-128, 127)}[t.integer_type.__name__]
            return self.pick(lo + 1, hi) / t.denominator       # (-2^31 itself overflows TLC's integer negation)
        if isinstance(t, T.PrefixedArray):
            n = r.choice([0, 1, 3]) if not self.boundary else r.choice([0, 2])
            return [self.value(t.element_type) for _ in range(n)]
        name = t.__name__
        if name == 'Boolean':
            return r.random() < 0.5
        if name == 'Byte':
            return self.pick(-128, 127)
        if name == 'UnsignedByte':
            return self.pick(0, 255)
        if name == 'Short':
            return self.pick(-2 ** 15, 2 ** 15 - 1)
        if name == 'UnsignedShort':
            return self.pick(0, 2 ** 16 - 1)
        if name == 'Integer':
            return self.pick(-2 ** 31, 2 ** 31 - 1)
        if name == 'Long':
            return self.pick(-2 ** 63, 2 ** 63 - 1)
        if name == 'UnsignedLong':
            return self.pick(0, 2 ** 64 - 1)
        if name == 'VarInt':
            return self.pick(0, 2 ** 31 - 1)
        if name == 'VarLong':
            return self.pick(0, 2 ** 63 - 1)
        if name == 'Float':
            return f32(r)
        if name == 'Double':
            return r.choice([0.0, -1.0, 1e300, 2.5e-300, 0.1, 12345.6789]) if r.random() < 0.5 else r.uniform(-1e6, 1e6)
        if name == 'String':
            if r.random() < 0.004:
                # within the protocol's 32767-character limit, but longer than 32767 bytes
                return r.choice(['\u20ac' * 11000, '\u00e9' * 16400, '\U0001F600' * 9000])
            if r.random() < 0.5:
                return r.choice(['', 'a', 'héllo € \U0001F600', 'x' * 127, 'y' * 128, '{"text":"hi"}'])
            # text is any sequence of code points: formatting codes (section sign), control characters, byte order marks,
            # quotes, backslashes, newlines, NUL, non-characters, astral characters
            specials = ['\u00a7', '\u00a7a', '\n', '\r\n', '\t', '\x00', '\x7f', '\ufeff', '\ufffe', '"', "'", '\\', '/', '%s', '{}', '\u200b',
                        '\u202e', '\U0010ffff', ' ', '\u00a0', '\u2028']
            return ''.join(r.choice(specials + ['a', 'Z', '9', '\u00e9']) for _ in range(r.randint(1, 12)))
        if name == 'UUID':
            h = '%032x' % r.getrandbits(128)
            return '%s-%s-%s-%s-%s' % (h[:8], h[8:12], h[12:16], h[16:20], h[20:])
        if name == 'Angle':
            return r.randrange(256) * 360 / 256
        if name == 'Position':
            return T.Position(self.pick(-2 ** 25, 2 ** 25 - 1), self.pick(-2 ** 11, 2 ** 11 - 1), self.pick(-2 ** 25, 2 ** 25 - 1))
        if name in ('VarIntPrefixedByteArray', 'ShortPrefixedByteArray', 'TrailingByteArray'):
            return bytes(r.getrandbits(8) for _ in range(r.choice([0, 1, 5, 130])))
        if name == 'NBT':
            import pynbt
            return pynbt.TAG_Compound({'k': pynbt.TAG_Int(r.randint(-5, 5)), 's': pynbt.TAG_String('v'),
                                       'l': pynbt.TAG_List(pynbt.TAG_Byte, [pynbt.TAG_Byte(1), pynbt.TAG_Byte(2)])})
        if name == 'EffectPosition':
            return T.Vector(*(self.pick(-2 ** 28, 2 ** 28) / 8.0 for _ in range(3)))
        if name == 'Pitch':
            if self.ctx.protocol_later_eq(201):
                return f32(r) if self.ctx.protocol_later_eq(204) else r.choice([0.0, 63.5, 127.0, 1.0])
            return r.choice([0, 1, 2, -2, 0.5]) * 1.0
        if name == 'ChunkSectionPos':
            return t(self.pick(-2 ** 21, 2 ** 21 - 1), self.pick(-2 ** 19, 2 ** 19 - 1), self.pick(-2 ** 21, 2 ** 21 - 1))
        if name == 'Record':
            if issubclass(t, T.Vector):       # ExplosionPacket.Record
                return t(self.pick(-128, 127), self.pick(-128, 127), self.pick(-128, 127))
            new = self.ctx.protocol_later_eq(741)
            return t(x=self.pick(0, 15), y=self.pick(0, 15 if new else 255), z=self.pick(0, 15),
                     block_state_id=self.pick(0, 2 ** 31 - 1 if not new else 2 ** 40))
        raise core.MachineryError('no generator for type %r' % (t,))


def desc_of(T, t):
    """Wire type descriptor for the reference encoders, or None."""
    if isinstance(t, T.FixedPoint):
        return ['FixedPoint', t.integer_type.__name__, int(math.log2(t.denominator))]
    if isinstance(t, T.PrefixedArray):
        e = desc_of(T, t.element_type)
        ln = t.length_type.__name__
        return ['PrefixedArray', ln, e] if e and ln in ('VarInt', 'Short', 'Integer', 'Byte', 'UnsignedByte') else None
    n = t.__name__
    if n in ('Boolean', 'Byte', 'UnsignedByte', 'Short', 'UnsignedShort', 'Integer', 'Long', 'UnsignedLong', 'Float', 'Double',
             'VarInt', 'VarLong', 'String', 'UUID', 'Angle', 'VarIntPrefixedByteArray', 'ShortPrefixedByteArray', 'TrailingByteArray'):
        return [n]
    return None


def abs_of(d, v):
    t = d[0]
    if t in c02.INT_TYPES:
        return c02.int_abs(v)
    if t == 'Boolean':
        return bool(v)
    if t in ('VarInt', 'VarLong'):
        x = core.limbs(v)
        while x and x[-1] == 0:
            x.pop()
        return x
    if t in ('Float', 'Double'):
        return c02.float_abs(float(v), t)
    if t == 'String':
        return [ord(c) for c in v]
    if t in ('VarIntPrefixedByteArray', 'ShortPrefixedByteArray', 'TrailingByteArray'):
        return list(v)
    if t == 'UUID':
        return {'by': list(bytes.fromhex(v.replace('-', ''))), 'txt': [ord(c) for c in v]}
    if t == 'Angle':
        return int(round(v * 2048 / 360))
    if t == 'FixedPoint':
        return [int(round(v * 2 ** d[2])), 0]
    if t == 'PrefixedArray':
        return [abs_of(d[2], x) for x in v]
    raise core.MachineryError(t)


def same(T, t, a, b, ctx):
    if isinstance(t, T.FixedPoint):
        return isinstance(b, (int, float)) and abs(a - b) < 1.0 / t.denominator
    if isinstance(t, T.PrefixedArray):
        return isinstance(b, list) and len(a) == len(b) and all(same(T, t.element_type, x, y, ctx) for x, y in zip(a, b))
    n = t.__name__
    if n == 'Angle':
        d = abs(a - b) % 360
        return min(d, 360 - d) <= 360 / 256 + 1e-9
    if n == 'Pitch':
        return abs(a - b) <= (1 / 63.5 + 1e-6 if not ctx.protocol_later_eq(201) else 1e-4 * max(1, abs(a)))
    if n == 'NBT':
        from minecraft.networking.packets.clientbound.play.join_game_and_respawn_packets import nbt_to_snbt
        return nbt_to_snbt(a) == nbt_to_snbt(b)
    if n in ('Float', 'Double'):
        return a == b or (a != a and b != b)
    if n == 'Position' or n == 'ChunkSectionPos' or n == 'EffectPosition':
        return tuple(a) == tuple(b)
    if n == 'TrailingByteArray' or n.endswith('ByteArray'):
        return bytes(a) == bytes(b)
    return a == b


def variants(cls, ctx, gen, rng):
    """Yield (variant name, packet, comparer) for hand-written codecs; None for definition-driven classes."""
    from minecraft.networking.packets import clientbound as cb, serverbound as sb
    name = cls.__name__
    if name == 'PlayerListItemPacket':
        PL = cls
        out = []
        def u():
            return gen.value(gen.T.UUID)
        for kind in ('add', 'add_named', 'gm', 'lat', 'disp', 'disp_none', 'rem'):
            p = PL(context=ctx)
            acts = []
            for _ in range(rng.choice([1, 2])):
                if kind.startswith('add'):
                    a = PL.AddPlayerAction()
                    a.uuid, a.name, a.gamemode, a.ping = u(), 'né', rng.randint(0, 3), rng.randint(0, 70000)
                    a.properties = []
                    for k in range(rng.choice([0, 2])):
                        a.properties.append(PL.PlayerProperty(name='p%d' % k, value='v', signature=None if k else 'sig'))
                    a.display_name = 'Dn' if kind == 'add_named' else None
                elif kind == 'gm':
                    a = PL.UpdateGameModeAction(); a.uuid, a.gamemode = u(), rng.randint(0, 3)
                elif kind == 'lat':
                    a = PL.UpdateLatencyAction(); a.uuid, a.ping = u(), rng.randint(0, 2 ** 20)
                elif kind.startswith('disp'):
                    a = PL.UpdateDisplayNameAction(); a.uuid, a.display_name = u(), (None if kind == 'disp_none' else '{"text":"x"}')
                else:
                    a = PL.RemovePlayerAction(); a.uuid = u()
                acts.append(a)
            p.action_type, p.actions = type(acts[0]), acts
            out.append((kind, p, lambda a, b: a.action_type is b.action_type and a.actions == b.actions))
        return out
    if name == 'MapPacket':
        out = []
        for kind in ('nopix', 'pix', 'icons', 'icons_named'):
            p = cls(context=ctx)
            p.map_id, p.scale, p.is_tracking_position, p.is_locked = rng.randint(0, 300), rng.randint(0, 4), rng.random() < 0.5, rng.random() < 0.5
            if not ctx.protocol_later_eq(107):
                p.is_tracking_position = True
            if not ctx.protocol_later_eq(452):
                p.is_locked = False
            p.icons = []
            if kind.startswith('icons'):
                named = kind == 'icons_named' and ctx.protocol_later_eq(364)
                for k in range(2):
                    p.icons.append(cls.MapIcon(rng.randint(0, 9), rng.randint(0, 15), (rng.randint(-128, 127), rng.randint(-128, 127)),
                                               'Icon' if (named and k == 0) else None))
            if kind == 'pix':
                p.width, p.height, p.offset = 3, 2, (rng.randint(0, 100), rng.randint(0, 100))
                p.pixels = bytes(rng.getrandbits(8) for _ in range(6))
            else:
                p.width, p.height, p.offset, p.pixels = 0, 0, None, None

            def cmp(a, b):
                return (a.map_id, a.scale, bool(a.is_tracking_position), bool(a.is_locked), a.icons, a.width, a.height, a.offset,
                        None if a.pixels is None else bytes(a.pixels)) == \
                       (b.map_id, b.scale, bool(b.is_tracking_position), bool(b.is_locked), b.icons, b.width, b.height, b.offset,
                        None if b.pixels is None else bytes(b.pixels))
            out.append((kind, p, cmp))
        return out
    if name == 'CombatEventPacket':
        out = []
        for kind, ev in (('enter', cls.EnterCombatEvent()), ('end', cls.EndCombatEvent(duration=rng.randint(0, 9999), entity_id=rng.randint(-5, 5))),
                         ('dead', cls.EntityDeadEvent(player_id=rng.randint(0, 99), entity_id=rng.randint(-9, 9), message='{"text":"rip"}'))):
            p = cls(context=ctx)
            p.event = ev
            out.append((kind, p, lambda a, b: a.event == b.event))
        return out
    if name == 'FacePlayerPacket':
        out = []
        for kind in ('entity', 'position'):
            p = cls(context=ctx)
            p.origin = rng.randint(0, 1)
            p.x, p.y, p.z = rng.uniform(-100, 100), 64.5, -3.25
            if kind == 'entity':
                p.entity_id, p.entity_origin = rng.randint(0, 9999), rng.randint(0, 1)
            else:
                p.entity_id = None
            new = ctx.protocol_later_eq(353)

            def cmp(a, b, kind=kind, new=new):
                if a.entity_id != b.entity_id:
                    return False
                if new:
                    return (a.origin, a.x, a.y, a.z) == (b.origin, b.x, b.y, b.z) and (kind != 'entity' or a.entity_origin == b.entity_origin)
                return kind == 'entity' or (a.x, a.y, a.z) == (b.x, b.y, b.z)
            out.append((kind, p, cmp))
        return out
    if name == 'PluginResponsePacket':
        out = []
        for kind in ('fail', 'ok', 'implied_ok'):
            p = cls(context=ctx)
            p.message_id = rng.randint(0, 2 ** 31 - 1)
            if kind == 'fail':
                p.successful, p.data = False, None
            elif kind == 'ok':
                p.successful, p.data = True, b'\x01\x02payload'
            else:
                p.data = b'xyz'
            out.append((kind, p, lambda a, b, kind=kind: a.message_id == b.message_id and b.successful == (kind != 'fail')
                        and (b.data if b.successful else None) == (a.data if kind != 'fail' else None)))
        return out
    if name == 'SpawnObjectPacket':
        out = []
        for kind in ('data0', 'datapos'):
            p = cls(context=ctx)
            p.entity_id = rng.randint(0, 2 ** 31 - 1)
            p.object_uuid = gen.value(gen.T.UUID)
            p.type_id = rng.randint(0, 100)
            if ctx.protocol_later_eq(100):
                p.x, p.y, p.z = rng.uniform(-1e5, 1e5), 70.0, -0.5
            else:
                p.x, p.y, p.z = rng.randint(-2 ** 31, 2 ** 31 - 1), 0, 32 * 7
            p.pitch, p.yaw = rng.randrange(256) * 360 / 256, rng.randrange(256) * 360 / 256
            p.data = 0 if kind == 'data0' else rng.randint(1, 2 ** 31 - 1)
            p.velocity_x, p.velocity_y, p.velocity_z = rng.randint(-2 ** 15, 2 ** 15 - 1), 0, -1
            has_uuid = ctx.protocol_later_eq(49)
            has_vel = has_uuid or kind == 'datapos'

            def cmp(a, b, has_uuid=has_uuid, has_vel=has_vel):
                ok = (a.entity_id, a.type_id, a.x, a.y, a.z, a.data) == (b.entity_id, b.type_id, b.x, b.y, b.z, b.data)
                ok = ok and abs(a.pitch - b.pitch) < 1.5 and abs(a.yaw - b.yaw) < 1.5
                if has_uuid:
                    ok = ok and a.object_uuid == b.object_uuid
                if has_vel:
                    ok = ok and (a.velocity_x, a.velocity_y, a.velocity_z) == (b.velocity_x, b.velocity_y, b.velocity_z)
                return ok
            out.append((kind, p, cmp))
        return out
    return None


def roundtrip(T, cls, pkt, cmp, ctx, table_id):
    """Write, read back, compare.  Returns the observation and the payload."""
    from minecraft.networking.packets import PacketBuffer
    obs = {'wrote': False, 'idok': False, 'remaining': -1, 'same': False, 'reprok': False, 'err': ''}
    buf = PacketBuffer()
    try:        # a write that fails part-way (fields never set) must leave nothing behind for the next write
        cls(context=ctx).write(PacketBuffer())
    except Exception:       # noqa
        pass
    try:
        pkt.write(buf)
        obs['wrote'] = True
    except Exception as e:      # noqa
        obs['err'] = 'write: %r' % (e,)
        return obs, None
    data = buf.get_writable()
    st = CountingStream(data)
    try:
        length = T.VarInt.read(st)
        start = st.pos
        pid = T.VarInt.read(st)
        obs['idok'] = (pid == table_id == pkt.id) and length == len(data) - start
        out = cls(context=ctx)
        pb = PacketBuffer()
        pb.send(data[st.pos:])
        pb.reset_cursor()
        out.read(pb)
        obs['remaining'] = len(pb.read())
        obs['same'] = type(out) is cls and bool(cmp(pkt, out))
        obs['reprok'] = isinstance(repr(pkt), str) and isinstance(repr(out), str) and isinstance(str(out), str)
    except Exception as e:      # noqa
        obs['err'] = 'read: %r' % (e,)
    return obs, data[start:]


def run(chk):
    mc = core.import_minecraft()
    from minecraft.networking import types as T
    from minecraft.networking.connection import ConnectionContext
    from minecraft.networking.packets import clientbound as cb, serverbound as sb, Packet, PacketBuffer
    rng = random.Random(chk.seed)
    quick = chk.tier == 'quick'

    # ---------------- (a) programs
    r = chk.tlc('MC_PacketCodec', 'PacketCodec.cfg' if quick else 'PacketCodec_thorough.cfg')
    progs = r.printed
    if len(progs) < 500:
        raise core.MachineryError('only %d programs' % len(progs))
    ctx_of = {'XZY': ConnectionContext(protocol_version=757), 'XYZ': ConnectionContext(protocol_version=404)}
    for i, pr in enumerate(progs):
        ctx757 = ctx_of[pr.get('lay', 'XZY')]        # the era whose position layout the reference encoding used
        if i % 4 == 0:
            ctx757 = ConnectionContext(protocol_version={'XZY': 477, 'XYZ': 47}[pr.get('lay', 'XZY')])
        defn = []
        vals = {}
        for j, (ty, v) in enumerate(pr['fields']):
            fname = 'f%d' % j
            defn.append({fname: c02.type_obj(T, ty)})
            vals[fname] = c02.pyval(ty, v)
        for style in ('definition', 'get_definition'):
            attrs = {'packet_name': 'verif program', 'id': pr['id']}
            if style == 'definition':
                attrs['definition'] = defn
            else:
                attrs['get_definition'] = staticmethod(lambda context, defn=defn: defn)
            U = type('UserPacket', (Packet,), attrs)
            p = U(context=ctx757, **vals)
            chk.case(('program', i, style))
            chk.traces += 1
            sink = Sink()
            what = None
            try:
                p.write(sink)
                data = sink.value()
                st = CountingStream(data)
                ln = T.VarInt.read(st)
                payload = data[st.pos:]
                if ln != len(payload) or list(payload) != pr['payload']:
                    what = 'payload %s, reference encoding %s' % (payload.hex(), bytes(pr['payload']).hex())
                else:
                    pb = PacketBuffer()
                    pb.send(bytes(pr['payload'][len(core.limbs(pr['id'])) if pr['id'] else 1:]))
                    pb.reset_cursor()
                    q = U(context=ctx757)
                    q.read(pb)
                    left = len(pb.read())
                    if left:
                        what = '%d bytes left after reading back' % left
                    else:
                        for j, (ty, v) in enumerate(pr['fields']):
                            if not c02.same(ty, getattr(q, 'f%d' % j), vals['f%d' % j]):
                                what = 'field %d reads back as %r, written %r' % (j, getattr(q, 'f%d' % j), vals['f%d' % j])
                        if not what and not isinstance(repr(q), str):
                            what = 'repr failed'
            except Exception as e:      # noqa
                what = 'raised %r' % (e,)
            if what:
                chk.violation('roundtrip:user-defined:%s' % style, 'user-defined packet with fields %s: %s'
                              % (json.dumps([f[0] for f in pr['fields']]), what), {'program': pr})
        if i == 500:
            chk.sample({'program_fields': [f[0] for f in pr['fields']], 'payload': bytes(pr['payload']).hex()})

    # ---------------- (b) + (c) all classes x all supported versions
    law_obs = {}
    byte_obs = {}
    n_pairs = 0
    per_class = {}
    value_sets = 1 if quick else 4
    # the known versions that are not supported as shipped are declared supported at run time, the documented way
    # (SUPPORTED_MINECRAFT_VERSIONS[id] = protocol; initglobals()): "every supported protocol version" includes them then
    shipped = list(mc.SUPPORTED_PROTOCOL_VERSIONS)
    added_ids = [vid for vid in mc.KNOWN_MINECRAFT_VERSIONS if vid not in mc.SUPPORTED_MINECRAFT_VERSIONS]
    for vid in added_ids:
        mc.SUPPORTED_MINECRAFT_VERSIONS[vid] = mc.KNOWN_MINECRAFT_VERSIONS[vid]
    mc.initglobals()
    chk.extra['versions_supported_as_shipped'] = len(shipped)
    chk.extra['versions_enabled_at_run_time'] = len(mc.SUPPORTED_PROTOCOL_VERSIONS) - len(shipped)
    shared_ctx = ConnectionContext(protocol_version=mc.SUPPORTED_PROTOCOL_VERSIONS[0])
    for vi, v in enumerate(list(mc.SUPPORTED_PROTOCOL_VERSIONS)):
        # the library re-uses one long-lived context and re-assigns its version on connect(): do both
        if vi % 2:
            ctx = shared_ctx
            ctx.protocol_version = v
        else:
            ctx = ConnectionContext(protocol_version=v)
        for dname, mod in (('clientbound', cb), ('serverbound', sb)):
            for stname in ('handshake', 'status', 'login', 'play'):
                for cls in sorted(getattr(mod, stname).get_packets(ctx), key=lambda c: c.__name__):
                    try:
                        table_id = cls.get_id(ctx)
                    except Exception:       # noqa
                        table_id = None
                    for vs in range(value_sets):
                        gen = Gen(rng, ctx, boundary=(vs == 1))
                        hand = variants(cls, ctx, gen, rng)
                        items = []
                        if hand is not None:
                            items = [(k, p, cmp, None) for (k, p, cmp) in hand]
                        else:
                            try:
                                defn = cls.get_definition(ctx)
                            except Exception as e:      # noqa
                                chk.violation('roundtrip:%s:definition' % cls.__name__, '%s has no definition at protocol %d: %r' % (cls.__name__, v, e), {})
                                continue
                            p = cls(context=ctx)
                            fl = []
                            for field in defn:
                                for fname, t in field.items():
                                    val = gen.value(t)
                                    setattr(p, fname, val)
                                    fl.append((fname, t, val))

                            def cmp(a, b, fl=fl, ctx=ctx):
                                return all(hasattr(b, n) and same(T, t, val, getattr(b, n), ctx) for (n, t, val) in fl)
                            items = [('default', p, cmp, fl)]
                        for (variant, p, cmp, fl) in items:
                            obs, payload = roundtrip(T, cls, p, cmp, ctx, table_id)
                            n_pairs += 1
                            chk.traces += 1
                            per_class[cls.__name__] = per_class.get(cls.__name__, 0) + 1
                            okey = (obs['wrote'], obs['idok'], obs['remaining'], obs['same'], obs['reprok'])
                            bad = not (obs['wrote'] and obs['idok'] and obs['remaining'] == 0 and obs['same'] and obs['reprok'])
                            rec = law_obs.setdefault(okey if not bad else okey + (cls.__name__, variant), {'n': 0, 'first': None})
                            rec['n'] += 1
                            if rec['first'] is None:
                                rec['first'] = (cls.__name__, variant, v, obs['err'], dname, stname)
                            chk.case((cls.__name__, variant, v, vs))
                            if fl is not None and payload is not None and obs['wrote']:
                                ds = [desc_of(T, t) for (_, t, _) in fl]
                                if all(ds):
                                    key = (table_id, bytes(payload))
                                    if key not in byte_obs and len(payload) < 2000:
                                        byte_obs[key] = {'id': table_id, 'fields': [[d, abs_of(d, val)] for d, (_, t, val) in zip(ds, fl)],
                                                         'payload': list(payload), 'cls': cls.__name__, 'v': v}
    for vid in added_ids:
        del mc.SUPPORTED_MINECRAFT_VERSIONS[vid]
    mc.initglobals()
    if list(mc.SUPPORTED_PROTOCOL_VERSIONS) != shipped:
        raise core.MachineryError('the supported versions were not restored')
    # ---- the law, judged by TLC
    items = list(law_obs.items())
    obs_list = [{'wrote': k[0], 'idok': k[1], 'remaining': k[2], 'same': k[3], 'reprok': k[4], 'n': rec['n']} for k, rec in items]
    tf = os.path.join(chk.work, 'roundtrip.json')
    with open(tf, 'w') as f:
        json.dump(obs_list, f)
    r2 = chk.tlc('Trace_RoundTrip', 'Trace_RoundTrip.cfg', env={'TRACE_FILE': tf}, must_pass=False)
    if r2.violated:
        # report every distinct failing (class, variant) - each is its own finding key
        for k, rec in items:
            if not (k[0] and k[1] and k[2] == 0 and k[3] and k[4]):
                cname, variant, v, err, dname, stname = rec['first']
                stage = 'write' if not k[0] else ('id' if not k[1] else ('read' if k[2] < 0 else ('leftover' if k[2] else ('fields' if not k[3] else 'repr'))))
                chk.violation('roundtrip:%s:%s:%s' % (cname, variant, stage),
                              '%s (%s, %s/%s) fails the round-trip law at %d (class, version) pairs, first at protocol %d: %s %s'
                              % (cname, variant, dname, stname, rec['n'], v, dict(zip(('wrote', 'idok', 'remaining', 'same', 'reprok'), k[:5])), err),
                              {'class': cname, 'variant': variant, 'version': v})
    elif not r2.ok:
        raise core.MachineryError('Trace_RoundTrip failed: %s' % r2.errors[:3])
    # ---- (c) byte-level, judged by TLC
    bl = list(byte_obs.values())
    if quick and len(bl) > 2500:
        rng.shuffle(bl)
        bl = bl[:2500]
    shards = 8
    per = (len(bl) + shards - 1) // shards
    for s in range(shards):
        part = bl[s * per:(s + 1) * per]
        if not part:
            continue
        tf = os.path.join(chk.work, 'packet_bytes_%d.json' % s)
        with open(tf, 'w') as f:
            json.dump([{k: o[k] for k in ('id', 'fields', 'payload')} for o in part], f)
        r3 = chk.tlc('MC_PacketCodec', 'PacketCodec_observed.cfg', env={'TRACE_FILE': tf}, must_pass=False, workers=4,
                     label='PacketCodec observed shard %d' % s)
        if r3.violated:
            m = re.search(r'src = (\d+)', r3.out)
            bad = part[int(m.group(1)) - 1] if m else None
            chk.violation('roundtrip:%s:bytes' % (bad['cls'] if bad else '?'),
                          '%s at protocol %s: the payload written is not id ++ reference encodings of its fields: %s'
                          % (bad and bad['cls'], bad and bad['v'], bad and bytes(bad['payload'][:40]).hex()), {'obs': bad})
        elif not r3.ok:
            raise core.MachineryError('PacketCodec observed failed: %s' % r3.errors[:3])
    chk.sample({'class_version_pairs': n_pairs, 'distinct_law_observations': len(obs_list)})
    chk.extra['class_version_variant_executions'] = n_pairs
    chk.extra['executions_per_class'] = per_class
    chk.extra['byte_level_observations'] = len(bl)
    chk.extra['programs'] = len(progs)
    chk.assumptions += ['NBT (pynbt) is an opaque external codec: compared through its textual form',
                        'instances are enumerated by the harness (generators per field type, hand-written builders for the six hand-written codecs); '
                        'TLC is the uniform judge of the logged law and recomputes payload bytes for definition-driven classes']
    return chk.finish(
        rule='(a) every program of PacketCodec (definitions of <= 2 / 3 fields over 13 typed values incl. nested arrays + trailing arrays, 5 ids) x 2 '
             'declaration styles; (b) every class of the 8 tables x every supported version x every variant x 1 (quick) / 4 value sets; (c) '
             'distinct (id, payload) of definition-driven classes recomputed by TLC; distinct by (class, variant, version, value set)')
