"""C06 - per-version packet id tables are total and injective.

T-mode: the table the code exhibits for every known protocol version x 4 states
x 2 directions is handed to TLC as a constant; IdTables.tla ASSUMEs totality and
injectivity on the supported versions and model-checks the dict build / lookup of
the consumer under every insertion order.  The real PacketReactor subclasses are
then constructed for every supported version under shuffled class orders and
their dispatch dict must equal the table.
"""
import json
import os
import random
import re

from .. import core

STATES = ('handshake', 'status', 'login', 'play')


def tables(mc, order=None):
    from minecraft.networking.packets import clientbound, serverbound
    from minecraft.networking.connection import ConnectionContext
    out = []
    classes = {}
    for v in (mc.KNOWN_PROTOCOL_VERSIONS if order is None else order):
        ctx = ConnectionContext(protocol_version=v)
        sup = v in mc.SUPPORTED_PROTOCOL_VERSIONS
        for st in STATES:
            for dname, mod in (('clientbound', clientbound), ('serverbound', serverbound)):
                try:
                    cs = getattr(mod, st).get_packets(ctx)
                except Exception as e:      # noqa
                    out.append({'v': v, 'sup': sup, 'st': st, 'dir': dname,
                                'ids': [{'cls': 'get_packets raised %r' % e, 'id': -1, 'isint': False}]})
                    continue
                ids = []
                for c in sorted(cs, key=lambda c: c.__module__ + '.' + c.__name__):
                    try:
                        i = c.get_id(ctx)
                    except Exception as e:  # noqa
                        i = None
                    isint = isinstance(i, int) and not isinstance(i, bool)
                    ids.append({'cls': c.__name__, 'id': i if isint and abs(i) < 2 ** 31 else -1, 'isint': isint,
                                'foreign': not str(getattr(c, '__module__', '')).startswith('minecraft.')})
                    classes[(v, st, dname, c.__name__)] = c
                out.append({'v': v, 'sup': sup, 'st': st, 'dir': dname, 'ids': ids})
    return out, classes


def run(chk):
    mc = core.import_minecraft()
    from minecraft.networking import connection as conn
    from minecraft.networking.connection import ConnectionContext
    rng = random.Random(chk.seed)
    tab, classes = tables(mc)
    for t in tab:
        seen, coll = {}, []
        for x in t['ids']:
            if x['id'] in seen:
                coll.append('idtable:collision:%s/%s@%d' % (tuple(sorted((x['cls'], seen[x['id']]))) + (t['v'],)))
            seen[x['id']] = x['cls']
        t['exc'] = bool(coll) and all(c in chk.known for c in coll)
    tf = os.path.join(chk.work, 'idtable.json')
    with open(tf, 'w') as f:
        json.dump(tab, f)
    r = chk.tlc('IdTables', 'IdTables.cfg', env={'TRACE_FILE': tf}, must_pass=False)
    for p in r.printed:
        if 'collisions_at_unsupported' in p:
            chk.extra['collisions_at_unsupported_versions_informational'] = sorted(p['collisions_at_unsupported'])
    if True:
        # name the offending entries
        for t in tab:
            if not t['sup']:
                continue
            seen = {}
            for x in t['ids']:
                if not x['isint'] or x['id'] < 0:
                    chk.violation('idtable:not-total:%s' % x['cls'],
                                  'class %s has no non-negative integer id at protocol %d (%s/%s)' % (x['cls'], t['v'], t['st'], t['dir']),
                                  {'entry': t})
                elif x['id'] in seen:
                    chk.violation('idtable:collision:%s/%s@%d' % (tuple(sorted((x['cls'], seen[x['id']]))) + (t['v'],)),
                                  'classes %s and %s share id 0x%02X at protocol %d (%s/%s)'
                                  % (seen[x['id']], x['cls'], x['id'], t['v'], t['st'], t['dir']), {'entry': t})
                else:
                    seen[x['id']] = x['cls']
        if not r.ok and not chk.violations:
            raise core.MachineryError('IdTables failed: %s' % (r.errors[:2],))
    # ---- the tables are asked for again in other version orders (descending, zig-zag, shuffled): whatever was built
    #      before, every table must still be total and injective (state shared between calls must not leak classes)
    # an application may subclass any packet class (its own decoders, for its own reactor): merely defining such classes
    # must not change the library's tables
    lib_classes = set()
    for c in set(classes.values()):
        for b in c.__mro__:                     # the registered classes and every library base class they derive from
            if str(getattr(b, '__module__', '')).startswith('minecraft.'):
                lib_classes.add(b)
    user_classes = []
    for c in sorted(lib_classes, key=lambda c: (c.__module__, c.__name__)):
        try:
            user_classes.append(type(c)('User' + c.__name__, (c,), {'__module__': 'application'}))
        except Exception:       # noqa  (a class that cannot be subclassed this way is not probed)
            pass
    chk.extra['user_subclasses_defined'] = len(user_classes)
    supv = list(mc.SUPPORTED_PROTOCOL_VERSIONS)
    zig = [supv[(-1 - i // 2) if i % 2 == 0 else i // 2] for i in range(len(supv))]
    passes = [('descending', list(reversed(supv))), ('zigzag', zig)]
    for k in range(1 if chk.tier == 'quick' else 6):
        w = list(supv)
        rng.shuffle(w)
        passes.append(('shuffled%d' % k, w))
    first = {(t['v'], t['st'], t['dir']): t for t in tab}
    for pname, order in passes:
        tab2, _ = tables(mc, order)
        for t in tab2:
            chk.evaluations += 1
            seen = {}
            ref = first[(t['v'], t['st'], t['dir'])]
            if t['ids'] != ref['ids']:
                chk.drift.append({'table-depends-on-call-order': [pname, t['v'], t['st'], t['dir']]})
            for x in t['ids']:
                if x.get('foreign'):
                    chk.violation('idtable:foreign-class:%s/%s' % (t['st'], t['dir']), 'the %s/%s table at protocol %d registers %s, a class defined '
                                  'by the application, not by the library' % (t['st'], t['dir'], t['v'], x['cls']), {'entry': t, 'pass': pname})
                elif not x['isint'] or x['id'] < 0:
                    chk.violation('idtable:not-total:%s' % x['cls'], 'class %s has no non-negative integer id at protocol %d (%s/%s) '
                                  'when the tables are built in %s order' % (x['cls'], t['v'], t['st'], t['dir'], pname), {'entry': t, 'pass': pname})
                elif x['id'] in seen:
                    chk.violation('idtable:collision:%s/%s@%d' % (tuple(sorted((x['cls'], seen[x['id']]))) + (t['v'],)),
                                  'classes %s and %s share id 0x%02X at protocol %d (%s/%s) when the tables are built in %s order'
                                  % (seen[x['id']], x['cls'], x['id'], t['v'], t['st'], t['dir'], pname), {'entry': t, 'pass': pname})
                else:
                    seen[x['id']] = x['cls']
    chk.extra['extra_build_orders'] = [p[0] for p in passes]
    n_sup = 0
    for t in tab:
        if t['sup']:
            n_sup += 1
            chk.case(('table', t['v'], t['st'], t['dir']), nontrivial=len(t['ids']) > 0)

    # ---- consumer binding: the real reactors' dispatch dicts, under shuffled class orders
    reactors = {'handshake': conn.PacketReactor, 'status': conn.StatusReactor,
                'login': conn.LoginReactor, 'play': conn.PlayingReactor}

    class FakeConn(object):
        pass
    orders = 3 if chk.tier == 'quick' else 8
    held = []           # reactors kept alive: several connections at different versions live in one process
    for t in tab:
        if not t['sup'] or t['dir'] != 'clientbound':
            continue
        ctx = ConnectionContext(protocol_version=t['v'])
        fc = FakeConn()
        fc.context = ctx
        rc = reactors[t['st']]
        want = {x['id']: x['cls'] for x in t['ids']}
        if len(want) != len(t['ids']):
            continue        # a collision in the table itself, already reported above
        cls_list = [classes[(t['v'], t['st'], t['dir'], x['cls'])] for x in t['ids']]
        for k in range(orders):
            if k == 0:
                reactor = rc(fc)
                held.append((reactor, want, t))
            else:
                order = list(cls_list)
                rng.shuffle(order)
                sub = type('Shuffled' + rc.__name__, (rc,), {
                    'get_clientbound_packets': staticmethod(lambda context, o=order: list(o))})
                reactor = sub(fc)
            got = {i: c.__name__ for i, c in reactor.clientbound_packets.items()}
            chk.traces += 1
            if got != want or len(got) != len(t['ids']):
                chk.violation('reactor-dict:%s' % t['st'],
                              '%s dispatch dict at protocol %d differs from the id table: %r vs %r'
                              % (rc.__name__, t['v'], sorted(got.items())[:6], sorted(want.items())[:6]), {'entry': t})
    # reactors built earlier still decode with their own version's table after all the others have been built
    for reactor, want, t in held:
        got = {i: c.__name__ for i, c in reactor.clientbound_packets.items()}
        chk.evaluations += 1
        if got != want:
            diff = sorted(set(got.items()) ^ set(want.items()))[:4]
            chk.violation('reactor-dict:live-reactors:%s' % t['st'],
                          'a %s built for protocol %d decodes with another table once reactors for other versions exist: %r'
                          % (type(reactor).__name__, t['v'], diff), {'entry': t})
            break
        # known ids select exactly the class whose id it is (lookup)
    # ---- the same Connection / context re-used across versions (connect() re-assigns protocol_version on the
    #      long-lived context): the decoder table must follow the version in use, not an earlier one
    by_key = {(t['v'], t['st']): t for t in tab if t['dir'] == 'clientbound' and t['sup']}
    sup_versions = [v for v in mc.SUPPORTED_PROTOCOL_VERSIONS]
    walks = [list(sup_versions), list(reversed(sup_versions))]
    for _ in range(1 if chk.tier == 'quick' else 4):
        w = list(sup_versions)
        rng.shuffle(w)
        walks.append(w)
    for w in walks:
        fc = FakeConn()
        fc.context = ConnectionContext(protocol_version=w[0])
        for v in w:
            fc.context.protocol_version = v
            for st, rc in reactors.items():
                t = by_key[(v, st)]
                want = {x['id']: x['cls'] for x in t['ids']}
                if len(want) != len(t['ids']):
                    continue
                got = {i: c.__name__ for i, c in rc(fc).clientbound_packets.items()}
                chk.traces += 1
                if got != want:
                    diff = sorted(set(got.items()) ^ set(want.items()))[:4]
                    chk.violation('reactor-dict:reused-context:%s' % st,
                                  '%s built on a context re-used across versions decodes protocol %d with another version\'s table: %r'
                                  % (rc.__name__, v, diff), {'version': v, 'state': st})
    # ---- the decoder follows the connection's state: a frame read by the login reactor and the same frame read by the
    #      playing reactor of the same connection right afterwards (as after login success) select the class of that id
    #      in the respective table - or the generic packet where the id is not registered
    import socket as _socket
    from ..profile import Profile
    from .. import peer as P
    from minecraft.networking.packets import Packet as _Packet
    handovers = 0
    for v in (supv if chk.tier == 'thorough' else supv[::3] + [47, 107, 385, 390]):
        prof = Profile(v)
        c = conn.Connection('localhost', 25565, allowed_versions={v})
        frames_ = [('login_success', prof.login_success(bytes(range(16)), 'u')), ('login_compress', prof.login_compress(300)),
                   ('login_disconnect', prof.login_disconnect('{"text":"x"}'))]
        if prof.c.get('plugin_request') is not None:
            frames_.append(('plugin_request', prof.plugin_request(5, 'a:b', b'zz')))
        play_tab = {x['id']: x['cls'] for x in by_key[(v, 'play')]['ids']} if (v, 'play') in by_key else {}
        login_tab = {x['id']: x['cls'] for x in by_key[(v, 'login')]['ids']}
        for kind, payload in frames_:
            pid = prof.c[kind]
            if pid in play_tab:
                continue            # the payload of the login packet is not a payload of the play packet of that id
            got = []
            for rc in (conn.LoginReactor, conn.PlayingReactor):
                s1, s2 = _socket.socketpair()
                try:
                    s1.sendall(P.venc(len(payload)) + payload)
                    fo = s2.makefile('rb', 0)
                    pk = rc(c).read_packet(fo, timeout=2)
                    fo.close()
                    got.append((type(pk).__name__, getattr(pk, 'id', None)) if pk is not None else ('nothing', None))
                except Exception as e:      # noqa
                    got.append(('raised %s' % type(e).__name__, None))
                finally:
                    s1.close()
                    s2.close()
            handovers += 1
            chk.evaluations += 1
            if got[0][0] != login_tab.get(pid) or got[1] != ('Packet', pid):
                chk.violation('reactor-dict:state-handover', 'protocol %d, id 0x%02X read by the login reactor and then by the playing reactor of '
                              'the same connection: decoded as %r and %r; the tables say %s and an unregistered id (generic packet)'
                              % (v, pid, got[0], got[1], login_tab.get(pid)), {'version': v, 'id': pid})
                break
    chk.extra['state_handover_probes'] = handovers
    # ---- ... and through a whole session: an ordinary listener that raises IgnorePacket for the login success (that only
    #      stops later listeners) - the play packets that follow are still decoded by the play table
    from ..session import Run, TracingScript
    from ..profile import Profile
    from minecraft.exceptions import IgnorePacket
    from minecraft.networking.packets import Packet, clientbound as _cb
    live = 0
    for v in (757, 340, 47, 498):
        if v not in mc.SUPPORTED_PROTOCOL_VERSIONS:
            continue
        for ignoring in (True, False):
            prof = Profile(v)
            run_ = Run(seed=chk.seed + v)

            def factory(idx, sess, prof=prof, run_=run_):
                sc = TracingScript(run_, prof, [])
                sc.steps = [('expect', 2), ('send', prof.login_success(bytes(range(16)), 'verif')), ('call', lambda s_: setattr(s_, 'state', 'play')),
                            ('send', prof.keep_alive(77)), ('expect', 3), ('send', prof.play_disconnect('{"text":"bye"}'))]
                return sc
            run_.serve(factory)
            seen = []

            def scenario(run_, v=v, ignoring=ignoring, seen=seen):
                c = run_.make_connection(allowed_versions={v})

                def on_success(pkt):
                    if ignoring:
                        raise IgnorePacket
                c.register_packet_listener(on_success, _cb.login.LoginSuccessPacket)
                c.register_packet_listener(lambda pkt: seen.append(type(pkt)), Packet)
                c.connect()
                run_.settle()
            run_.go(scenario)
            live += 1
            chk.evaluations += 1
            chk.case(('session-handover', v, ignoring))
            names = ['%s.%s' % (t.__module__.replace('minecraft.networking.packets.', ''), t.__name__) for t in seen]
            want = _cb.play.KeepAlivePacket
            if want not in seen or not any(t.__name__ == 'DisconnectPacket' and 'play' in t.__module__ for t in seen):
                chk.violation('reactor-dict:session-handover', 'protocol %d, an ordinary listener %s the login success: the keep-alive and the '
                              'disconnect sent in the play state were delivered as %r' % (v, 'raised IgnorePacket for' if ignoring else 'watched', names),
                              {'v': v, 'ignoring': ignoring})
    chk.extra['session_handover_executions'] = live
    # ---- a version the application declares supported at run time (a record appended to
    #      KNOWN_MINECRAFT_VERSION_RECORDS + initglobals(use_known_records=True)): its tables are total and injective
    #      too, and - being later than every id switch in the library - equal to the latest shipped version's
    latest = mc.KNOWN_PROTOCOL_VERSIONS[-1]
    latest_rel = max(v for v in mc.KNOWN_PROTOCOL_VERSIONS if v < 0x40000000)
    added = [mc.Version('verif-next-release', latest_rel + 1, True), mc.Version('verif-next-snapshot', 0x40000000 + 4000, True)]
    before = {(t['st'], t['dir']): t for t in tab}
    ref_for = {added[0].protocol: latest if latest < 0x40000000 else latest_rel, added[1].protocol: None}
    try:
        mc.KNOWN_MINECRAFT_VERSION_RECORDS.extend(added)
        mc.initglobals(use_known_records=True)
        tab3, _ = tables(mc, [a.protocol for a in added])
        for t in tab3:
            chk.evaluations += 1
            chk.case(('table-added-at-run-time', t['v'], t['st'], t['dir']))
            seen = {}
            for x in t['ids']:
                if not x['isint'] or x['id'] < 0:
                    chk.violation('idtable:run-time-version:not-total', 'after protocol %d was added at run time, %s/%s: %s has no '
                                  'non-negative integer id' % (t['v'], t['st'], t['dir'], x['cls']), {'entry': t})
                    break
                if x['id'] in seen:
                    chk.violation('idtable:run-time-version:collision', 'after protocol %d was added at run time, %s/%s: %s and %s share '
                                  'id 0x%02X' % (t['v'], t['st'], t['dir'], seen[x['id']], x['cls'], x['id']), {'entry': t})
                    break
                seen[x['id']] = x['cls']
            ref = ref_for[t['v']] and [u for u in tab if u['v'] == ref_for[t['v']] and (u['st'], u['dir']) == (t['st'], t['dir'])]
            if ref and [(x['cls'], x['id']) for x in ref[0]['ids']] != [(x['cls'], x['id']) for x in t['ids']]:
                chk.violation('idtable:run-time-version:differs-from-latest', 'after protocol %d was added at run time, its %s/%s table '
                              'differs from protocol %d' % (t['v'], t['st'], t['dir'], ref_for[t['v']]), {'entry': t})
        # and the shipped versions' tables are what they were
        tab4, _ = tables(mc, [v for v in supv[-3:]] + [supv[0]])
        for t in tab4:
            ref = [u for u in tab if (u['v'], u['st'], u['dir']) == (t['v'], t['st'], t['dir'])][0]
            if [(x['cls'], x['id']) for x in ref['ids']] != [(x['cls'], x['id']) for x in t['ids']]:
                chk.violation('idtable:run-time-version:changes-shipped', 'after versions were added at run time the %s/%s table of '
                              'protocol %d changed' % (t['st'], t['dir'], t['v']), {'entry': t})
    finally:
        for a in added:
            if a in mc.KNOWN_MINECRAFT_VERSION_RECORDS:
                mc.KNOWN_MINECRAFT_VERSION_RECORDS.remove(a)
        mc.initglobals(use_known_records=True)
    chk.extra['versions_added_at_run_time'] = [a.protocol for a in added]
    chk.sample({'v': tab[-8]['v'], 'st': tab[-8]['st'], 'dir': tab[-8]['dir'], 'ids': tab[-8]['ids'][:5]})
    play = [t for t in tab if t['v'] == 757 and t['st'] == 'play' and t['dir'] == 'clientbound'][0]
    chk.sample({'v': 757, 'st': 'play', 'dir': 'clientbound', 'n_classes': len(play['ids']), 'first': play['ids'][:4]})
    chk.extra['tables_supported'] = n_sup
    chk.extra['tables_total'] = len(tab)
    chk.extra['shuffled_orders_per_table'] = orders
    return chk.finish(
        rule='one case per (supported version, state, direction) table, all evaluated from the running code; '
             'non-trivial = non-empty class set; TLC additionally walks every insertion order of the dispatch-dict '
             'build for tables of <= 5 classes',
        exhaustive=True)
