"""C03 - VarInt/VarLong decoding is bounded, encoding terminates and is canonical.

Spec: specs/VarIntCodec.tla (model of the reader and writer loops + contract).
 1. TLC checks the model against the contract on every explored input
    (exhaustive <= 2-byte strings, continuation shapes, every n < 2^14 / 2^21,
    powers of two up to 2^77, negatives) and prints one row per terminal state.
 2. S->I: every row is replayed into the real VarInt/VarLong code.
 3. I->S: seeded random long inputs are run through the code; the observations
    are judged by the contract in TLC (Trace_VarInt).
 4. Liveness of the model (Terminates) and, in the thorough tier, the pre-fix
    writer configuration, in which TLC must find the divergence.
"""
import json
import os
import random

from .. import core
from ..budget import run_with_budget, CountingStream, Sink, open_stream, STREAM_KINDS


def _canon_digits(n):
    d = core.limbs(n)
    while d and d[-1] == 0:
        d.pop()
    return d


def _from_digits(d, ext):
    n = core.unlimbs(d)
    if ext:
        n -= 128 ** len(d)
    return n


_CALLS, _CTX = [0], [None]


def _do_read(types, mx, data, stream='counting'):
    cls = types.VarInt if mx == 5 else types.VarLong
    stream_obj, st = open_stream(stream, data)
    # the decoder is reached both ways: directly, and as a packet field (read_with_context) - every other call each
    _CALLS[0] += 1
    if _CALLS[0] % 2:
        kind, val = run_with_budget(lambda: cls.read(stream_obj), 5000)
    else:
        if _CTX[0] is None:
            from minecraft.networking.connection import ConnectionContext
            _CTX[0] = ConnectionContext(protocol_version=757)
        kind, val = run_with_budget(lambda: cls.read_with_context(stream_obj, _CTX[0]), 5000)
    if kind == 'ok':
        if not isinstance(val, int) or isinstance(val, bool):
            return 'other', st.pos, None, 'returned %r' % (val,)
        return 'value', st.pos, val, None
    if kind == 'diverges':
        return 'diverges', st.pos, None, None
    if isinstance(val, EOFError):
        return 'eof', st.pos, None, None
    if isinstance(val, ValueError):
        return 'toolong', st.pos, None, None
    return 'other', st.pos, None, repr(val)


def _do_write(types, n):
    sink = Sink()
    kind, val = run_with_budget(lambda: types.VarInt.send(n, sink), 20000)
    if kind == 'ok':
        return 'bytes', list(sink.value())
    if kind == 'diverges':
        return 'diverges', None
    return 'raise', repr(val)


def _size(types, cls, n):
    try:
        return cls.size(n)
    except Exception:    # noqa
        return -1


def interleaved_encoders(chk, types, rng, n_cases):
    """Two encodings in flight at once (another thread of the process encodes while this one is inside its loop): the
    interleaving is forced deterministically by an int whose shift performs a complete second encoding into a
    different sink; both outputs must be what they are alone.  (Followed by a short run with two real threads.)"""
    def want(n):
        out = bytearray()
        while True:
            out.append((n & 0x7F) | (0x80 if n >> 7 else 0))
            n >>= 7
            if not n:
                return bytes(out)

    class Paused(int):
        hook = None

        def _w(self, r):
            r = Paused(r)
            r.hook = self.hook
            return r

        def __rshift__(self, k):
            if self.hook:
                self.hook()
            return self._w(int(self) >> k)

        def __and__(self, k):
            return int(self) & k

    for i in range(n_cases):
        a = rng.getrandbits(rng.choice([7, 14, 21, 28, 31]))
        b = rng.getrandbits(rng.choice([7, 14, 21, 28, 31]))
        at = rng.randrange(0, 5)
        calls, other = [0], Sink()

        def hook():
            calls[0] += 1
            if calls[0] == at + 1:
                types.VarInt.send(b, other)
        v = Paused(a)
        v.hook = hook
        mine = Sink()
        kind, val = run_with_budget(lambda: types.VarInt.send(v, mine), 20000)
        chk.evaluations += 1
        chk.case(('interleaved', a, b, at))
        got = (kind, mine.value() if kind == 'ok' else repr(val), other.value())
        exp = ('ok', want(a), want(b) if calls[0] > at else b'')
        if got != exp:
            chk.violation('VarInt.send:interleaved', 'encoding %d while an encoding of %d runs after %d step(s): wrote %r and %r, expected %r and %r'
                          % (a, b, at, got[1], got[2], exp[1], exp[2]), {'a': a, 'b': b, 'at': at})
            return
    import sys
    import threading
    bad, old = [], sys.getswitchinterval()

    def worker(vals):
        for n in vals:
            s = Sink()
            types.VarInt.send(n, s)
            if s.value() != want(n):
                bad.append((n, s.value().hex()))
                return
    sys.setswitchinterval(1e-6)
    try:
        ts = [threading.Thread(target=worker, args=([rng.getrandbits(31) for _ in range(4000)],)) for _ in range(3)]
        [t.start() for t in ts]
        [t.join() for t in ts]
    finally:
        sys.setswitchinterval(old)
    chk.evaluations += 12000
    if bad:
        chk.violation('VarInt.send:interleaved', 'three threads encoding at once: %d came out as %s' % bad[0], {'n': bad[0][0]})


def run(chk):
    core.import_minecraft()
    from minecraft.networking import types
    rng = random.Random(chk.seed)
    tier = chk.tier

    # -- 1. exhaustive model run, rows emitted
    r = chk.tlc('MC_VarInt_%s' % tier, 'VarInt_%s.cfg' % tier)
    rows = r.printed
    if len(rows) < 1000:
        raise core.MachineryError('TLC emitted only %d rows' % len(rows))

    # -- 2. S->I replay
    n_r = n_w = 0
    for row in rows:
        if row['k'] == 'r':
            n_r += 1
            mx, inp = row['mx'], row['inp']
            # every kind of stream for short inputs and truncations, rotating kinds for the bulk
            kinds = STREAM_KINDS if (len(inp) <= 2 or n_r % 9 == 0) else (STREAM_KINDS[n_r % 3],)
            first = _do_read(types, mx, inp, kinds[0])
            for sk in kinds[1:]:
                o_, c_, v_, note_ = _do_read(types, mx, inp, sk)
                if (o_, c_, v_) != first[:3]:
                    chk.violation('%s.read:stream-kind:%s' % ('VarInt' if mx == 5 else 'VarLong', sk),
                                  '%s.read(%s) gives %r on a %s stream and %r on a %s stream'
                                  % ('VarInt' if mx == 5 else 'VarLong', bytes(inp).hex(), (o_, c_, v_), sk, first[:3], kinds[0]),
                                  {'row': row, 'stream': sk})
                    break
            o, c, v, note = first
            key = ('r', mx, tuple(inp))
            chk.case(key, nontrivial=len(inp) > 0)
            chk.traces += 1
            name = 'VarInt' if mx == 5 else 'VarLong'
            what = None
            if o not in row['allowed']:
                what = '%s.read(%s) -> %s, spec allows %s' % (name, bytes(inp).hex(), o, row['allowed'])
                vkey = '%s.read:%s-instead-of-%s' % (name, o, '|'.join(sorted(row['allowed'])))
            elif c > mx + 1:
                what = '%s.read consumed %d bytes (> %d)' % (name, c, mx + 1)
                vkey = '%s.read:overread' % name
            elif o == 'value':
                exp = core.unlimbs([b & 0x7f for b in inp[:row['tp']]])
                if c != row['tp']:
                    what = '%s.read(%s) consumed %d bytes, terminator at %d' % (name, bytes(inp).hex(), c, row['tp'])
                    vkey = '%s.read:consumed' % name
                elif v != exp or v < 0:
                    what = '%s.read(%s) = %r, expected %r' % (name, bytes(inp).hex(), v, exp)
                    vkey = '%s.read:value' % name
                elif row['o'] == 'value' and v != core.unlimbs(row['g']):
                    raise core.MachineryError('row value mismatch %r' % row)
            if what:
                chk.violation(vkey, what, {'row': row, 'observed': [o, c, v, note]})
            elif o != row['o']:
                chk.drift.append({'row': row, 'observed': o})
            if n_r in (5, 70000, 140000):
                chk.sample({'read': name, 'input': bytes(inp).hex(), 'observed': o, 'consumed': c,
                            'value': v, 'allowed': row['allowed']})
        else:
            n_w += 1
            n = _from_digits(row['n'], row['e'])
            o, b = _do_write(types, n)
            chk.case(('w', n))
            chk.traces += 1
            what = None
            if o == 'diverges':
                what = 'VarInt.send(%d) does not terminate (step budget exhausted)' % n
                vkey = 'VarInt.send:negative-diverges' if n < 0 else 'VarInt.send:diverges'
            elif n >= 0 and o != 'bytes':
                what = 'VarInt.send(%d) raised %s' % (n, b)
                vkey = 'VarInt.send:raises-in-domain'
            elif n >= 0 and n < 2 ** 64:
                if b != row['b']:
                    what = 'VarInt.send(%d) = %s, canonical form is %s' % (n, bytes(b).hex(), bytes(row['b']).hex())
                    vkey = 'VarInt.send:non-canonical'
                else:
                    for cls, lim in ((types.VarInt, 2 ** 32), (types.VarLong, 2 ** 64)):
                        if n < lim:
                            sz = _size(types, cls, n)
                            if sz != row['sz']:
                                what = '%s.size(%d) = %r, encoded length is %d' % (cls.__name__, n, sz, row['sz'])
                                vkey = '%s.size' % cls.__name__
                    # decoding what was encoded gives n back
                    if what is None:
                        o2, c2, v2, _ = _do_read(types, 5 if n < 2 ** 32 else 10, b)
                        if (o2, c2, v2) != ('value', len(b), n):
                            what = 'decode(encode(%d)) -> %r' % (n, (o2, c2, v2))
                            vkey = 'VarInt:roundtrip'
            if what:
                chk.violation(vkey, what, {'row': row, 'n': n, 'observed': [o, b]})
            elif o != row['o'] or (o == 'bytes' and b != row['b'] and row['o'] == 'bytes'):
                chk.drift.append({'row': row, 'observed': [o, b]})
            if n_w in (300, 16500):
                chk.sample({'send': n, 'observed': o, 'bytes': bytes(b).hex() if o == 'bytes' else b})

    # -- 2b. thorough: every n < 2^21 through the real writer / reader / size (the model covers them all in TLC;
    #        the rows printed for replay stop at 2^14 plus corners)
    if tier == 'thorough':
        swept = 0
        for n in range(1 << 21):
            sink = Sink()
            types.VarInt.send(n, sink)
            b = sink.value()
            exp = bytes(core.limbs(n)[:-1] and [d | 0x80 for d in core.limbs(n)[:-1]] + [core.limbs(n)[-1]] or [n])
            if b != exp or types.VarInt.size(n) != len(b) or types.VarInt.read(CountingStream(b)) != n:
                chk.violation('VarInt:sweep', 'n = %d: send gives %s, size %r' % (n, b.hex(), types.VarInt.size(n)), {'n': n})
                break
            swept += 1
        chk.evaluations += swept
        chk.extra['swept_below_2^21'] = swept

    interleaved_encoders(chk, types, rng, 400 if tier == 'quick' else 6000)

    # -- 3. I->S: random long inputs judged by the contract in TLC
    obs = []
    n_rand = 3000 if tier == 'quick' else 40000
    for i in range(n_rand):
        if i % 3 == 0:
            # writer
            bits = rng.choice([7, 14, 21, 28, 31, 32, 35, 42, 56, 63, 64, 69])
            n = rng.getrandbits(bits)
            if rng.random() < 0.1:
                n = -n - 1
            o, b = _do_write(types, n)
            if n >= 0:
                d, e = _canon_digits(n), 0
            else:
                k = max(1, len(core.limbs(-n)))
                d, e = core.limbs(n + 128 ** k), 127
                d = (d + [0] * k)[:k]
            cls = types.VarInt if 0 <= n < 2 ** 32 else types.VarLong
            obs.append({'k': 'w', 'n': d, 'e': e, 'o': o, 'b': b if o == 'bytes' else [],
                        'sz': _size(types, cls, n) if n >= 0 else -1})
        else:
            mx = rng.choice([5, 10])
            ln = rng.randint(0, 16)
            pcont = rng.choice([0.5, 0.9, 0.99])
            inp = [(0x80 if rng.random() < pcont else 0) | rng.getrandbits(7) for _ in range(ln)]
            o, c, v, _ = _do_read(types, mx, inp, STREAM_KINDS[i % 3])
            obs.append({'k': 'r', 'mx': mx, 'inp': inp, 'o': o, 'c': c,
                        'g': _canon_digits(v) if v is not None and v >= 0 else []})
        chk.case(('rand', i))
    tf = os.path.join(chk.work, 'varint_obs.json')
    with open(tf, 'w') as f:
        json.dump(obs, f)
    r2 = chk.tlc('Trace_VarInt', 'Trace_VarInt.cfg', env={'TRACE_FILE': tf}, must_pass=False)
    if r2.violated:
        # find the offending observation from the counterexample
        import re
        m = re.search(r'tid = (\d+)', r2.out)
        bad = obs[int(m.group(1)) - 1] if m else None
        if bad and bad['k'] == 'w' and bad['o'] == 'diverges':
            key = 'VarInt.send:negative-diverges' if bad['e'] else 'VarInt.send:diverges'
        elif bad:
            key = 'VarInt.%s:contract(%s)' % ('read' if bad['k'] == 'r' else 'send', r2.violated[0])
        else:
            key = 'trace:' + r2.violated[0]
        chk.violation(key, 'observation rejected by Trace_VarInt invariant %s: %r' % (r2.violated, bad),
                      {'observation': bad})
    elif not r2.ok:
        raise core.MachineryError('Trace_VarInt failed: %s' % r2.errors[:3])
    else:
        chk.traces += len(obs)
        for p in r2.printed:
            if 'drift' in p:
                chk.drift.append({'obs': obs[p['drift'] - 1], 'model': p['model']})
    chk.sample({'random_observation': obs[1]})

    # -- 4. liveness, and the pre-fix configuration must still show the divergence
    chk.tlc('MC_VarInt_quick', 'VarInt_live.cfg')
    r3 = chk.tlc('MC_VarInt_quick', 'VarInt_unfixed.cfg', must_pass=False)
    chk.extra['unfixed_writer_model_violates_WriterVariant'] = 'WriterVariant' in r3.violated
    if 'WriterVariant' not in r3.violated:
        raise core.MachineryError('self-test: the pre-fix writer model should violate WriterVariant')

    chk.extra['reader_rows'] = n_r
    chk.extra['writer_rows'] = n_w
    chk.extra['random_observations'] = len(obs)
    chk.extra['not_covered'] = ('3-byte inputs are covered by every continuation shape x 7 boundary '
                                'payloads per position (2744 strings), not all 2^24')
    chk.assumptions += ['TLC, JSON hand-over, the counting stream / sink stand-ins for file and socket',
                        'step budget of 20000 line events stands for non-termination']
    return chk.finish(
        rule='rows = terminal states of VarIntCodec (every byte string <= 2 bytes x {VarInt,VarLong}, '
             'continuation shapes, ladders with junk, every n < 2^14 (quick) / 2^21 (thorough), 2^k and '
             'neighbours to 2^77, negatives) + seeded random observations; distinct by input; '
             'non-trivial = non-empty input',
        exhaustive=False)
