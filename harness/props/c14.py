"""C14 - networking-thread exceptions are contained and routed like try/except.

Model: specs/ExcChain.tla (except / handler chain / final handler / record /
interrupt check + disconnect / re-raise / finally, one action per step),
exhaustive over origins x handler chains x final-handler modes; the placement in
the lifecycle (thread marks itself interrupted, slot cleared, successor) is in
specs/ConnLifecycle.tla.  S->I: scenarios replayed into a real Connection under
the scheduler; compared: handler call log, final handler argument, recorded
exception, whether run() re-raised, socket closed at the peer, slot cleared, and
a following connect() succeeding.
"""
import json
import random
import struct

from .. import core
from .. import vsched, peer as P
from ..session import Run, TracingScript
from ..profile import Profile
from ..lifecycle import api

VERSION = 757


class OrigError(Exception):
    pass


class ReplError(Exception):
    def __init__(self, i):
        Exception.__init__(self, 'replacement raised by handler %d' % i)
        self.i = i


class FinalError(Exception):
    pass


def execute(row, seed, policy=None):
    from minecraft.networking.packets import clientbound
    from minecraft.exceptions import LoginDisconnect
    prof = Profile(VERSION)
    origin = row['origin']
    orig_cls = {'early': OrigError, 'listener': OrigError, 'exit': OrigError,
                'reaction': LoginDisconnect, 'decoder': struct.error}[origin]
    run = Run(policy=policy or vsched.SequentialPolicy(seed), seed=seed)
    obs = {'log': [], 'final': ['no', 0], 'reuse': None, 'slot_after': None}
    # variant: the fault strikes during the status query that precedes a login when several versions are allowed (a
    # listener on the status response raises), with an exception type from the I/O family - it is a listener's
    # exception like any other, not an "unanswered status query"
    status_phase = origin == 'early' and seed % 5 in (1, 2)    # (an ordinary listener runs after the reaction has already begun the login)
    if status_phase:
        orig_cls = (ConnectionResetError, BrokenPipeError, OrigError)[(seed // 5) % 3]

    def kind(exc):
        if isinstance(exc, ReplError):
            return ['repl', exc.i]
        if isinstance(exc, FinalError):
            return ['final', 0]
        if isinstance(exc, orig_cls):
            return ['orig', 0]
        return ['other:' + type(exc).__name__, 0]

    refuse_now = [False]

    def factory(idx, sess):
        if refuse_now[0]:
            return None                 # the server is unreachable at this moment: the TCP connection is refused
        sc = TracingScript(run, prof, [])
        steps = [('expect', 2)]
        if status_phase and (idx == 0 or (sc.parsed and sc.parsed[0].get('next') == 1)):
            steps += [('send', prof.status_response(P.status_json(protocol=VERSION, name='s')))]
        elif idx == 0:
            if origin == 'reaction':
                steps += [('send', prof.login_disconnect('{"text":"no"}'))]
            else:
                steps += [('send', prof.login_success(bytes(range(16)), 'verif')), ('call', lambda s: setattr(s, 'state', 'play'))]
                if origin in ('early', 'listener'):
                    steps += [('send', prof.keep_alive(3))]
                elif origin == 'decoder':
                    steps += [('send', P.VI(prof.c['keep_alive']) + b'\x01\x02\x03')]
                else:
                    steps += [('send', prof.play_disconnect('{"text":"bye"}'))]
        else:
            steps += [('send', prof.login_success(bytes(range(16)), 'verif')), ('call', lambda s: setattr(s, 'state', 'play'))]
        sc.steps = steps
        return sc
    run.serve(factory)

    def scenario(run):
        kw = {}
        f = row['final']
        if f == 'None':
            kw['handle_exception'] = None
        elif f == 'False':
            kw['handle_exception'] = False
        else:
            def final_handler(exc, info):
                obs['final'] = kind(exc)
                if f == 'raise':
                    raise FinalError('final handler failure')
            kw['handle_exception'] = final_handler
        if origin == 'exit':
            def bad_exit():
                raise OrigError('exit callback failure')
            kw['handle_exit'] = bad_exit
        c = run.make_connection(allowed_versions=({VERSION, 340} if status_phase else {VERSION}), **kw)
        if status_phase:
            def boom_status(pkt):
                raise orig_cls('listener failure during the status query')
            c.register_packet_listener(boom_status, clientbound.status.ResponsePacket, early=(origin == 'early'))
        elif origin in ('early', 'listener'):
            from minecraft.networking.packets import serverbound
            with_pending = seed % 3 == 0        # the failing listener had queued a packet that an outgoing listener dislikes

            def boom(pkt):
                if with_pending:
                    c.write_packet(serverbound.play.ChatPacket(message='last words'))
                raise OrigError('listener failure')
            c.register_packet_listener(boom, clientbound.play.KeepAlivePacket, early=(origin == 'early'))
            if with_pending:
                def out_boom(pkt):
                    obs['out_listener_called'] = True
                    raise RuntimeError('outgoing listener rejects the packet')
                c.register_packet_listener(out_boom, serverbound.play.ChatPacket, outgoing=True, early=bool(seed % 2))
        for i, h in enumerate(row['handlers'], 1):
            types = {'all': (), 'orig': (orig_cls,), 'repl': (ReplError,), 'none': (KeyError,)}[h['f']]

            def fn(exc, info, i=i, h=h):
                obs['log'].append([i, kind(exc)])
                if h['b'] == 'raise':
                    if seed % 3 == 0 and not status_phase:
                        # the handler first tries to connect again, the server is unreachable, and it gives up with an
                        # exception of its own: no new connection exists, the failed one is still to be closed
                        refuse_now[0] = True
                        try:
                            obs['refused_attempt'] = api(run, c, 'connect')
                        finally:
                            refuse_now[0] = False
                    raise ReplError(i)
                if h['b'] == 'reconnect':
                    obs['reconnect_result'] = api(run, c, 'connect')
            if i % 2:
                c.register_exception_handler(fn, *types, early=h['early'])
            else:                       # the decorator spelling of the same registration
                c.exception_handler(*types, early=h['early'])(fn)
        api(run, c, 'connect')
        nt = run.installed.started[0]
        obs['nt'] = nt
        vt = nt._vt
        run.sched.yield_point(blocked_on=lambda: vt.finished)
        obs['slot_after'] = (c.networking_thread, c.new_networking_thread)
        obs['exception'] = c.exception
        if not row['reconnected']:
            obs['reuse'] = api(run, c, 'connect')
    run.go(scenario)
    return run, obs, kind


def run(chk):
    core.import_minecraft()
    rng = random.Random(chk.seed)
    quick = chk.tier == 'quick'
    r = chk.tlc('MC_ExcChain', 'ExcChain_%s.cfg' % chk.tier, timeout=3000)
    rows = r.printed
    if len(rows) < 10000:
        raise core.MachineryError('only %d scenarios' % len(rows))
    budget = 3000 if quick else 40000
    rng.shuffle(rows)
    # always include the scenarios in which something is caught, replaced or reconnected
    rows.sort(key=lambda row: -(len(row['log']) + (2 if row['reconnected'] else 0)))
    sample = rows[:budget // 2] + rng.sample(rows[budget // 2:], min(budget // 2, max(0, len(rows) - budget // 2)))
    n = 0
    for i, row in enumerate(sample):
        pol = vsched.SequentialPolicy(chk.seed + i) if i % 3 else vsched.RandomPolicy(chk.seed + i, 0.3)
        run_, obs, kind = execute(row, chk.seed * 7907 + i, pol)
        n += 1
        chk.traces += 1
        chk.case(('scenario', json.dumps([row['origin'], row['handlers'], row['final']], sort_keys=True)))
        nt = obs.get('nt')
        raised = getattr(nt, '_raised', None) if nt is not None else None
        what = None
        sc0 = run_.scripts[0] if run_.scripts else None
        if run_.outcome not in ('done', 'quiescent'):
            what, key = 'execution ended as %s' % run_.outcome, 'exc:outcome:%s' % run_.outcome
        elif obs['log'] != row['log']:
            what, key = 'handler calls %r, model %r' % (obs['log'], row['log']), 'exc:handler-log'
        elif obs['final'] != row['finalCalled']:
            what, key = 'final handler saw %r, model %r' % (obs['final'], row['finalCalled']), 'exc:final-handler'
        elif obs.get('exception') is None or kind(obs['exception']) != row['recorded']:
            what, key = 'recorded exception %r, model %r' % (obs.get('exception'), row['recorded']), 'exc:recorded'
        elif (raised is not None) != row['reraised']:
            what, key = 'thread re-raised: %r, model %r' % (raised, row['reraised']), 'exc:reraise'
        elif raised is not None and kind(raised) != row['recorded']:
            what, key = 'the thread re-raised %r, not the last exception of the chain (%r)' % (raised, row['recorded']), 'exc:reraise-other'
        elif not row['reconnected'] and not (sc0 and sc0.client_closed):
            what, key = 'the connection was not closed', 'exc:not-closed'
        elif not row['reconnected'] and obs['slot_after'] != (None, None):
            what, key = 'thread slots after the thread ended: %r' % (obs['slot_after'],), 'exc:slot'
        elif not row['reconnected'] and obs['reuse'] != 'ok':
            what, key = 'connect() afterwards returned %r' % (obs['reuse'],), 'exc:not-reusable'
        elif row['reconnected'] and (obs.get('reconnect_result') != 'ok' or len(run_.scripts) < 2):
            what, key = 'reconnect from the handler returned %r' % (obs.get('reconnect_result'),), 'exc:handler-reconnect'
        if what:
            chk.violation(key, 'origin %s, handlers %s, final %s: %s' % (row['origin'], json.dumps(row['handlers']), row['final'], what),
                          {'row': row})
        if i == 3:
            chk.sample({'scenario': {k: row[k] for k in ('origin', 'handlers', 'final')},
                        'observed': {'log': obs['log'], 'final': obs['final'], 'reraised': raised is not None}})
    chk.extra['scenarios_in_model'] = len(rows)
    chk.extra['scenarios_replayed'] = n
    chk.assumptions += ['origins: raising early / ordinary listener, login disconnect (reaction raises LoginDisconnect), truncated keep-alive '
                        '(decoder raises struct.error), raising exit callback', 'handler chains of 4 are not generated (bound 2 quick / 3 thorough)']
    return chk.finish(
        rule='model: every (origin, handler chain <= 2 / 3 over 4 filters x 3 behaviours x early flag, final-handler mode); replayed: the '
             'scenarios with the longest call logs plus a seeded sample of the rest; distinct by scenario')
