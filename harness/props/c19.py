"""C19 - auth token state follows the Yggdrasil replies; errors leave it untouched.

Model: specs/AuthToken.tla - one transition per (token state = subset of fields
present, operation, reply status x body shape) fixing the request, the outcome and
the state afterwards; TLC checks the invariants and emits every transition.  S->I:
one implementation test per transition against a stand-in for the service
(requests.post replaced inside the check process by a recorder returning real
requests.Response objects), plus seeded operation sequences following the model.
"""
import json
import random
import re

from .. import core

VAL = {'username': 'user_a', 'access': 'acc_a', 'client': 'cli_a', 'pid': 'pid_a', 'pname': 'name_a'}
NEW = {'U2': 'new_user', 'A2': 'acc_2', 'C2': 'cli_2', 'P2': 'pid_2', 'N2': 'name_2'}
BODIES = {
    'result': json.dumps({'accessToken': 'acc_2', 'clientToken': 'cli_2', 'selectedProfile': {'id': 'pid_2', 'name': 'name_2'},
                          'availableProfiles': [{'id': 'pid_2', 'name': 'name_2'}]}),
    'error': json.dumps({'error': 'ForbiddenOperationException', 'errorMessage': 'Invalid credentials.', 'cause': 'why'}),
    'partial': json.dumps({'error': 'OnlyError'}),
    'nonjson': '<html>Bad Gateway</html>',
    'empty': '',
}


class Service(object):
    def __init__(self, requests):
        self.requests = requests
        self.calls = []
        self.reply = (200, 'empty')

    def make_request(self, pool, conn, method, url, body=None, headers=None, preload_content=True, decode_content=True, **kw):
        """Stands in for urllib3's HTTPConnectionPool._make_request - one call per HTTP exchange actually attempted, below
        requests' adapter and urllib3's retry logic, so sessions, mounted adapters and retry policies are all real; error
        replies of the rate-limiting kind carry a Retry-After header every other time."""
        import io
        import urllib3
        if isinstance(body, bytes):
            body = body.decode('utf-8', 'replace')
        port = '' if pool.port in (None, 80, 443) else ':%d' % pool.port
        self.calls.append({'url': '%s://%s%s%s' % (pool.scheme, pool.host, port, url), 'data': body, 'headers': dict(headers or {}), 'method': method})
        self.exchanges = getattr(self, 'exchanges', 0) + 1
        hdrs = {'Content-Type': 'application/json'}
        if self.reply[0] in (413, 429, 503) and self.exchanges % 2:
            hdrs['Retry-After'] = '1'
        content = b'' if self.reply[0] == 204 else BODIES[self.reply[1]].encode('utf-8')       # (HTTP: a 204 reply has no content)
        return urllib3.response.HTTPResponse(body=io.BytesIO(content), headers=hdrs, status=self.reply[0],
                                             version=11, version_string='HTTP/1.1', reason='stub', preload_content=preload_content,
                                             decode_content=decode_content, request_method=method, request_url=url)

    def send(self, adapter, request, **kw):
        """Stands in for HTTPAdapter.send: whatever way the library calls requests (post, request, a Session), the prepared
        request ends up here; the reply is a real requests.Response."""
        body = request.body
        if isinstance(body, bytes):
            body = body.decode('utf-8', 'replace')
        self.calls.append({'url': request.url, 'data': body, 'headers': dict(request.headers or {}), 'method': request.method})
        r = self.requests.models.Response()
        r.status_code = self.reply[0]
        r._content = BODIES[self.reply[1]].encode('utf-8')
        r.encoding = 'utf-8'
        r.url = request.url
        r.request = request
        r.reason = 'stub'
        return r


def make_token(auth, st):
    t = auth.AuthenticationToken(username=VAL['username'] if st['username'] != 'none' else None,
                                 access_token=VAL['access'] if st['access'] != 'none' else None,
                                 client_token=VAL['client'] if st['client'] != 'none' else None)
    # (fields that are absent are left as the constructor made them: a new token starts without a profile of its own)
    if st['pid'] != 'none':
        t.profile.id_ = VAL['pid']
    if st['pname'] != 'none':
        t.profile.name = VAL['pname']
    return t


def fields_of(t):
    return {'username': t.username, 'access': t.access_token, 'client': t.client_token,
            'pid': t.profile.id_, 'pname': t.profile.name}


def concrete(st):
    out = {}
    for f, v in st.items():
        out[f] = None if v == 'none' else (VAL[f] if v == 'a' else NEW[v])
    return out


def perform(auth, tok, op):
    try:
        if op == 'authenticate':
            r = tok.authenticate('new_user', 'pw')
        elif op == 'authenticate_inv':
            r = tok.authenticate('new_user', 'pw', invalidate_previous=True)
        elif op == 'refresh':
            r = tok.refresh()
        elif op == 'validate':
            r = tok.validate()
        elif op == 'invalidate':
            r = tok.invalidate()
        elif op == 'join':
            r = tok.join('S1')
        elif op == 'sign_out':
            r = auth.AuthenticationToken.sign_out('new_user', 'pw')
        return ('ret', r)
    except Exception as e:      # noqa
        return ('exc', e)


def check_request(auth, row, calls, tok_before):
    req = row['req']
    if req['ep'] == 'none':
        return None if not calls else 'contacted the service (%s) although no request is due' % calls[0]['url']
    if len(calls) != 1:
        return '%d requests instead of one' % len(calls)
    c = calls[0]
    base = {'auth': auth.AUTH_SERVER, 'session': auth.SESSION_SERVER}
    srv, ep = req['ep'].split('/')
    if c['url'] != base[srv] + '/' + ep:
        return 'posted to %s, documented endpoint is %s/%s' % (c['url'], base[srv], ep)
    ct = {k.lower(): v for k, v in c['headers'].items()}.get('content-type', '')
    if 'application/json' not in ct:
        return 'content type %r' % ct
    try:
        p = json.loads(c['data'])
    except Exception:       # noqa
        return 'payload is not JSON: %r' % (c['data'],)
    want = {}
    if ep == 'authenticate':
        if p.get('agent') != {'name': 'Minecraft', 'version': 1}:
            return 'agent block %r' % (p.get('agent'),)
        want = {'username': 'new_user', 'password': 'pw'}
        ck = req['ctok']
        if ck == 'absent':
            if 'clientToken' in p:
                return 'clientToken sent although previous tokens are to be invalidated'
        elif ck == 'fresh':
            if not re.match(r'^[0-9a-f]{32}$', str(p.get('clientToken'))):
                return 'no fresh clientToken generated: %r' % (p.get('clientToken'),)
        elif p.get('clientToken') != VAL['client']:
            return 'clientToken %r, the stored one is %r' % (p.get('clientToken'), VAL['client'])
    elif ep == 'refresh' or ep == 'invalidate':
        want = {'accessToken': tok_before['access'], 'clientToken': tok_before['client']}
    elif ep == 'validate':
        want = {'accessToken': tok_before['access']}
    elif ep == 'signout':
        want = {'username': 'new_user', 'password': 'pw'}
    elif ep == 'join':
        want = {'accessToken': tok_before['access'], 'serverId': 'S1'}
        sp = p.get('selectedProfile')
        pid = sp.get('id') if isinstance(sp, dict) else sp
        if pid != tok_before['pid']:
            return 'selectedProfile %r does not carry the stored profile id' % (sp,)
    for k, v in want.items():
        if p.get(k) != v:
            return 'payload field %s = %r, expected %r' % (k, p.get(k), v)
    return None


def check_outcome(auth, row, res):
    from minecraft.exceptions import YggdrasilError
    out = row['out']
    kind, val = res
    status = row['reply'][0]
    if out == 'any':
        return None
    if out == 'True':
        return None if (kind == 'ret' and val is True) else 'expected True, got %s %r' % (kind, val)
    if out == 'NotTrue':
        return None if not (kind == 'ret' and val is True) else 'returned True for a %d reply' % status
    if out == 'ValueError':
        return None if (kind == 'exc' and isinstance(val, ValueError)) else 'expected ValueError, got %s %r' % (kind, val)
    if kind != 'exc' or not isinstance(val, YggdrasilError):
        return 'expected YggdrasilError, got %s %r' % (kind, val)
    if out == 'YggdrasilError:unauthenticated':
        return None
    if getattr(val, 'status_code', None) != status:
        return 'error carries status %r, the reply had %d' % (getattr(val, 'status_code', None), status)
    if out == 'YggdrasilError:fields':
        if getattr(val, 'yggdrasil_error', None) != 'ForbiddenOperationException' or \
                getattr(val, 'yggdrasil_message', None) != 'Invalid credentials.':
            return 'error fields %r / %r' % (getattr(val, 'yggdrasil_error', None), getattr(val, 'yggdrasil_message', None))
        if getattr(val, 'yggdrasil_cause', None) != 'why':          # "the service's error fields": error, errorMessage and cause
            return 'error field cause is %r, the service sent %r' % (getattr(val, 'yggdrasil_cause', None), 'why')
    elif 'alformed' not in str(val):
        return 'error message %r does not say the body was malformed' % str(val)
    return None


def run(chk):
    core.import_minecraft()
    from minecraft import authentication as auth
    import requests
    rng = random.Random(chk.seed)
    r = chk.tlc('MC_AuthToken', 'AuthToken.cfg')
    rows = r.printed
    if len(rows) < 6000:
        raise core.MachineryError('only %d transitions' % len(rows))
    svc = Service(requests)
    import types
    import time as _time
    import urllib3
    import urllib3.util.retry as _retry
    old_send = urllib3.connectionpool.HTTPConnectionPool._make_request
    urllib3.connectionpool.HTTPConnectionPool._make_request = lambda pool, conn, method, url, **kw: svc.make_request(pool, conn, method, url, **kw)
    old_time = _retry.time
    _retry.time = types.SimpleNamespace(sleep=lambda s_: None, time=_time.time, mktime=_time.mktime)     # a retry policy does not make the check wait
    try:
        for i, row in enumerate(rows):
            tok = make_token(auth, row['tok'])
            before = fields_of(tok)
            auth_before = tok.authenticated
            svc.calls = []
            svc.reply = (row['reply'][0], row['reply'][1])
            res = perform(auth, tok, row['op'])
            chk.traces += 1
            chk.case(('transition', json.dumps([row['tok'], row['op'], row['reply']], sort_keys=True)), nontrivial=row['out'] != 'any')
            what = None
            if bool(auth_before) != row['auth']:
                what, key = 'authenticated is %r for fields %r' % (auth_before, before), 'auth:authenticated-property'
            if what is None:
                w = check_request(auth, row, svc.calls, before)
                if w:
                    what, key = w, 'auth:%s:request' % row['op']
            if what is None:
                w = check_outcome(auth, row, res)
                if w:
                    what, key = w, 'auth:%s:outcome:%s' % (row['op'], row['out'].split(':')[0])
            if what is None and row['out'] != 'any':
                after = fields_of(tok)
                want = concrete(row['nxt'])
                if row['op'] == 'sign_out':
                    want = before
                if after != want:
                    what = 'stored fields afterwards %r, expected %r' % (after, want)
                    key = 'auth:%s:state-%s' % (row['op'], 'altered-on-error' if row['out'] != 'True' else 'after-success')
                elif bool(tok.authenticated) != row['authAfter']:
                    what, key = 'authenticated afterwards is %r' % tok.authenticated, 'auth:authenticated-property'
            if what:
                chk.violation(key, '%s on token fields %r with reply %r: %s' % (row['op'], row['tok'], row['reply'], what), {'row': row})
            if i in (100, 4000):
                chk.sample({'state': row['tok'], 'op': row['op'], 'reply': row['reply'], 'request': row['req'], 'outcome': row['out']})
        # ---- sequences: follow the model's transition relation along random operation sequences
        index = {(json.dumps(row['tok'], sort_keys=True), row['op'], tuple(row['reply'])): row for row in rows}
        n_seq = 300 if chk.tier == 'quick' else 5000
        for j in range(n_seq):
            st = {f: rng.choice(['none', 'a']) for f in VAL}
            tok = make_token(auth, st)
            for step in range(4):
                cur = fields_of(tok)
                known = all(cur[f] in (None, VAL[f]) for f in VAL)
                if not known:
                    break
                st = {f: ('none' if cur[f] is None else 'a') for f in VAL}
                op = rng.choice(['authenticate', 'refresh', 'validate', 'invalidate', 'join', 'sign_out', 'authenticate_inv'])
                reply = (rng.choice([200, 204, 400, 401, 403, 404, 429, 500, 502, 503, 504]), rng.choice(sorted(BODIES)))
                row = index[(json.dumps(st, sort_keys=True), op, reply)]
                svc.calls, svc.reply = [], reply
                res = perform(auth, tok, op)
                w = check_request(auth, row, svc.calls, cur) or check_outcome(auth, row, res)
                if not w and row['out'] not in ('any', 'True') and fields_of(tok) != cur:
                    w = 'stored fields altered by a failing %s' % op
                if w:
                    chk.violation('auth:sequence:%s' % op, 'in a sequence, %s with reply %r: %s' % (op, reply, w), {'row': row})
            chk.traces += 1
            chk.case(('seq', j))
    finally:
        urllib3.connectionpool.HTTPConnectionPool._make_request = old_send
        _retry.time = old_time
    chk.extra['transitions'] = len(rows)
    chk.extra['unconstrained_transitions'] = sum(1 for row in rows if row['out'] == 'any')
    chk.assumptions += ['the service is a stand-in inside the check process: urllib3\'s HTTPConnectionPool._make_request (one call per HTTP exchange attempted) is replaced by a '
                        'recorder that returns real urllib3 responses (status, headers, body), so request construction, sessions, adapters, retry '
                        'policies and response parsing are real, whichever requests API the library uses',
                        'join payload: selectedProfile must carry the stored profile id (string or {id, name} object)',
                        'combinations outside the property (200 with a non-result body, 204 to authenticate/refresh/sign_out) are recorded, not judged']
    return chk.finish(
        rule='one implementation test per transition of AuthToken.tla: 32 token states (every subset of fields) x 7 operations x 30 reply '
             'shapes, plus seeded operation sequences of length 4; non-trivial = the property constrains the outcome',
        exhaustive=True)
