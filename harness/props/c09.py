"""C09 - status queries and version negotiation pick the right version or the right error.

Model: specs/SessionNegotiate.tla, exhaustive over the abstract scenario domain
(allowed sets x initial version x server reply x handler modes); every scenario
is instantiated with several concrete protocol maps (incl. pre-release numbers
and the first / last supported versions, versions given as names or numbers) and
replayed into a real Connection against the scripted peer (S->I).
"""
import io
import json
import random
import sys

from .. import core
from ..session import Run, TracingScript, HOST, PORT
from .. import peer as P
from ..profile import Profile


def maps(mc):
    PRE = 1 << 30
    sup = list(mc.SUPPORTED_PROTOCOL_VERSIONS)
    ms = [
        {'s1': 47, 's2': 340, 's3': 757, 'k': 0, 'k0': 1, 'x': 9999},
        {'s1': 753, 's2': PRE | 3, 's3': 754, 'k': PRE | 9, 'k0': 2, 'x': 1234567},
        {'s1': sup[0], 's2': sup[1], 's3': sup[-1], 'k': 3, 'k0': 0, 'x': 758},
        {'s1': 404, 's2': 477, 's3': PRE | 7, 'k': PRE | 35, 'k0': 1, 'x': 2147483647},
        {'s1': 47, 's2': 340, 's3': 754, 'k': 6, 'k0': 1, 'x': -1},           # "whatever integer": proxies report -1
        {'s1': 340, 's2': 754, 's3': 757, 'k': 7, 'k0': 0, 'x': -754},
    ]
    known = list(mc.KNOWN_PROTOCOL_VERSIONS)
    for m in ms:
        assert known.index(m['s1']) < known.index(m['s2']) < known.index(m['s3'])
        assert all(m[s] in sup for s in ('s1', 's2', 's3')) and m['k'] in known and m['k'] not in sup and m['x'] not in known
    return ms


def name_of(mc, proto):
    for vid, p in mc.SUPPORTED_MINECRAFT_VERSIONS.items():
        if p == proto:
            return vid
    for vid, p in mc.KNOWN_MINECRAFT_VERSIONS.items():
        if p == proto:
            return vid
    return None


def second_query_after_failure(mc, version, first_mode, seed):
    run = Run(seed=seed)
    obs = {'status': [], 'ping': []}
    scripts = []

    def factory(idx, sess):
        sc = TracingScript(run, Profile(version), [])
        scripts.append(sc)
        if idx == 0 and first_mode == 'play_comp':
            # a whole session with compression switched on, ended by the server's disconnect packet
            sc.steps = [('expect', 2), ('send', sc.prof.login_compress(64)), ('compress', 64),
                        ('send', sc.prof.login_success(bytes(range(16)), 'verif')), ('call', lambda s: setattr(s, 'state', 'play')),
                        ('send', sc.prof.keep_alive(5)), ('send', sc.prof.play_disconnect('{"text":"bye"}'))]
        elif idx == 0 and first_mode.endswith('_hangup'):
            sc.steps = [('close',)]         # ... that hangs up at once: the client's first writes fail and stay queued
        elif idx == 0:
            sc.steps = [('expect', 2), ('close',)]          # the first attempt meets a server that hangs up
        else:
            sc.steps = [('expect', 2), ('send', sc.prof.status_response(P.status_json(protocol=version, name='again'))),
                        ('expect', 3), ('send', lambda s: s.prof.status_pong(s.parsed[2].get('time', 0)))]
        return sc
    run.serve(factory)
    marks = {}

    def scenario(run):
        c = run.make_connection(allowed_versions={version})
        try:
            (c.status if first_mode.startswith('status') else c.connect)()
        except Exception:       # noqa
            pass
        for t in list(run.installed.started):
            run.sched.yield_point(blocked_on=lambda t=t: t._vt.finished)
        marks['exits'], marks['errors'] = run.exits, len(run.errors)
        c.status(handle_status=lambda d: obs['status'].append(d), handle_ping=lambda ms: obs['ping'].append(ms))
        for t in list(run.installed.started):
            run.sched.yield_point(blocked_on=lambda t=t: t._vt.finished)
        marks['socket'] = c.socket
    run.go(scenario)
    if run.outcome != 'done':
        return 'execution ended as %s' % run.outcome
    if marks.get('errors', 0) < 1 and first_mode != 'play_comp':
        return 'the first attempt reported no error'
    if len(run.errors) != marks['errors']:
        return 'the second query reported an error: %r' % (run.errors[-1],)
    if len(obs['status']) != 1 or len(obs['ping']) != 1:
        return 'status handler ran %d times, ping handler %d times' % (len(obs['status']), len(obs['ping']))
    if run.exits - marks['exits'] != 1:
        return 'the exit callback ran %d times for the second query' % (run.exits - marks['exits'])
    if marks.get('socket') is not None:
        return 'the connection was not closed'
    second = [p['t'] for p in scripts[-1].parsed] if len(scripts) > 1 else None
    if second != ['handshake', 'status_request', 'status_ping']:
        # whatever the failed attempt left unsent belongs to that attempt: the query begins with its own handshake
        return 'the second query put %r on the wire, not handshake, request, ping' % (second,)
    return None


def PRE_OF(mc, k):
    return (1 << 30) | k


def execute(mc, row, m, by_name, seed):
    from minecraft.networking.connection import Connection
    rng = random.Random(seed)
    tok = lambda t: m[t]        # noqa

    def arg(t):
        if t == 'x' or not by_name:
            return tok(t)
        return name_of(mc, tok(t))
    kwargs = {}
    if row['allowed']:
        kwargs['allowed_versions'] = [arg(t) for t in row['allowed']]
        if rng.random() < 0.5:
            kwargs['allowed_versions'] = set(kwargs['allowed_versions'])
    if row['initial'] != 'none':
        kwargs['initial_version'] = arg(row['initial'])
    run = Run(seed=seed)
    obs = {'status': [], 'ping': [], 'stdout': '', 'constructed': False, 'ctor_error': None, 'conn_versions': []}
    token = None
    if row['mode'] == 'connect' and seed % 4 == 3:
        class _Profile(object):
            name, id_ = None, None          # not authenticated yet when the Connection is constructed

            def __bool__(self):
                return self.name is not None

        class _Token(object):
            def __init__(self):
                self.profile = _Profile()

            def join(self, server_id):
                return True
        token = kwargs['auth_token'] = _Token()
    srv = row['srv']
    ping_requested = row['mode'] == 'status' and row['hp'] != 'off'

    def reply_text():
        if srv[0] == 'proto':
            return P.status_json(protocol=tok(srv[1]), name='Srv-%s' % srv[1])
        if srv[0] == 'noproto':
            return P.status_json(no_protocol=True)
        if srv[0] == 'noversion':
            return P.status_json(no_version=True)
        return P.status_json(empty=True)

    def login_tail(prof):
        return [('expect', 2), ('send', prof.login_success(bytes(range(16)), 'verif')),
                ('call', lambda sc: setattr(sc, 'state', 'play')),
                ('send', prof.play_disconnect('{"text":"ok"}'))]

    def factory(idx, sess):
        # which version will the client speak on this connection?  The peer learns it from the handshake.
        sc = TracingScript(run, None, [])

        class LazyProf(object):
            """The profile is chosen when the handshake tells the version."""
            def parse(self_, state, fr):
                if state == 'handshake':
                    r = P.Reader(fr['body'])
                    try:
                        pv = r.varint()
                    except Exception:       # noqa
                        pv = None
                    try:
                        sc.prof = Profile(pv)
                    except Exception:       # noqa
                        sc.prof = Profile(757)
                        sc.bad_version = pv
                    obs['conn_versions'].append(pv)
                    return sc.prof.parse(state, fr)
                return sc.prof.parse(state, fr)
        sc.prof = LazyProf()

        def dispatch(sc):
            # after the first two frames we know whether this is a status or a login connection
            hs = sc.parsed[0]
            if hs.get('next') == 1:
                if srv[0] == 'eof':
                    sc.steps += [('close',)]
                else:
                    sc.steps += [('send', lambda s: s.prof.status_response(reply_text()))]
                    if ping_requested:
                        sc.steps += [('expect', 3), ('send', lambda s: s.prof.status_pong(s.parsed[2].get('time', 0)))]
            else:
                sc.steps += login_tail(sc.prof)[1:]
        sc.steps = [('expect', 2), ('call', dispatch)]
        return sc
    run.serve(factory)
    old_stdout = sys.stdout
    buf = io.StringIO()

    def scenario(run):
        try:
            c = run.make_connection(**kwargs)
        except ValueError as e:
            obs['ctor_error'] = e
            return
        obs['constructed'] = True
        obs['ctx0'] = c.context.protocol_version
        if token is not None:
            # the token is authenticated / refreshed after the Connection was made (the profile is updated in place, as
            # AuthenticationToken.authenticate and refresh do): the login names the profile as it is when connecting
            token.profile.name, token.profile.id_ = 'authd_%d' % (seed % 97), 'abcdef0123456789abcdef0123456789'
            obs['login_name'] = token.profile.name
        if row['mode'] == 'connect':
            c.connect()
        else:
            hs = {'default': None, 'custom': (lambda d: obs['status'].append(d)), 'off': False}[row['hs']]
            hp = {'default': None, 'custom': (lambda ms: obs['ping'].append(ms)), 'off': False}[row['hp']]
            c.status(handle_status=hs, handle_ping=hp)
    sys.stdout = buf
    try:
        run.go(scenario)
    finally:
        sys.stdout = old_stdout
    obs['stdout'] = buf.getvalue()
    return run, obs


def judge(mc, row, m, run, obs, by_name):
    """Compare the real run with the model's row.  Returns (key, what) or None."""
    tok = lambda t: m[t]    # noqa
    if row['outcome'] == 'ValueError':
        if obs['ctor_error'] is None:
            return 'negotiate:ctor-accepts-unsupported', 'constructor accepted versions %r / initial %r' % (row['allowed'], row['initial'])
        if run.installed.net.tcp_attempts:
            return 'negotiate:ctor-tcp', 'TCP connection attempted although construction failed'
        return None
    if obs['ctor_error'] is not None:
        return 'negotiate:ctor-refuses-supported', 'constructor raised %r for allowed=%r initial=%r' % (obs['ctor_error'], row['allowed'], row['initial'])
    # frames per connection
    got = []
    for sc in run.scripts:
        for p in sc.parsed:
            if p['t'] == 'handshake':
                ok = p['host'] == HOST and p['port'] == PORT and 'trailing' not in p
                got.append(['handshake', p['protocol'], 'login' if p['next'] == 2 else ('status' if p['next'] == 1 else p['next']), ok])
            elif p['t'] == 'status_request':
                got.append(['request'])
            elif p['t'] == 'status_ping':
                got.append(['ping'])
            elif p['t'] == 'login_start':
                got.append(['login_start', p['name']])
            elif p['t'] in ('keep_alive', 'teleport_confirm'):
                pass
            else:
                got.append(['other', p['t']])
    exp = []
    for f in row['frames']:
        if f[0] == 'handshake':
            exp.append(['handshake', tok(f[1]), f[2], True])
        elif f[0] == 'login_start':
            exp.append(['login_start', obs.get('login_name', 'verif')])
        else:
            exp.append([f[0]])
    tcp = len(run.scripts) + run.refused
    if row['mode'] == 'connect' and row['frames'] and row['frames'][0][2] == 'status':
        # contract: the status-phase handshake may carry any allowed version, the model says the latest
        allowed_real = set(tok(t) for t in (row['allowed'] or ['s1', 's2', 's3'])) if row['allowed'] else set(mc.SUPPORTED_PROTOCOL_VERSIONS)
        if got and got[0][0] == 'handshake' and got[0][2] == 'status' and got[0][1] in allowed_real and got[0][1] != exp[0][1]:
            exp[0][1] = got[0][1]
    if row['allowed'] == [] and row['frames']:
        # "all supported": the latest supported version of the real table
        latest = list(mc.SUPPORTED_PROTOCOL_VERSIONS)[-1]
        for e in exp:
            pass
    if got != exp:
        return 'negotiate:frames:%s' % row['outcome'], 'peer decoded %r, model expects %r' % (got, exp)
    if tcp != row['tcp']:
        return 'negotiate:tcp-count', '%d TCP connections, model says %d' % (tcp, row['tcp'])
    errs = run.errors
    oc = row['outcome']
    if oc == 'login':
        if errs:
            return 'negotiate:login:error', 'unexpected error %r' % (errs[-1],)
        if run.conn.allowed_proto_versions != {tok(row['final'][0])} and len(row['frames']) > 2:
            return 'negotiate:login:narrowing', 'allowed versions afterwards %r, expected {%d}' % (
                sorted(run.conn.allowed_proto_versions)[:5], tok(row['final'][0]))
        if run.outcome != 'done' or run.exits != 1:
            return 'negotiate:login:end', 'execution ended %s with %d exit callbacks' % (run.outcome, run.exits)
    elif oc.startswith('Mismatch'):
        if not errs or type(errs[-1]).__name__ != 'VersionMismatch':
            return 'negotiate:mismatch:class', 'expected VersionMismatch, got %r' % (errs[-1:] or None,)
        e = errs[-1]
        sp = tok(row['srv'][1])
        text = str(e)
        says_unsupported = 'not supported' in text
        says_not_allowed = 'not allowed' in text
        if getattr(e, 'server_protocol', None) != sp or str(sp) not in text:
            return 'negotiate:mismatch:names-version', 'error does not name the server protocol %d: %r / %r' % (sp, text, getattr(e, 'server_protocol', None))
        if (oc == 'Mismatch:not-supported') != says_unsupported or (oc == 'Mismatch:not-allowed') != says_not_allowed:
            return 'negotiate:mismatch:wording', 'server version %d is %s but the error says %r' % (sp, oc[9:], text)
    elif oc == 'InvalidStatus':
        if not errs or not isinstance(errs[-1], IOError) or type(errs[-1]).__name__ in ('VersionMismatch',):
            return 'negotiate:empty-status', 'empty status object not rejected: %r' % (errs[-1:] or None,)
    elif oc == 'EOFError':
        if not errs or not isinstance(errs[-1], EOFError):
            return 'status:eof', 'server closed before replying but the error is %r' % (errs[-1:] or None,)
    elif oc == 'status':
        if errs:
            return 'status:error', 'unexpected error %r' % (errs[-1],)
        n_status = {'custom': len(obs['status']), 'off': 0,
                    'default': obs['stdout'].count("'description'") + (obs['stdout'].count('{}\n') if row['srv'][0] == 'empty' else 0)}[row['hs']]
        want_status = 0 if row['hs'] == 'off' else 1
        if n_status != want_status:
            return 'status:handle_status-count', 'status handler (%s) ran %d times: %r' % (row['hs'], n_status, obs['stdout'][:100])
        if row['hs'] == 'custom':
            d = obs['status'][0]
            if row['srv'][0] == 'proto' and (not isinstance(d, dict) or d.get('version', {}).get('protocol') != tok(row['srv'][1])):
                return 'status:handle_status-arg', 'handler received %r' % (d,)
        if row['hp'] == 'custom':
            if len(obs['ping']) != 1 or not isinstance(obs['ping'][0], (int, float)) or obs['ping'][0] < 0:
                return 'status:ping', 'ping handler calls %r' % (obs['ping'],)
        elif row['hp'] == 'default':
            if obs['stdout'].count('Ping:') != 1:
                return 'status:ping-default', 'default ping handler output %r' % obs['stdout'][-60:]
        elif obs['ping'] or 'Ping:' in obs['stdout']:
            return 'status:ping-unrequested', 'latency reported although not requested'
        if run.exits != row['exits'] or run.outcome != 'done':
            return 'status:exit', 'exit callback ran %d times (model %d), execution %s' % (run.exits, row['exits'], run.outcome)
        if not all(sc.client_closed for sc in run.scripts):
            return 'status:not-closed', 'client did not close the connection after the status query'
    return None


def run(chk):
    mc = core.import_minecraft()
    rng = random.Random(chk.seed)
    r = chk.tlc('MC_SessionNegotiate', 'SessionNegotiate.cfg')
    rows = r.printed
    if len(rows) < 3000:
        raise core.MachineryError('only %d scenarios' % len(rows))
    ms = maps(mc)
    n = 0
    for i, row in enumerate(rows):
        # status scenarios do not depend on most of the connect dimensions: thin them out in the quick tier
        if chk.tier == 'quick' and row['mode'] == 'status' and (i + chk.seed) % 3:
            continue
        picks = ms if chk.tier == 'thorough' else [ms[(i + chk.seed) % len(ms)]]
        for m in picks:
            # "all supported" uses the real table: s3 must be the real latest supported version for Latest() to agree
            if not row['allowed']:
                m = dict(m)
                sup = list(mc.SUPPORTED_PROTOCOL_VERSIONS)
                m['s3'] = sup[-1]
                if row['srv'][0] == 'proto' and row['srv'][1] in ('s1', 's2'):
                    pass
            by_name = (i + n) % 2 == 0
            run_, obs = execute(mc, row, m, by_name, chk.seed * 1000003 + i)
            n += 1
            chk.traces += 1
            chk.case(('scenario', i, json.dumps(sorted(m.items()))), nontrivial=row['outcome'] != 'ValueError')
            v = judge(mc, row, m, run_, obs, by_name)
            if v:
                chk.violation(v[0], 'scenario mode=%s allowed=%r initial=%r server=%r handlers=%s/%s with versions %r (%s): %s'
                              % (row['mode'], row['allowed'], row['initial'], row['srv'], row['hs'], row['hp'],
                                 {k: m[k] for k in ('s1', 's2', 's3', 'k', 'x')}, 'names' if by_name else 'numbers', v[1]),
                              {'row': row, 'map': m, 'by_name': by_name})
            if n in (5, 900):
                chk.sample({'scenario': {k: row[k] for k in ('mode', 'allowed', 'initial', 'srv', 'hs', 'hp')},
                            'expected': {k: row[k] for k in ('tcp', 'frames', 'outcome')}, 'map': m})
    # ---- a status query on a Connection object whose previous attempt failed: it is a query like any other (status
    #      delivered once, connection closed, exit callback run once)
    for j in range(10 if chk.tier == 'quick' else 60):
        v = [47, 340, 757, 404][j % 4]
        first_mode = ('status', 'connect', 'play_comp', 'connect_hangup', 'status_hangup')[j % 5]
        what = second_query_after_failure(mc, v, first_mode, chk.seed * 211 + j)
        chk.traces += 1
        chk.case(('requery', j))
        if what:
            chk.violation('status:after-failed-attempt', '%s, then status() on the same Connection (protocol %d): %s'
                          % ('a whole session with compression' if first_mode == 'play_comp' else 'a %s() that failed' % first_mode, v, what), {'version': v, 'first': first_mode})

    # ---- the same scenarios after the table of supported versions has been changed at run time, the documented way
    #      (edit SUPPORTED_MINECRAFT_VERSIONS, call initglobals()): one known version becomes supported, one is withdrawn
    saved = dict(mc.SUPPORTED_MINECRAFT_VERSIONS)
    n_rt = 0
    try:
        known_names = {v: k for k, v in mc.KNOWN_MINECRAFT_VERSIONS.items()}
        newly = PRE_OF(mc, 9)                                   # known, not supported at import
        withdrawn = 578
        assert newly in mc.KNOWN_PROTOCOL_VERSIONS and newly not in mc.SUPPORTED_PROTOCOL_VERSIONS
        for k_, v_ in list(mc.SUPPORTED_MINECRAFT_VERSIONS.items()):
            if v_ == withdrawn:
                del mc.SUPPORTED_MINECRAFT_VERSIONS[k_]
        mc.SUPPORTED_MINECRAFT_VERSIONS[known_names[newly]] = newly
        mc.initglobals()
        sup = list(mc.SUPPORTED_PROTOCOL_VERSIONS)
        known = mc.KNOWN_PROTOCOL_VERSIONS
        s1 = 404
        m_rt = {'s1': s1, 's2': newly, 's3': 757, 'k': withdrawn, 'k0': 1, 'x': 9999}
        srt = sorted((m_rt[t] for t in ('s1', 's2', 's3')), key=known.index)
        m_rt['s1'], m_rt['s2'], m_rt['s3'] = srt
        assert all(m_rt[t] in sup for t in ('s1', 's2', 's3')) and m_rt['k'] not in sup
        for i, row in enumerate(rows):
            if (i + chk.seed) % (7 if chk.tier == 'quick' else 2):
                continue
            m = dict(m_rt)
            if not row['allowed']:
                m['s3'] = max(sup, key=known.index)
            run_, obs = execute(mc, row, m, False, chk.seed * 1000033 + i)
            n_rt += 1
            chk.traces += 1
            chk.case(('scenario-rt', i), nontrivial=row['outcome'] != 'ValueError')
            v = judge(mc, row, m, run_, obs, False)
            if v:
                chk.violation(v[0] + ':after-run-time-update', 'after %d was made supported and %d withdrawn at run time: scenario mode=%s '
                              'allowed=%r initial=%r server=%r with versions %r: %s'
                              % (newly, withdrawn, row['mode'], row['allowed'], row['initial'], row['srv'],
                                 {k: m[k] for k in ('s1', 's2', 's3', 'k', 'x')}, v[1]), {'row': row, 'map': m})
    finally:
        mc.SUPPORTED_MINECRAFT_VERSIONS.clear()
        mc.SUPPORTED_MINECRAFT_VERSIONS.update(saved)
        mc.initglobals(use_known_records=True)
    chk.extra['executions_after_run_time_update'] = n_rt
    chk.extra['scenarios'] = len(rows)
    chk.extra['executions'] = n
    chk.extra['protocol_maps'] = ms
    chk.assumptions += ['the contract only requires an allowed version in the status-phase handshake; the model says the latest allowed',
                        'of the VersionMismatch text only the protocol number and "not supported" / "not allowed" are required']
    return chk.finish(
        rule='every scenario of SessionNegotiate (11 allowed sets x 6 initial versions x 9 server replies for connect; x 9 handler mode '
             'pairs for status()) from TLC\'s exhaustive run, instantiated with 1 (quick) / 4 (thorough) concrete protocol maps, versions '
             'given alternately as names and numbers; non-trivial = construction succeeds')
