"""C15 - a server that stops mid-conversation never hangs or spins the client.

Model: specs/Framing.tla with end of stream at every offset (invariants
NoPartialDelivery, BoundedReadsAfterEof; liveness ReaderLeaves; the pre-fix loop
must violate them), specs/SessionNegotiate.tla for the status-phase fallback.
Binding: five reference conversations (status; status-then-login; login with
compression; login with encryption; compressed play traffic) are cut at every
byte offset of every server stream and run against the real client under the
scheduler; hangs / spins / blocking are scheduler outcomes, and every run is
validated against the contract Trace_Framing.tla by TLC.
"""
import json
import os
import random
import re

from .. import core
from ..session import Run, TracingScript
from .. import peer as P
from ..profile import Profile
from . import c10

KINDS = ['status', 'negotiate', 'negotiate_out', 'login_comp', 'login_enc', 'play', 'play_big', 'enc_big']
BIG = 20000         # one frame well beyond 16 KiB (chunk data, a large plugin message): cut offsets inside it are sampled
FALLBACK = {'negotiate': 340, 'negotiate_out': 498}     # negotiate_out: the default version is supported but not among the allowed ones


def conversation(kind, cut, seed, refuse_fallback=False, reset=False):
    """Run reference conversation `kind`; cut = None or (connection index, byte offset)."""
    from minecraft.networking.packets import Packet
    rng = random.Random(seed)
    priv, der = c10.rsa_key(1024)
    run = Run(seed=seed, chunk='random')
    conns = []          # per connection: dict(frames=[end offsets], total, script)
    info = {}
    v_hi, v_lo = 757, 340

    def add_emit(sc, rec, steps, payload_fn, encrypt_after=False):
        def fn(s):
            payload = payload_fn(s) if callable(payload_fn) else payload_fn
            data = P.frame(payload, s.threshold)
            before = s.session.s2c_total
            if getattr(s, 'cut_done', False):
                return
            s.raw(data)
            enc_len = len(data)
            rec['frames'].append(before + enc_len)
        steps.append(('call', fn))

    def factory(idx, sess):
        if idx >= 6 or (refuse_fallback and idx >= 1):
            return None         # (a client that keeps coming back is refused in the end; or: the server is gone after the cut)
        rec = {'frames': [], 'total': None, 'sock': sess.index}
        conns.append(rec)
        sc = TracingScript(run, None, [])
        rec['script'] = sc
        if cut is not None and cut[0] == idx:
            sc.cut_after = cut[1]
            sc.cut_reset = reset        # the server stops with a TCP reset instead of an orderly close
            if cut[1] == 0:
                (sess.reset if reset else sess.close)()
                sc.cut_done = True
                sc.prof = Profile(v_hi)
                return sc
        steps = []

        def prof_of(s):
            return s.prof
        if kind == 'status':
            sc.prof = Profile(v_hi)
            steps.append(('expect', 2))
            add_emit(sc, rec, steps, lambda s: s.prof.status_response(P.status_json(protocol=v_hi, name='ref')))
            steps.append(('expect', 3))
            add_emit(sc, rec, steps, lambda s: s.prof.status_pong(s.parsed[2].get('time', 0)))
        elif kind in FALLBACK and idx == 0:
            sc.prof = Profile(v_hi)
            steps.append(('expect', 2))
            add_emit(sc, rec, steps, lambda s: s.prof.status_response(P.status_json(protocol=v_lo, name='ref')))
        else:
            # login connections: the version is whatever the handshake says
            class Lazy(object):
                def parse(self_, state, fr):
                    if state == 'handshake':
                        r = P.Reader(fr['body'])
                        sc.prof = Profile(r.varint())
                        return sc.prof.parse(state, fr)
                    return sc.prof.parse(state, fr)
            sc.prof = Lazy()
            steps.append(('expect', 2))
            if kind in FALLBACK:
                def status_again(s):
                    if s.parsed and s.parsed[0].get('next') == 1:       # another status query instead of the login: hang up
                        info['status_again'] = info.get('status_again', 0) + 1
                        s.steps[s.pc + 1:] = [('close',)]
                steps.append(('call', status_again))
            if kind in ('login_enc', 'enc_big'):
                tok = b'\x0a\x0b\x0c\x0d'

                def after_resp(s):
                    for p in s.parsed:
                        if p['t'] == 'enc_response':
                            try:
                                info['secret'] = c10.rsa_decrypt(priv, p['secret'])
                            except Exception:   # noqa
                                info['secret'] = b'\0' * 16
                            return True
                    return False
                add_emit(sc, rec, steps, lambda s: s.prof.enc_request('-', der, tok))
                steps += [('wait', after_resp), ('encrypt', lambda s: info['secret'])]
            if kind in ('login_comp', 'play'):
                thr = 64 if kind == 'login_comp' else 0
                add_emit(sc, rec, steps, lambda s, thr=thr: s.prof.login_compress(thr))
                steps.append(('compress', thr))
            add_emit(sc, rec, steps, lambda s: s.prof.login_success(bytes(range(16)), 'verif'))
            steps.append(('call', lambda s: setattr(s, 'state', 'play')))
            add_emit(sc, rec, steps, lambda s: s.prof.keep_alive(11))
            pid = lambda s: P.VI(s.prof.cb.play.PluginMessagePacket.get_id(s.prof.ctx))    # noqa
            add_emit(sc, rec, steps, lambda s: pid(s) + P.S('ref:a') + bytes(range(200)))
            if kind in ('play_big', 'enc_big'):
                add_emit(sc, rec, steps, lambda s: pid(s) + P.S('ref:big') + bytes((i * 31 + 5) % 256 for i in range(BIG)))
                add_emit(sc, rec, steps, lambda s: s.prof.keep_alive(13))
            if kind == 'play':
                add_emit(sc, rec, steps, lambda s: P.VI(s.prof.unknown_id('play')) + b'\x01' * 30)
                add_emit(sc, rec, steps, lambda s: s.prof.pos_look(1.0, 64.0, 1.0, 0.0, 0.0, 0, 3))
                add_emit(sc, rec, steps, lambda s: s.prof.keep_alive(12))
                add_emit(sc, rec, steps, lambda s: pid(s) + P.S('ref:b') + bytes(range(256)) * 2)
                add_emit(sc, rec, steps, lambda s: s.prof.time_update(5, 6))
            add_emit(sc, rec, steps, lambda s: s.prof.play_disconnect('{"text":"end"}'))
        sc.steps = steps
        return sc
    run.serve(factory)
    obs = {'status': [], 'ping': []}

    def scenario(run):
        if kind == 'status':
            c = run.make_connection(allowed_versions={v_hi})
        elif kind in FALLBACK:
            c = run.make_connection(allowed_versions={v_lo, v_hi}, initial_version=FALLBACK[kind])
        else:
            c = run.make_connection(allowed_versions={v_hi})

        def on_packet(p):
            # the packet came from the socket this thread last read from
            me = run.sched.me().name
            sock = None
            for e in reversed(run.sched.events):
                if e['ev'] == 'read' and e['t'] == me:
                    sock = e['sock']
                    break
            rec = [r_ for r_ in conns if r_['sock'] == sock][0]
            sess = rec['script'].session
            run.sched.log('deliver', i=0, conn=len(conns) - 1, sock=rec['sock'], off=sess.s2c_total - len(sess.s2c),
                          name=getattr(p, 'packet_name', '?'))
        c.register_packet_listener(on_packet, Packet)
        if kind == 'status':
            c.status(handle_status=lambda d: obs['status'].append(d), handle_ping=lambda ms: obs['ping'].append(ms))
        else:
            c.connect()
    run.go(scenario)
    for rec in conns:
        rec['total'] = rec['script'].session.s2c_total if rec['script'].session is not None else 0
    return run, conns, obs


def traces_of(run, conns, cut):
    out = []
    for ci, rec in enumerate(conns):
        ev = []
        consumed = 0
        ndel = 0
        for e in run.sched.events:
            if e['ev'] == 'read' and e.get('sock') == rec['sock'] and e.get('got', -1) >= 0:
                want = e['want'] if e['want'] is not None and e['want'] >= 0 else 1 << 30
                ev.append({'k': 'read', 'want': want, 'got': e['got'], 'off': consumed})
                consumed += e['got']
            elif e['ev'] == 'deliver' and e.get('sock') == rec['sock']:
                ndel += 1
                ev.append({'k': 'deliver', 'i': ndel, 'off': e['off'], 'ok': True})
        later = ci + 1 < len(conns)
        if run.errors or run.exits or later:
            ev.append({'k': 'left', 'how': 'x'})
        out.append({'ends': rec['frames'], 'total': rec['total'], 'ev': ev,
                    'mustLeave': True, 'meta': {'conn': ci, 'cut': cut}})
    return out


def run(chk):
    core.import_minecraft()
    quick = chk.tier == 'quick'
    # ---- model
    chk.tlc('MC_Framing', 'Framing_exhaustive.cfg')
    chk.tlc('MC_Framing', 'Framing_live.cfg')
    r0 = chk.tlc('MC_Framing', 'Framing_unfixed.cfg', must_pass=False)
    if 'BoundedReadsAfterEof' not in r0.violated:
        raise core.MachineryError('self-test: the pre-fix reader model should violate BoundedReadsAfterEof')
    chk.extra['unfixed_reader_model_violates_BoundedReadsAfterEof'] = True
    # the second way to stop: a TCP reset (FramingReset.tla reuses Framing's actions, guarded by ~rst)
    chk.tlc('MC_FramingReset', 'FramingReset_safety.cfg')
    chk.tlc('MC_FramingReset', 'FramingReset_live.cfg')
    r1 = chk.tlc('MC_FramingReset', 'FramingReset_errbits.cfg', must_pass=False)
    if 'ResetLeaves' not in r1.violated:
        raise core.MachineryError('self-test: a readiness call that takes error bits for "nothing to read" should violate ResetLeaves')
    chk.extra['errbits_deviation_model_violates_ResetLeaves'] = True
    # ---- binding: every prefix of every reference stream
    traces = []
    lengths = {}
    for kind in KINDS:
        run0, conns0, obs0 = conversation(kind, None, chk.seed)
        if run0.outcome != 'done' or run0.errors:
            chk.violation('eof:%s:uncut' % kind, 'the uncut reference conversation ended %s with errors %r'
                          % (run0.outcome, run0.errors[:2]), {'kind': kind})
            continue
        lengths[kind] = [rec['total'] for rec in conns0]
        for tr in traces_of(run0, conns0, None):
            tr['meta']['kind'] = kind
            traces.append(tr)
        # ---- the server stops with a TCP reset (unread data is gone with it) between frames and inside them: an error like
        #      any other, reported after a bounded number of steps - whatever readiness call the client uses
        for ci, n in enumerate(lengths[kind]):
            if kind in FALLBACK and ci == 0:
                continue
            ends = sorted(set(conns0[ci]['frames']))
            offs = sorted(set([0] + ends[:-1] + [e - 1 for e in ends if e > 1] + [e + 1 for e in ends[:-1]]))
            if quick:
                offs = offs[chk.seed % 2::2] + [0]
            for off in offs:
                if off >= n:
                    continue
                run_, conns, obs = conversation(kind, (ci, off), chk.seed * 1019 + off, reset=True)
                chk.traces += 1
                chk.case((kind, ci, off, 'reset'))
                where = '%s conversation, server stream %d reset after %d of %d bytes' % (kind, ci, off, n)
                if run_.outcome != 'done':
                    how = {'budget': 'exhausted the step budget (busy loop)', 'spin': 'kept reading an exhausted stream (spin)',
                           'deadlock': 'blocked for ever (no thread can make progress)',
                           'quiescent': 'is left waiting for ever in an idle select loop'}.get(run_.outcome, run_.outcome)
                    chk.violation('reset:%s:%s' % (kind, run_.outcome), '%s: the client %s' % (where, how),
                                  {'kind': kind, 'conn': ci, 'offset': off, 'reset': True})
                elif not run_.errors:
                    chk.violation('reset:%s:no-error' % kind, '%s: the client ended without reporting an error' % where,
                                  {'kind': kind, 'conn': ci, 'offset': off, 'reset': True})
        for ci, n in enumerate(lengths[kind]):
            boundaries = set(conns0[ci]['frames'])
            for off in range(0, n + 1):
                near = any(abs(off - b) <= 2 for b in boundaries)
                if kind in ('play_big', 'enc_big'):
                    # a 20 KB frame: boundaries, and a sample of the offsets in between (every 701st / 97th)
                    if not (near or off < 4 or off % (701 if quick else 97) == (chk.seed * 13) % 97):
                        continue
                elif quick and not (off % 2 == chk.seed % 2 or near or off < 4):
                    continue
                run_, conns, obs = conversation(kind, (ci, off), chk.seed * 1009 + off)
                chk.traces += 1
                chk.case((kind, ci, off))
                where = '%s conversation, server stream %d cut after %d of %d bytes' % (kind, ci, off, n)
                if run_.outcome != 'done':
                    how = {'budget': 'exhausted the step budget (busy loop)', 'spin': 'kept reading an exhausted stream (spin)',
                           'deadlock': 'blocked for ever (no thread can make progress)',
                           'quiescent': 'is left waiting for ever in an idle select loop', 'error': 'hung the harness'}.get(run_.outcome, run_.outcome)
                    chk.violation('eof:%s:%s' % (kind, run_.outcome), '%s: the client %s' % (where, how),
                                  {'kind': kind, 'conn': ci, 'offset': off})
                    continue
                complete = [e for e in conns0[ci]['frames'] if e <= off]
                if kind in FALLBACK and ci == 0 and off < n:
                    # unanswered status query: documented fallback to the default version, no error
                    ok = len(conns) == 2 and not run_.errors and run_.exits == 1 and \
                        conns[1]['script'].parsed and conns[1]['script'].parsed[0].get('protocol') == FALLBACK[kind] and \
                        conns[1]['script'].parsed[0].get('next') == 2
                    if not ok:
                        chk.violation('eof:%s:fallback' % kind, '%s: expected one fallback login with the default version %d; got %d '
                                      'connections (first frames %r), errors %r'
                                      % (where, FALLBACK[kind], len(conns), [r_['script'].parsed[:1] and (r_['script'].parsed[0].get('protocol'),
                                         r_['script'].parsed[0].get('next')) for r_ in conns][:6], run_.errors[:2]), {'offset': off})
                    elif off % 5 == chk.seed % 5 or off < 3:
                        # ... and when the server cannot be reached for the fallback login either, that is an error to report
                        run2, conns2, _ = conversation(kind, (ci, off), chk.seed * 1013 + off, refuse_fallback=True)
                        chk.traces += 1
                        chk.case((kind, ci, off, 'fallback-refused'))
                        if run2.outcome != 'done':
                            chk.violation('eof:%s:%s' % (kind, run2.outcome), '%s, fallback connection refused: the client ended %s'
                                          % (where, run2.outcome), {'kind': kind, 'offset': off, 'refused': True})
                        elif not run2.errors:
                            chk.violation('eof:%s:fallback-refused:no-error' % kind, '%s, and the fallback connection is refused: the client ended '
                                          'without reporting an error (exit callbacks: %d)' % (where, run2.exits), {'kind': kind, 'offset': off})
                elif off < n:
                    if not run_.errors:
                        chk.violation('eof:%s:no-error' % kind, '%s: the client ended without reporting an error' % where,
                                      {'kind': kind, 'conn': ci, 'offset': off})
                    elif kind == 'status' and obs['status'] and conns0[ci]['frames'][0] > off:
                        chk.violation('eof:status:partial-delivery', '%s: status handler ran on an incomplete response' % where, {})
                for tr in traces_of(run_, conns, (ci, off)):
                    tr['meta']['kind'] = kind
                    traces.append(tr)
    chk.extra['reference_stream_lengths'] = lengths
    # ---- validate
    shards = 8
    per = (len(traces) + shards - 1) // shards
    for s in range(shards):
        part = traces[s * per:(s + 1) * per]
        if not part:
            continue
        tf = os.path.join(chk.work, 'eof_traces_%d.json' % s)
        with open(tf, 'w') as f:
            json.dump([dict({k: t[k] for k in ('ends', 'total', 'ev', 'mustLeave')}, allDelivered=False) for t in part], f)
        r2 = chk.tlc('Trace_Framing', 'Trace_Framing.cfg', env={'TRACE_FILE': tf}, must_pass=False, workers=4,
                     label='Trace_Framing shard %d' % s)
        if r2.violated:
            m = re.search(r'tid = (\d+)', r2.out)
            m2 = None
            for m2 in re.finditer(r'rejected = "([^"]*)"', r2.out):
                pass
            ml = re.findall(r'\bl = (\d+)', r2.out)
            bad = part[int(m.group(1)) - 1] if m else None
            why = m2.group(1) if m2 and m2.group(1) else ('%s' % r2.violated[0])
            at = int(ml[-1]) if ml else 0
            chk.violation('eof:trace:%s' % re.sub(r'[^a-z]+', '-', why.lower())[:60],
                          'run %r rejected by Trace_Framing at event %d: %s; events: %r'
                          % (bad and bad['meta'], at, why, bad and bad['ev'][max(0, at - 2):at + 1]), {'trace': bad})
        elif not r2.ok:
            raise core.MachineryError('Trace_Framing failed: %s' % r2.errors[:3])
    chk.sample({'kind': traces[-1]['meta'], 'ends': traces[-1]['ends'], 'total': traces[-1]['total'], 'events': traces[-1]['ev'][:6]})
    chk.assumptions += ['scheduler outcomes stand for liveness: budget = busy loop, spin = > 50 empty reads, deadlock = blocked for ever, '
                        'quiescent = idle select loop with the stream ended']
    return chk.finish(
        rule='one execution per (reference conversation, server stream, cut offset): every offset in the thorough tier, every second '
             'offset plus all offsets within 2 bytes of a frame boundary in the quick tier; distinct by (kind, stream, offset)')
