"""C07 - core packets match the published protocol for every supported release.

Spec: specs/ProtocolRef.tla - ids and field layouts of the core packets per release
protocol, written from the published protocol (recollected offline), encoded by
the TLA+ reference encoders.  TLC emits (release, packet, values, payload) rows;
S->I: Packet.write must produce exactly those bytes, the id must select that class
in the reactor's dispatch table, and decoding the reference bytes must return the
values.  Shares no code with pyCraft's ladders or definitions.
"""
import io
import json
import random

from .. import core
from ..budget import Sink, CountingStream
from . import c02


def binding():
    from minecraft.networking.packets import clientbound as cb, serverbound as sb
    return {
        ('sb', 'handshake', 'handshake'): sb.handshake.HandShakePacket,
        ('sb', 'status', 'status_request'): sb.status.RequestPacket,
        ('sb', 'status', 'status_ping'): sb.status.PingPacket,
        ('cb', 'status', 'status_response'): cb.status.ResponsePacket,
        ('cb', 'status', 'status_pong'): cb.status.PingResponsePacket,
        ('sb', 'login', 'login_start'): sb.login.LoginStartPacket,
        ('cb', 'login', 'login_disconnect'): cb.login.DisconnectPacket,
        ('cb', 'login', 'encryption_request'): cb.login.EncryptionRequestPacket,
        ('sb', 'login', 'encryption_response'): sb.login.EncryptionResponsePacket,
        ('cb', 'login', 'login_success'): cb.login.LoginSuccessPacket,
        ('cb', 'login', 'set_compression'): cb.login.SetCompressionPacket,
        ('cb', 'play', 'keep_alive'): cb.play.KeepAlivePacket,
        ('sb', 'play', 'keep_alive'): sb.play.KeepAlivePacket,
        ('cb', 'play', 'join_game'): cb.play.JoinGamePacket,
        ('cb', 'play', 'chat'): cb.play.ChatMessagePacket,
        ('sb', 'play', 'chat'): sb.play.ChatPacket,
        ('cb', 'play', 'pos_look'): cb.play.PlayerPositionAndLookPacket,
        ('sb', 'play', 'pos_look'): sb.play.PositionAndLookPacket,
        ('cb', 'play', 'disconnect'): cb.play.DisconnectPacket,
        ('sb', 'play', 'teleport_confirm'): sb.play.TeleportConfirmPacket,
    }


def value_of(ty, v):
    if ty[0] == 'Raw':
        import pynbt
        return pynbt.NBTFile(io=io.BytesIO(bytes(v)))
    return c02.pyval(ty, v)


def same(ty, got, want_raw, want):
    if ty[0] == 'Raw':
        import pynbt
        b = io.BytesIO()
        try:
            pynbt.NBTFile(value=got).save(b)
        except Exception:       # noqa
            return False
        return b.getvalue() == bytes(want_raw)
    return c02.same(ty, got, want)


def run(chk):
    mc = core.import_minecraft()
    from minecraft.networking import connection as conn
    from minecraft.networking.connection import ConnectionContext
    from minecraft.networking.packets import PacketBuffer
    from minecraft.networking import types as T
    r = chk.tlc('ProtocolRef', 'ProtocolRef.cfg')
    rows = r.printed
    if len(rows) < 1000:
        raise core.MachineryError('only %d rows' % len(rows))
    bind = binding()
    reactors = {'status': conn.StatusReactor, 'login': conn.LoginReactor, 'play': conn.PlayingReactor, 'handshake': conn.PacketReactor}
    releases = sorted(set(row['row']['p'] for row in rows))
    missing = [p for p in releases if p not in mc.SUPPORTED_PROTOCOL_VERSIONS]
    if missing:
        chk.violation('ref:unsupported-release', 'release protocols %r are not supported' % missing, {})

    class FakeConn(object):
        pass
    per_release = {}
    conns = {}
    shared_ctx = ConnectionContext(protocol_version=757)
    rng = random.Random(chk.seed)
    rows = list(rows)
    rng.shuffle(rows)           # so that the shared context really jumps between versions
    for i, item in enumerate(rows):
        row, payload = item['row'], bytes(item['payload'])
        p, k, d, st = row['p'], row['k'], row['dir'], row['st']
        if p in missing:
            continue
        if i % 2:
            shared_ctx.protocol_version = p       # a long-lived context re-used across versions, as connect() does
            ctx = shared_ctx
        else:
            ctx = ConnectionContext(protocol_version=p)
        cls = bind[(d, st, k)]
        where = '%s %s/%s at release protocol %d' % (k, d, st, p)
        per_release[p] = per_release.get(p, 0) + 1
        chk.case((p, k, d, item['vs']), nontrivial=bool(row['fields']))
        chk.traces += 1
        # ---- id
        try:
            got_id = cls.get_id(ctx)
        except Exception as e:      # noqa
            got_id = repr(e)
        if got_id != row['id']:
            chk.violation('ref:id:%s:%s' % (d, k), '%s: pyCraft uses id %r, the published id is 0x%02X' % (where, got_id, row['id']), {'row': row})
            continue
        if d == 'cb':
            fc = FakeConn()
            fc.context = ctx
            table = reactors[st](fc).clientbound_packets
            if table.get(row['id']) is not cls:
                chk.violation('ref:dispatch:%s' % k, '%s: id 0x%02X selects %r in the reactor' % (where, row['id'], table.get(row['id'])), {'row': row})
                continue
        # ---- write
        pkt = cls(context=ctx)
        vals = {}
        for (attr, ty, v) in row['fields']:
            vals[attr] = value_of(ty, v)
            setattr(pkt, attr, vals[attr])
        sink = Sink()
        try:
            pkt.write(sink)
            data = sink.value()
            stx = CountingStream(data)
            ln = T.VarInt.read(stx)
            got = data[stx.pos:]
        except Exception as e:      # noqa
            chk.violation('ref:write:%s:%s' % (d, k), '%s: writing raised %r' % (where, e), {'row': row})
            continue
        if got != payload or ln != len(got):
            # locate the first differing field
            off = 0
            chk.violation('ref:layout:%s:%s' % (d, k), '%s: pyCraft writes %s, the published layout gives %s'
                          % (where, got[:48].hex(), payload[:48].hex()), {'row': row, 'written': list(got)})
            continue
        # ---- the same through Connection.write_packet, with a packet object that carries the context of another
        #      release (re-used from an earlier connection, or constructed with one): the connection's release decides
        if d == 'sb' and p in mc.SUPPORTED_PROTOCOL_VERSIONS:
            other = releases[(releases.index(p) + 1 + i % (len(releases) - 1)) % len(releases)]
            stale = ConnectionContext(protocol_version=other)
            c = conns.get(p)
            if c is None:
                c = conns[p] = conn.Connection('localhost', 25565, allowed_versions={p})
            for mode in ('stale', 'fresh'):
                pk2 = cls(context=stale) if mode == 'stale' else cls()
                for (attr, ty, v) in row['fields']:
                    setattr(pk2, attr, vals[attr])
                c.socket = Sink()
                try:
                    c.write_packet(pk2, force=True)
                    data2 = c.socket.value()
                except Exception as e:      # noqa
                    data2 = repr(e).encode()
                chk.evaluations += 1
                if data2 != data:
                    chk.violation('ref:connection-write:%s:%s' % (mode, k), '%s: written through Connection.write_packet with a %s packet object '
                                  '(context of protocol %d) gives %s, the published layout gives %s'
                                  % (where, mode, other, data2[:40].hex(), data[:40].hex()), {'row': row, 'other': other})
            c.socket = None
        # ---- read the reference bytes
        try:
            pb = PacketBuffer()
            idlen = len(core.limbs(row['id'])) if row['id'] else 1
            pb.send(payload[idlen:])
            pb.reset_cursor()
            q = cls(context=ctx)
            q.read(pb)
            left = len(pb.read())
            bad = [attr for (attr, ty, v) in row['fields'] if not hasattr(q, attr) or not same(ty, getattr(q, attr), v, vals[attr])]
        except Exception as e:      # noqa
            chk.violation('ref:read:%s:%s' % (d, k), '%s: reading the reference bytes raised %r' % (where, e), {'row': row})
            continue
        if left or bad:
            chk.violation('ref:decode:%s:%s' % (d, k), '%s: decoding the reference bytes leaves %d bytes, fields differing: %r'
                          % (where, left, bad), {'row': row})
        if i in (3, 700):
            chk.sample({'release': p, 'packet': k, 'dir': d, 'id': row['id'], 'payload': payload[:40].hex()})
    # ---- relay: a clientbound core packet decoded by the reactor's read_packet at release A and written again under
    #      release B (same field layout there) must carry B's published id and layout
    import socket as _socket
    by_kind = {}
    for item in rows:
        row = item['row']
        if row['dir'] == 'cb' and row['p'] not in missing:
            by_kind.setdefault((row['k'], row['st'], item['vs']), []).append(item)
    relayed = 0
    for (k, st, vs), items in sorted(by_kind.items()):
        items.sort(key=lambda it: releases.index(it['row']['p']))
        for a, b in zip(items, items[1:] + items[:1]):
            ra, rb = a['row'], b['row']
            if ra['fields'] != rb['fields'] or ra['p'] == rb['p']:      # same fields, types and values at both releases
                continue
            if any(f[1][0] == 'Raw' for f in ra['fields']):
                continue
            ca = conns.get(ra['p']) or conns.setdefault(ra['p'], conn.Connection('localhost', 25565, allowed_versions={ra['p']}))
            cb_ = conns.get(rb['p']) or conns.setdefault(rb['p'], conn.Connection('localhost', 25565, allowed_versions={rb['p']}))
            # a relay holds both connections at once: A's reactor exists first, B's is made afterwards, A's decodes
            rea = reactors[st](ca)
            reb = reactors[st](cb_)      # noqa  (kept alive)
            s1, s2 = _socket.socketpair()
            try:
                pa = bytes(a['payload'])
                s1.sendall(bytes(core.limbs(len(pa)) and [d | 0x80 for d in core.limbs(len(pa))[:-1]] + [core.limbs(len(pa))[-1]] or [0]) + pa)
                fo = s2.makefile('rb', 0)
                got_pkt = rea.read_packet(fo, timeout=2)
                fo.close()
            except Exception as e:      # noqa
                got_pkt = e
            finally:
                s1.close()
                s2.close()
            relayed += 1
            chk.evaluations += 1
            where = '%s cb/%s decoded by read_packet at release %d and written under release %d' % (k, st, ra['p'], rb['p'])
            if not isinstance(got_pkt, bind[('cb', st, k)]):
                desc = got_pkt if isinstance(got_pkt, BaseException) else '%s (id %r)' % (type(got_pkt).__name__, getattr(got_pkt, 'id', None))
                chk.violation('ref:relay:decode:%s' % k, '%s: read_packet returned %r' % (where, desc), {'row': ra})
                continue
            got_pkt.context = ConnectionContext(protocol_version=rb['p'])
            sink = Sink()
            try:
                got_pkt.write(sink)
                data = sink.value()
                stx = CountingStream(data)
                T.VarInt.read(stx)
                out = data[stx.pos:]
            except Exception as e:      # noqa
                out = repr(e).encode()
            if out != bytes(b['payload']):
                chk.violation('ref:relay:%s' % k, '%s: gives %s, the published frame is %s' % (where, out[:40].hex(), bytes(b['payload'])[:40].hex()),
                              {'from': ra['p'], 'to': rb['p'], 'packet': k})
    chk.extra['relayed_between_releases'] = relayed
    chk.extra['rows'] = len(rows)
    chk.extra['releases'] = releases
    chk.extra['rows_per_release'] = per_release
    chk.extra['omitted_rows'] = []
    chk.assumptions += ['the reference table is recollected from the published protocol documentation (no network in the sandbox); '
                        'a disagreement on the unchanged tree would be adjudicated from in-repo evidence or the row dropped, never edited to match',
                        'join-game NBT fields use one fixed small compound as an opaque blob']
    return chk.finish(
        rule='one case per (release protocol, core packet, direction, value set) of ProtocolRef.tla: 30 releases x 20 packets x 2 value sets; '
             'non-trivial = the packet has fields',
        exhaustive=True)
