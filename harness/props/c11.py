"""C11 - in play, keep-alives and teleports are always answered; unknown packets pass.

Model: specs/SessionPlay.tla (batching loop + PlayingReactor), exhaustive over
all server scripts up to a length bound; every behaviour is replayed into a real
Connection (S->I).  Long seeded histories under every supported protocol
version, compression on and off, random read segmentation, are recorded and
judged by the contract specs/Trace_Play.tla in TLC (I->S).
"""
import json
import os
import random
import re

from .. import core
from ..session import Run, TracingScript, key64
from .. import peer as P
from ..profile import Profile


def split_steps(sc, payload, kind, key):
    """The frame leaves the server in two pieces; the second follows only when the scenario resumes 'rest' (once the client
    has taken the first piece and waits for more - however long that takes)."""
    def first(s):
        sc.run.ev('srv', p=[kind, key], conn=getattr(sc, 'index', None))
        data = P.frame(payload, s.threshold)
        s.sent.append(payload)
        cut = max(1, len(data) // 2)
        s.notes['rest'] = data[cut:]
        s.raw(data[:cut])
        s.notes['split_sent'] = True
    return [('call', first), ('pause', 'rest'), ('call', lambda s: s.raw(s.notes['rest']))]


def play_steps(sc, prof, hist, thr=None, interleave=None, mid_comp=None, split=None):
    """Script steps: login (optionally set-compression), then the play history.  mid_comp = (index, threshold): the
    play-state set-compression packet (protocols up to 47) is sent in front of history item `index`."""
    steps = [('expect', 2)]
    if thr == 'edge':       # the threshold is exactly the size of one of the packets to come: a vanilla server sends that
        thr = len(hist[len(hist) // 2][2]) if hist else 1       # one compressed (it compresses from the threshold upwards)
    if thr is not None:
        steps += [('send', prof.login_compress(thr)), ('compress', thr)]
    steps += [('send', prof.login_success(bytes(range(16)), 'verif')),
              ('call', lambda s: setattr(s, 'state', 'play'))]
    answers = 2
    for i, (kind, key, payload) in enumerate(hist):
        if mid_comp is not None and i == mid_comp[0] and prof.c.get('play_compress') is not None:
            # the server waits for the answers that are still due before it switches: a client frame written before the
            # client has seen the announcement but arriving after the server's switch would be ambiguous in the protocol
            # itself (not a matter of this client)
            steps += [('expect', answers), ('send', P.VI(prof.c['play_compress']) + P.VI(mid_comp[1])), ('compress', mid_comp[1])]
        if split is not None and i == split:
            steps += split_steps(sc, payload, kind, key)
        else:
            steps.append(sc.tagged(payload, kind, key))
        if kind in ('ka', 'pl'):
            answers += 1
            if interleave and interleave(i):
                steps.append(('expect', answers))
    return steps


def concretise(prof, rng, kind, val):
    """Abstract packet -> (kind, key, payload)."""
    if kind == 'ka':
        return ('ka', key64(val), prof.keep_alive(val))
    if kind == 'pl':
        tid = val
        # angles also outside [0, 360): the acknowledgement before protocol 107 echoes what was received, unnormalised
        x, y, z = (tid % 97) + 1, (tid % 31) + 64, (tid % 89) + 3
        yaw = [(tid * 7) % 360, -90, 725, 360][tid % 4]
        pitch = [(tid * 3) % 90, -30, -89, 90][(tid // 4) % 4]
        if tid % 11 == 3:
            x, z = -x, -z
        key = [tid] if prof.ge(107) else [x, y, z, yaw, pitch]
        return ('pl', key, prof.pos_look(float(x), float(y), float(z), float(yaw), float(pitch), 0, tid))
    if kind == 'unk':
        uid = prof.unknown_id('play')
        body = bytes(rng.getrandbits(8) for _ in range(rng.choice([0, 1, 5, 40, 300])))
        return ('unk', [uid], P.VI(uid) + body)
    if kind == 'known':
        return ('known', key64(val % (2 ** 31)), prof.known_unhandled(val % (2 ** 31))[1])
    if kind == 'disc':
        return ('disc', [], prof.play_disconnect('{"text":"bye"}'))
    raise ValueError(kind)


def packet_obs(pkt, prof):
    from minecraft.networking.packets import Packet
    name = getattr(pkt, 'packet_name', None)
    if type(pkt) is Packet:
        return ['unk', [pkt.id]]
    if name == 'keep alive':
        return ['ka', key64(pkt.keep_alive_id)]
    if name == 'player position and look':
        if prof.ge(107):
            return ['pl', [pkt.teleport_id]]
        return ['pl', [int(pkt.x), int(pkt.y), int(pkt.z), int(pkt.yaw), int(pkt.pitch)]]
    if name == 'time update':
        return ['known', key64(pkt.world_age)]
    if name == 'update health':
        return ['known', key64(pkt.food)]
    if name == 'disconnect':
        return ['disc', []]
    return ['other', [0]]


def client_obs(p, prof):
    if p['t'] == 'keep_alive':
        return ['ka', key64(p['id'])]
    if p['t'] == 'teleport_confirm':
        return ['tc', [p['id']]]
    if p['t'] == 'pos_look':
        vals = [p['x'], p['y'], p['z'], p['yaw'], p['pitch']]
        if all(float(v).is_integer() for v in vals) and p['ground'] is True and 'trailing' not in p:
            return ['pos', [int(v) for v in vals]]
        return ['pos', [-1]]
    return ['bad', [0]]


def execute(version, hist_abs, seed, thr=None, interleave=None, policy=None, chunk='random', mid_comp=None, split=None):
    """Run one play session; returns (run, trace for TLC, prof)."""
    from minecraft.networking.packets import Packet
    prof = Profile(version)
    rng = random.Random(seed)
    hist = [concretise(prof, rng, k, v) for (k, v) in hist_abs]
    run = Run(policy=policy, seed=seed, chunk=chunk)
    holder = {}

    def factory(idx, sess):
        sc = TracingScript(run, prof, [])
        sc.steps = play_steps(sc, prof, hist, thr, interleave, mid_comp, split)
        holder['sc'] = sc
        return sc
    run.serve(factory)

    def scenario(run):
        c = run.make_connection(allowed_versions={version})
        c.register_packet_listener(lambda p: run.ev('deliver', p=packet_obs(p, prof), play=type(c.reactor).__name__), Packet)
        c.connect()
        if split is not None:
            def waits_for_the_rest():
                nets = [t for t in run.sched.threads if t.kind == 'net']
                if nets and all(t.finished for t in nets):
                    return True
                sc_ = holder.get('sc')
                return bool(sc_ and sc_.notes.get('split_sent') and len(sc_.session.s2c) == 0 and any(t.waiting_read for t in nets))
            run.sched.yield_point(blocked_on=waits_for_the_rest)
            holder['sc'].resume('rest')
    run.go(scenario)
    # project the run's trace onto the contract's events
    ev = []
    in_play = False
    for e in run.trace:
        if e['k'] == 'srv':
            ev.append({'k': 'srv', 'p': e['p']})
        elif e['k'] == 'deliver':
            if e['p'][0] == 'other':
                continue            # login success etc. (login-state packets)
            ev.append({'k': 'deliver', 'p': e['p']})
        elif e['k'] == 'c2s':
            if e['f']['t'] in ('handshake', 'login_start'):
                continue
            ev.append({'k': 'c2s', 'p': client_obs(e['f'], prof)})
        elif e['k'] in ('closed', 'exit', 'error'):
            ev.append({'k': e['k']})
    if getattr(run.conn, 'spawned', False):
        ev.append({'k': 'spawned'})
    return run, {'tp': prof.ge(107), 'ev': ev, 'version': version}, prof


def two_sessions(version, hist1, hist2, seed, thr1, thr2, drop_first=False):
    """The same Connection object plays two sessions in a row (connect again after the server's disconnect): state of
    the first session (compression, spawned flag, queue, reactor) must not leak into the second.  Returns two traces."""
    from minecraft.networking.packets import Packet
    prof = Profile(version)
    rng = random.Random(seed)
    hists = [[concretise(prof, rng, k, v) for (k, v) in h] for h in (hist1, hist2)]
    run = Run(seed=seed, chunk='random')
    marks = []

    def factory(idx, sess):
        sc = TracingScript(run, prof, [])
        sc.steps = play_steps(sc, prof, hists[min(idx, 1)], (thr1, thr2)[min(idx, 1)], None)
        if idx == 0 and drop_first:
            sc.steps.append(('close',))     # the link drops right behind the last packets: answers stay queued, nothing is flushed
        return sc
    run.serve(factory)
    spawned = []

    def scenario(run):
        c = run.make_connection(allowed_versions={version})
        c.register_packet_listener(lambda p: run.ev('deliver', p=packet_obs(p, prof)), Packet)
        c.connect()
        vt = run.installed.started[0]._vt
        run.sched.yield_point(blocked_on=lambda: vt.finished)
        spawned.append(bool(getattr(c, 'spawned', False)))
        marks.append(len(run.trace))
        c.connect()
        vt2 = run.installed.started[-1]._vt
        run.sched.yield_point(blocked_on=lambda: vt2.finished)
        spawned.append(bool(getattr(c, 'spawned', False)))
    run.go(scenario)
    cut = marks[0] if marks else len(run.trace)
    out = []
    for part, sp in ((run.trace[:cut], spawned[:1]), (run.trace[cut:], spawned[1:])):
        ev = []
        for e in part:
            if e['k'] == 'srv':
                ev.append({'k': 'srv', 'p': e['p']})
            elif e['k'] == 'deliver' and e['p'][0] != 'other':
                ev.append({'k': 'deliver', 'p': e['p']})
            elif e['k'] == 'c2s' and e['f']['t'] not in ('handshake', 'login_start'):
                ev.append({'k': 'c2s', 'p': client_obs(e['f'], prof)})
            elif e['k'] in ('closed', 'exit', 'error'):
                ev.append({'k': e['k']})
        if sp and sp[0]:
            ev.append({'k': 'spawned'})
        out.append({'tp': prof.ge(107), 'ev': ev, 'version': version})
    # what each TCP connection received first: always handshake, login start
    heads = [[p['t'] for p in sc.parsed[:2]] for sc in run.scripts]
    return run, out, heads


def two_connections(va, vb, hist_a, hist_b, seed, thr_a, thr_b):
    """Two Connection objects alive at the same time on different protocol versions (one process, one networking thread
    each): each session must be the session its own server script describes.  Returns one trace per connection."""
    from minecraft.networking.packets import Packet
    profs = [Profile(va), Profile(vb)]
    rng = random.Random(seed)
    hists = [[concretise(profs[i], rng, k, v) for (k, v) in h] for i, h in enumerate((hist_a, hist_b))]
    run = Run(seed=seed, chunk='random')
    scripts = {}

    def factory(idx, sess):
        i = min(idx, 1)
        sc = TracingScript(run, profs[i], [])
        steps = play_steps(sc, profs[i], hists[i][:-1], (thr_a, thr_b)[i], None)
        # both sessions are kept open until both have been served: the final disconnect waits for the other script
        steps += [('pause', 'fin'), sc.tagged(hists[i][-1][2], hists[i][-1][0], hists[i][-1][1])]
        sc.steps = steps
        return sc
    run.serve(factory)
    conns = []

    def scenario(run):
        for i, v in enumerate((va, vb)):
            c = run.make_connection(allowed_versions={v})
            c.register_packet_listener(lambda p, i=i: run.ev('deliver', p=packet_obs(p, profs[i]), conn=i), Packet)
            conns.append(c)
            c.connect()
        run.settle()
        for sc in list(run.scripts):
            sc.resume('fin')
        for t in list(run.installed.started):
            run.sched.yield_point(blocked_on=lambda t=t: t._vt.finished)
    run.go(scenario)
    out = []
    for i in (0, 1):
        ev = []
        for e in run.trace:
            if e.get('conn') != i:
                continue
            if e['k'] == 'srv':
                ev.append({'k': 'srv', 'p': e['p']})
            elif e['k'] == 'deliver' and e['p'][0] != 'other':
                ev.append({'k': 'deliver', 'p': e['p']})
            elif e['k'] == 'c2s' and e['f']['t'] not in ('handshake', 'login_start'):
                ev.append({'k': 'c2s', 'p': client_obs(e['f'], profs[i])})
        sc = run.scripts[i] if i < len(run.scripts) else None
        if sc is not None and sc.client_closed:
            ev.append({'k': 'closed'})
        ev.append({'k': 'exit'})        # exit callbacks are counted for the run as a whole (below)
        if len(conns) > i and getattr(conns[i], 'spawned', False):
            ev.append({'k': 'spawned'})
        out.append({'tp': profs[i].ge(107), 'ev': ev, 'version': (va, vb)[i]})
    return run, out


def pending_write_scenario(version, seed, n_pending, policy=None, kick=False, last_ka=False):
    """The server sends its disconnect packet and closes while the client still has packets queued: the failing write
    is not an error (the disconnect packet explains it): clean exit, exit callback once, no error reported."""
    from minecraft.networking.packets import Packet, serverbound
    prof = Profile(version)
    run = Run(policy=policy, seed=seed, chunk='random')
    holder = {}

    def factory(idx, sess):
        sc = TracingScript(run, prof, [])
        sc.steps = [('expect', 2), ('send', prof.login_success(bytes(range(16)), 'verif')),
                    ('call', lambda s: setattr(s, 'state', 'play')),
                    # kick: the server answers the first packet of a burst with its disconnect packet and closes, so the
                    # rest of the burst fails in the client's write phase *before* the disconnect packet is read
                    (('expect', 3) if kick else ('pause', 'go'))]
        if last_ka:
            # a last keep-alive right in front of the goodbye: its answer can no longer be delivered - not an error either
            sc.steps.append(sc.tagged(prof.keep_alive(77), 'ka', key64(77)))
        sc.steps += [sc.tagged(prof.play_disconnect('{"text":"bye"}'), 'disc', []), ('close',)]
        holder['sc'] = sc
        return sc
    run.serve(factory)

    def scenario(run):
        c = run.make_connection(allowed_versions={version})
        c.register_packet_listener(lambda p: run.ev('deliver', p=packet_obs(p, prof)), Packet)
        c.connect()
        run.settle()
        if not kick:
            holder['sc'].resume('go')       # disconnect packet + close are on their way
        for k in range(n_pending):          # ... while the application keeps queueing packets
            c.write_packet(serverbound.play.ChatPacket(message='late %d' % k))
    run.go(scenario)
    ev = []
    for e in run.trace:
        if e['k'] == 'srv':
            ev.append({'k': 'srv', 'p': e['p']})
        elif e['k'] == 'deliver' and e['p'][0] != 'other':
            ev.append({'k': 'deliver', 'p': e['p']})
        elif e['k'] in ('closed', 'exit', 'error'):
            ev.append({'k': e['k']})
    return run, {'tp': prof.ge(107), 'ev': ev, 'version': version}


def random_history(rng, n, prof_ge339):
    ka_small = [0, 1, 127, 128, 255, 256, 16383, 16384, 2 ** 31 - 1]
    ka_long = [-2 ** 63, -1, 2 ** 63 - 1, 2 ** 32 - 1, 2 ** 32, -2 ** 31]
    h = []
    tids = [0, 1, 127, 128, 16383, 16384, 2 ** 21 - 1, 2 ** 21, 2 ** 31 - 1]
    rng.shuffle(tids)
    tid = 0
    for i in range(n):
        r = rng.random()
        if r < 0.45:
            pool = ka_small + (ka_long if prof_ge339 else [2 ** 32 - 1])
            v = rng.choice(pool) if rng.random() < 0.5 else (rng.getrandbits(62) if prof_ge339 else rng.getrandbits(30))
            h.append(('ka', v))
        elif r < 0.6:
            h.append(('pl', tids[tid % len(tids)] if tid < len(tids) else rng.randint(0, 2 ** 31 - 1)))
            tid += 1
        elif r < 0.8:
            h.append(('unk', 0))
        else:
            h.append(('known', rng.getrandbits(40)))
    h.append(('disc', 0))
    return h


def run(chk):
    mc = core.import_minecraft()
    rng = random.Random(chk.seed)
    quick = chk.tier == 'quick'

    # ---- 1. model: exhaustive scripts, invariants, liveness
    r = chk.tlc('MC_SessionPlay', 'SessionPlay_%s.cfg' % chk.tier)
    rows = r.printed
    chk.tlc('MC_SessionPlay', 'SessionPlay_live.cfg')
    if len(rows) < 1000:
        raise core.MachineryError('only %d behaviours' % len(rows))

    # ---- 2. S->I: replay behaviours
    sup = list(mc.SUPPORTED_PROTOCOL_VERSIONS)
    known = list(mc.KNOWN_PROTOCOL_VERSIONS)
    tp_versions = [v for v in sup if known.index(v) >= known.index(107)]
    old_versions = [v for v in sup if known.index(v) < known.index(107)]
    if quick:
        rows = [row for i, row in enumerate(rows) if i % 4 == chk.seed % 4]
    all_traces = []
    ka_map = {1: 300, 2: 2 ** 31 - 1}
    for i, row in enumerate(rows):
        pl_map = {7: [0, 7, 128, 2 ** 31 - 1][i % 4]}
        ka_map = {1: [300, 0][i % 2], 2: 2 ** 31 - 1}
        version = rng.choice(tp_versions if row['tp'] else old_versions)
        hist = []
        for p in row['script']:
            if p[0] == 'ka':
                hist.append(('ka', ka_map[p[1]]))
            elif p[0] == 'pl':
                hist.append(('pl', pl_map[p[1]]))
            elif p[0] == 'disc':
                hist.append(('disc', 0))
            else:
                hist.append((p[0], 5))
        run_, tr, prof = execute(version, hist, chk.seed * 100003 + i, thr=rng.choice([None, None, 0, 64, 'edge']),
                                 interleave=(lambda j: False) if i % 2 else (lambda j: j % 2 == 0))
        chk.traces += 1
        chk.case(('script', json.dumps(row['script']), row['tp']))
        # expected wire from the model, concretised
        exp = []
        for w in row['wire']:
            if w[0] == 'ka':
                exp.append(['ka', key64(ka_map[w[1]])])
            elif w[0] == 'tc':
                exp.append(['tc', [pl_map[w[1]]]])
            else:
                exp.append(['pos', concretise(prof, rng, 'pl', pl_map[w[1]])[1]])
        got = [e['p'] for e in tr['ev'] if e['k'] == 'c2s']
        exits = sum(1 for e in tr['ev'] if e['k'] == 'exit')
        errs = [e for e in run_.trace if e['k'] == 'error']
        what = None
        if run_.outcome != 'done':
            what, key = 'execution ended as %s' % run_.outcome, 'play:replay:' + str(run_.outcome)
        elif [g for g in got if g[0] == 'ka'] != [g for g in exp if g[0] == 'ka'] or \
                [g for g in got if g[0] != 'ka'] != [g for g in exp if g[0] != 'ka']:
            what, key = 'client frames %r, model expects %r' % (got[:8], exp[:8]), 'play:replay:wire'
        elif exits != row['exits'] or errs:
            what, key = 'exit callback ran %d times, errors %r' % (exits, errs[:2]), 'play:replay:exit'
        elif bool(getattr(run_.conn, 'spawned', False)) != row['spawned']:
            what, key = 'spawned flag is %r, model says %r' % (getattr(run_.conn, 'spawned', None), row['spawned']), 'play:replay:spawned'
        if what:
            chk.violation(key, 'script %s at protocol %d: %s' % (json.dumps(row['script']), version, what),
                          {'row': row, 'version': version, 'trace': tr['ev']})
        elif got != exp:
            chk.drift.append({'script': row['script'], 'got': got, 'model': exp})
        all_traces.append(tr)
        if i == 3:
            chk.sample({'script': row['script'], 'version': version, 'client_frames': got})

    # ---- 3. I->S: long seeded histories under every supported version
    n_hist = 60 if quick else 360
    for vi, version in enumerate(sup):
        prof_ge339 = known.index(version) >= known.index(339)
        reps = 1 if quick else 2
        for rep in range(reps):
            seed = chk.seed * 7919 + vi * 13 + rep
            hr = random.Random(seed)
            length = n_hist if (vi % 5 or quick) else 420
            hist = random_history(hr, length, prof_ge339)
            thr = [None, 0, 1, 64, 256, 'edge'][(vi + rep) % 6]
            # up to protocol 47 compression may also be switched on (or its threshold changed) in the play state
            mid = (hr.randrange(max(1, len(hist) - 1)), hr.choice([0, 1, 64])) if known.index(version) <= known.index(47) else None
            if mid is not None and rep == 0:
                thr = None
            # every fourth history has one frame leave the server in two pieces, the second only once the client waits for it
            split = hr.randrange(len(hist)) if (vi % 4 == 1 and hist and mid is None) else None
            run_, tr, prof = execute(version, hist, seed, thr=thr,
                                     interleave=(lambda j, hr=hr: hr.random() < 0.1),
                                     policy=None, mid_comp=mid, split=split)
            chk.traces += 1
            chk.case(('long', version, rep))
            if run_.outcome != 'done':
                chk.violation('play:long:' + str(run_.outcome),
                              'history of %d packets at protocol %d (threshold %r) ended as %s'
                              % (len(hist), version, thr, run_.outcome), {'version': version, 'seed': seed, 'thr': thr})
            all_traces.append(tr)
    chk.sample({'long_history_excerpt': all_traces[-1]['ev'][:10], 'version': all_traces[-1]['version']})

    # ---- 3a'. two sessions on one Connection object (state must not leak from the first into the second)
    for j in range(20 if quick else 250):
        version = rng.choice(sup)
        hr = random.Random(chk.seed * 271 + j)
        prof_ge339 = known.index(version) >= known.index(339)
        h1 = random_history(hr, hr.randint(3, 25), prof_ge339)
        h2 = random_history(hr, hr.randint(3, 25), prof_ge339)
        if j % 2:
            h2 = [x for x in h2 if x[0] != 'pl']         # no position-and-look in the second session: spawned must be reset
        thr1, thr2 = [(0, None), (64, None), (None, 0), (1, 256)][j % 4]
        drop = j % 3 == 2
        if drop:                                # session 1: no disconnect packet, the link drops behind a run of keep-alives
            h1 = [x for x in h1 if x[0] != 'disc'] + [('ka', hr.getrandbits(30)) for _ in range(hr.randint(1, 6))]
        run_, trs, heads = two_sessions(version, h1, h2, chk.seed * 7331 + j, thr1, thr2, drop_first=drop)
        chk.traces += 1
        chk.case(('two-sessions', j))
        if drop:
            trs = trs[1:]                       # the dropped session is not a clean one (C15 covers it); the next one must be
        if heads != [['handshake', 'login_start']] * len(heads):
            chk.violation('play:two-sessions:stale-frame', 'a session on a re-used Connection (protocol %d, first session %s) does not start '
                          'with handshake and login start: the server received %r' % (version, 'dropped' if drop else 'closed', heads),
                          {'version': version, 'drop': drop})
        if run_.outcome != 'done' or len(run_.scripts) != 2:
            chk.violation('play:two-sessions:%s' % run_.outcome, 'two sessions on one Connection at protocol %d (thresholds %r then %r): '
                          'execution %s, %d TCP connections, errors %r' % (version, thr1, thr2, run_.outcome, len(run_.scripts), run_.errors[:2]),
                          {'version': version})
        all_traces += trs

    # ---- 3a''. two connections alive at once on different versions (state shared between objects must not leak)
    for j in range(12 if quick else 150):
        hr = random.Random(chk.seed * 613 + j)
        va, vb = hr.sample(sup, 2)
        if j % 2 == 0:      # opposite sides of the boundaries that matter in play: teleport confirm (107), keep-alive width (339)
            va, vb = hr.choice([v for v in sup if known.index(v) < known.index(107)]), hr.choice([v for v in sup if known.index(v) >= known.index(339)])
            if j % 4 == 0:
                va, vb = vb, va
        ha = random_history(hr, hr.randint(3, 20), known.index(va) >= known.index(339))
        hb = random_history(hr, hr.randint(3, 20), known.index(vb) >= known.index(339))
        thr_a, thr_b = [(None, None), (0, None), (None, 64), (1, 256)][j % 4]
        run_, trs = two_connections(va, vb, ha, hb, chk.seed * 9173 + j, thr_a, thr_b)
        chk.traces += 1
        chk.case(('two-connections', j))
        if run_.outcome != 'done' or len(run_.scripts) != 2 or run_.exits != 2 or run_.errors:
            chk.violation('play:two-connections:%s' % run_.outcome, 'two live connections at protocols %d and %d: execution %s, %d TCP connections, '
                          '%d exit callbacks, errors %r' % (va, vb, run_.outcome, len(run_.scripts), run_.exits, run_.errors[:2]), {'versions': [va, vb]})
        all_traces += trs

    # ---- 3b. the disconnect packet arrives while writes are pending (they fail: not an error)
    from .. import vsched
    for j in range(120 if quick else 1500):
        version = rng.choice(sup)
        # random schedules: the failing write may happen in the write phase (deferred, then cancelled by the disconnect
        # packet read afterwards) or in disconnect()'s own flush
        pol = vsched.RandomPolicy(chk.seed * 8191 + j, switch_prob=[0.2, 0.5, 0.8][j % 3]) if j % 4 else None
        last_ka = j % 5 == 3
        run_, tr = pending_write_scenario(version, chk.seed * 4099 + j, n_pending=[1, 2, 5][j % 3] + (j % 2), policy=pol, kick=(j % 2 == 1),
                                          last_ka=last_ka)
        chk.traces += 1
        chk.case(('pending', j))
        if run_.outcome != 'done' or run_.errors or run_.exits != 1:
            chk.violation('play:disconnect-with-pending-writes',
                          'server disconnect packet + close with %d packets still queued at protocol %d: execution %s, exit callback ran '
                          '%d times, errors %r' % ([1, 2, 5][j % 3] + (j % 2), version, run_.outcome, run_.exits, run_.errors[:2]), {'version': version, 'kick': bool(j % 2)})
        if not last_ka:         # (the contract of Trace_Play wants every keep-alive answered: not where the server is gone)
            all_traces.append(tr)

    # ---- 4. validate all traces against the contract
    shards = 8
    per = (len(all_traces) + shards - 1) // shards
    for s in range(shards):
        part = all_traces[s * per:(s + 1) * per]
        if not part:
            continue
        tf = os.path.join(chk.work, 'play_traces_%d.json' % s)
        with open(tf, 'w') as f:
            json.dump(part, f)
        r2 = chk.tlc('Trace_Play', 'Trace_Play.cfg', env={'TRACE_FILE': tf}, must_pass=False, workers=4,
                     label='Trace_Play shard %d' % s)
        if r2.violated:
            m = re.search(r'tid = (\d+)', r2.out)
            m2 = None
            for m2 in re.finditer(r'rejected = "([^"]*)"', r2.out):
                pass
            ml = re.findall(r'\bl = (\d+)', r2.out)
            bad = part[int(m.group(1)) - 1] if m else None
            why = m2.group(1) if m2 and m2.group(1) else ('final state check %s' % r2.violated[0])
            at = int(ml[-1]) if ml else 0
            chk.violation('play:trace:%s' % re.sub(r'[^a-z]+', '-', why.lower())[:50],
                          'trace at protocol %s rejected by Trace_Play at event %d: %s; events around: %r'
                          % (bad and bad['version'], at, why, bad and bad['ev'][max(0, at - 3):at + 1]),
                          {'trace': bad})
        elif not r2.ok:
            raise core.MachineryError('Trace_Play failed: %s' % r2.errors[:3])
    chk.extra['behaviours_replayed'] = len(rows)
    chk.extra['long_histories'] = len(all_traces) - len(rows)
    chk.extra['versions_covered'] = len(sup)
    chk.assumptions += ['packet ids per version come from the code\'s own tables (pinned independently at release versions by C07); '
                        'layouts (keep-alive width, teleport id, dismount flag) are the peer\'s own',
                        'batch limits 300/50 are scaled to 3/2 in the model; the long histories cross the real limits']
    return chk.finish(
        rule='S->I: every script over {ka a, ka b, pos-look, unknown, known} up to the length bound (+ final disconnect) x '
             'version class, from TLC\'s exhaustive run of SessionPlay (quick: every 4th); I->S: one or two random histories '
             'of 60-420 packets per supported version with compression thresholds {off,0,1,64,256}; distinct by script / (version, rep)')
