"""C04 - block positions, chunk-section positions and block records.

Spec: specs/PositionCodec.tla (bit-level packing), specs/PositionLayouts.tla
(the layout vector over all known versions: pinned at 404 / 477, single switch).
"""
import json
import os
import random
import re

from .. import core
from ..budget import CountingStream, Sink


def Position_word(_unused, x, y, z, xzy):
    """The 64-bit word of a block position, big-endian: x:26 | y:12 | z:26 up to 1.13.2, x:26 | z:26 | y:12 from 1.14."""
    X, Y, Z = x & 0x3FFFFFF, y & 0xFFF, z & 0x3FFFFFF
    w = (X << 38) | (Z << 12) | Y if xzy else (X << 38) | (Y << 26) | Z
    return w.to_bytes(8, 'big')


def run(chk):
    mc = core.import_minecraft()
    from minecraft.networking import types as T
    from minecraft.networking.connection import ConnectionContext
    from minecraft.networking.packets import clientbound
    MBC = clientbound.play.MultiBlockChangePacket
    rng = random.Random(chk.seed)

    r = chk.tlc('MC_Position_%s' % chk.tier, 'Position.cfg')
    rows = r.printed
    if len(rows) < 3000:
        raise core.MachineryError('only %d rows' % len(rows))
    by_kind = {}
    for row in rows:
        by_kind.setdefault(row['c']['k'], []).append(row)

    def enc_pos(ctx, x, y, z, as_tuple=False):
        s = Sink()
        T.Position.send_with_context((x, y, z) if as_tuple else T.Position(x, y, z), s, ctx)
        return s.value()

    def dec_pos(ctx, b):
        st = CountingStream(bytes(b) + b'\x77')
        p = T.Position.read_with_context(st, ctx)
        return (p.x, p.y, p.z), st.pos, p

    # ---- T-mode: layout vector over all known versions
    probes = {'XYZ': [], 'XZY': []}
    probe_triples = {(1, 2, 3), (-1, 0, 0), (0, -1, 0), (0, 0, -1), (0, 2047, -33554432), (33554431, -2048, 1),
                     (-33554432, 1, 33554431), (5, -6, 7), (0, 1, 0), (0, 0, 1), (1, 0, 0), (-2, 100, -300)}
    for row in by_kind['pe']:
        c = row['c']
        if (c['x'], c['y'], c['z']) in probe_triples:
            probes[c['lay']].append(((c['x'], c['y'], c['z']), bytes(row['r'])))
    known = list(mc.KNOWN_PROTOCOL_VERSIONS)
    vec = []
    shared_ctx = ConnectionContext(protocol_version=known[-1])
    order = list(known)
    rng.shuffle(order)
    lay_shared = {}
    for p in order:             # one long-lived context walked through the versions in random order
        shared_ctx.protocol_version = p
        ok = {}
        for name in ('XYZ', 'XZY'):
            try:
                ok[name] = all(enc_pos(shared_ctx, *xyz) == b and dec_pos(shared_ctx, b)[0] == xyz for (xyz, b) in probes[name])
            except Exception:   # noqa
                ok[name] = False
        lay_shared[p] = [n for n in ok if ok[n]]
    for p in known:
        ctx = ConnectionContext(protocol_version=p)
        lay = 'none'
        for name in ('XYZ', 'XZY'):
            ok = True
            for (xyz, b) in probes[name]:
                try:
                    if enc_pos(ctx, *xyz) != b or dec_pos(ctx, b)[0] != xyz:
                        ok = False
                        break
                except Exception:   # noqa
                    ok = False
                    break
            if ok:
                lay = name if lay == 'none' else 'both'
        if lay in ('XYZ', 'XZY') and lay_shared.get(p) != [lay]:
            lay = 'differs-on-reused-context'
        vec.append({'p': p, 'lay': lay})
        chk.case(('layout', p))
    tf = os.path.join(chk.work, 'layouts.json')
    with open(tf, 'w') as f:
        json.dump(vec, f)
    r2 = chk.tlc('PositionLayouts', 'PositionLayouts.cfg', env={'TRACE_FILE': tf}, must_pass=False, workers=1)
    if not r2.ok:
        bad = [v for v in vec if v['lay'] not in ('XYZ', 'XZY')]
        sw = [vec[i]['p'] for i in range(1, len(vec)) if vec[i]['lay'] != vec[i - 1]['lay']]
        which = 'Known' if bad else ('Pinned/SingleSwitch')
        m = re.search(r'Assumption .*? is false|Invariant (\w+) is violated', r2.out)
        chk.violation('Position:layout-vector(%s)' % which,
                      'layout vector over known versions rejected by PositionLayouts (%s); switches at %s; '
                      'versions matching no single layout: %s'
                      % (m.group(0) if m else r2.errors[:1], sw, [b['p'] for b in bad][:8]),
                      {'vector': vec})
    switches = [vec[i]['p'] for i in range(1, len(vec)) if vec[i]['lay'] != vec[i - 1]['lay']]
    chk.extra['layout_switch_at'] = switches
    chk.extra['versions_probed'] = len(known)

    # ---- S->I: every row at representative versions of its layout
    by_lay = {'XYZ': [v['p'] for v in vec if v['lay'] == 'XYZ'], 'XZY': [v['p'] for v in vec if v['lay'] == 'XZY']}
    reps = {}
    for name, ps in by_lay.items():
        if not ps:
            reps[name] = []
            continue
        pick = {ps[0], ps[-1], ps[len(ps) // 2]}
        for want in (47, 404, 477, 757):
            if want in ps:
                pick.add(want)
        if chk.tier == 'thorough':
            pick |= set(rng.sample(ps, min(4, len(ps))))
        reps[name] = sorted(pick, key=known.index)
    chk.extra['representative_versions'] = reps
    n = 0
    for row in by_kind.get('pe', []):
        c = row['c']
        xyz = (c['x'], c['y'], c['z'])
        exp = bytes(row['r'])
        for p in reps[c['lay']]:
            ctx = ConnectionContext(protocol_version=p)
            n += 1
            chk.case(('pe', c['lay'], xyz))
            chk.traces += 1
            try:
                got = enc_pos(ctx, *xyz, as_tuple=(n % 2 == 0))
                back, pos, obj = dec_pos(ctx, exp)
            except Exception as e:      # noqa
                chk.violation('Position:%s:raises' % c['lay'], 'Position%r at protocol %d raised %r' % (xyz, p, e),
                              {'row': row, 'protocol': p})
                continue
            if got != exp:
                chk.violation('Position.send:%s' % c['lay'],
                              'Position.send%r at protocol %d = %s, %s packing is %s' % (xyz, p, got.hex(), c['lay'], exp.hex()),
                              {'row': row, 'protocol': p})
            elif back != xyz or pos != 8:
                chk.violation('Position.read:%s' % c['lay'],
                              'Position.read(%s) at protocol %d = %r (consumed %d), expected %r' % (exp.hex(), p, back, pos, xyz),
                              {'row': row, 'protocol': p})
        if n < 4:
            chk.sample({'layout': c['lay'], 'xyz': xyz, 'word': exp.hex()})
    for row in by_kind.get('pd', []):
        c = row['c']
        for p in reps[c['lay']][:2]:
            ctx = ConnectionContext(protocol_version=p)
            chk.case(('pd', c['lay'], tuple(c['w'])))
            chk.traces += 1
            back, pos, _ = dec_pos(ctx, c['w'])
            if list(back) != row['r'] or pos != 8:
                chk.violation('Position.read:%s:word' % c['lay'],
                              'Position.read(%s) at protocol %d = %r, expected %r' % (bytes(c['w']).hex(), p, back, row['r']),
                              {'row': row, 'protocol': p})
            elif enc_pos(ctx, *back) != bytes(c['w']):
                chk.violation('Position.send:%s:word' % c['lay'], 're-encoding %r does not give %s' % (back, bytes(c['w']).hex()),
                              {'row': row, 'protocol': p})
    # chunk section positions
    CSP = MBC.ChunkSectionPos
    for row in by_kind.get('ce', []):
        c = row['c']
        xyz = (c['x'], c['y'], c['z'])
        chk.case(('ce', xyz))
        chk.traces += 1
        s = Sink()
        CSP.send(CSP(*xyz), s)
        exp = bytes(row['r'])
        st = CountingStream(exp + b'\x01')
        back = CSP.read(st)
        if s.value() != exp:
            chk.violation('ChunkSectionPos.send', 'ChunkSectionPos.send%r = %s, expected %s' % (xyz, s.value().hex(), exp.hex()), {'row': row})
        elif tuple(back) != xyz or st.pos != 8:
            chk.violation('ChunkSectionPos.read', 'ChunkSectionPos.read(%s) = %r, expected %r' % (exp.hex(), tuple(back), xyz), {'row': row})
    for row in by_kind.get('cd', []):
        c = row['c']
        chk.case(('cd', tuple(c['w'])))
        chk.traces += 1
        back = CSP.read(CountingStream(bytes(c['w'])))
        if list(back) != row['r']:
            chk.violation('ChunkSectionPos.read:word', 'ChunkSectionPos.read(%s) = %r, expected %r' % (bytes(c['w']).hex(), tuple(back), row['r']), {'row': row})
    # block records on both sides of 741
    sup = list(mc.SUPPORTED_PROTOCOL_VERSIONS)
    i741 = known.index(741)
    old_vs = [p for p in sup if known.index(p) < i741]
    new_vs = [p for p in sup if known.index(p) >= i741]
    rec_vs = {'ro': [old_vs[0], old_vs[-1], 404], 'rn': [new_vs[0], new_vs[-1]]}
    chk.extra['record_versions'] = rec_vs
    Rec = MBC.Record
    for kind in ('ro', 'rn'):
        for row in by_kind.get(kind, []):
            c = row['c']
            state = int(''.join(map(str, c['st'])) or '0', 2)
            exp = bytes(row['r'])
            for p in rec_vs[kind]:
                ctx = ConnectionContext(protocol_version=p)
                chk.case((kind, state, c['x'], c['y'], c['z']))
                chk.traces += 1
                s = Sink()
                try:
                    Rec.send_with_context(Rec(x=c['x'], y=c['y'], z=c['z'], block_state_id=state), s, ctx)
                    st = CountingStream(exp + b'\x05')
                    back = Rec.read_with_context(st, ctx)
                except Exception as e:   # noqa
                    chk.violation('Record:%s:raises' % kind, 'Record(state=%d,%d,%d,%d) at %d raised %r' % (state, c['x'], c['y'], c['z'], p, e), {'row': row})
                    continue
                if s.value() != exp:
                    chk.violation('Record.send:%s' % kind, 'Record.send(state=%d,x=%d,y=%d,z=%d) at %d = %s, expected %s'
                                  % (state, c['x'], c['y'], c['z'], p, s.value().hex(), exp.hex()), {'row': row, 'protocol': p})
                elif (back.x, back.y, back.z, back.block_state_id) != (c['x'], c['y'], c['z'], state) or st.pos != len(exp):
                    chk.violation('Record.read:%s' % kind, 'Record.read(%s) at %d = %r' % (exp.hex(), p, back), {'row': row, 'protocol': p})

    # ---- I->S: seeded random triples at random known versions, recomputed by TLC
    obs = []
    nrand = 1500 if chk.tier == 'quick' else 20000
    for _ in range(nrand):
        p = rng.choice(known)
        lay = vec[known.index(p)]['lay']
        if lay not in ('XYZ', 'XZY'):
            continue
        xyz = (rng.randint(-2 ** 25, 2 ** 25 - 1), rng.randint(-2 ** 11, 2 ** 11 - 1), rng.randint(-2 ** 25, 2 ** 25 - 1))
        ctx = ConnectionContext(protocol_version=p)
        b = enc_pos(ctx, *xyz)
        back = dec_pos(ctx, b)[0]
        obs.append({'k': 'pe', 'lay': lay, 'x': xyz[0], 'y': xyz[1], 'z': xyz[2], 'b': list(b), 'ok': back == xyz, 'p': p})
    tf2 = os.path.join(chk.work, 'pos_obs.json')
    with open(tf2, 'w') as f:
        json.dump(obs, f)
    r3 = chk.tlc('Trace_Position', 'Trace_Position.cfg', env={'TRACE_FILE': tf2}, must_pass=False)
    if r3.violated:
        m = re.search(r'tid = (\d+)', r3.out)
        bad = obs[int(m.group(1)) - 1] if m else None
        chk.violation('Position:random(%s)' % (bad['lay'] if bad else '?'), 'random observation rejected by Trace_Position: %r' % (bad,), {'observation': bad})
    elif not r3.ok:
        raise core.MachineryError('Trace_Position failed: %s' % r3.errors[:3])
    else:
        chk.traces += len(obs)
        for j, o in enumerate(obs):
            chk.case(('rand', o['x'], o['y'], o['z'], o['p']))
    # ---- "of the connection's protocol": a packet that carries another connection's context (re-used, or built with
    #      one) is packed with the layout of the connection it is written to
    from minecraft.networking.connection import Connection, ConnectionContext
    from minecraft.networking.packets import serverbound
    sup = set(mc.SUPPORTED_PROTOCOL_VERSIONS)
    for (va, vb) in ((404, 477), (477, 404), (340, 757), (757, 47), (441, 498)):
        if va not in sup or vb not in sup:
            continue
        for (x, y, z) in ((1200, 65, -420), (-33554432, -2048, 33554431), (7, 2047, -7)):
            conn_b = Connection('localhost', 25565, allowed_versions={vb})
            pk = serverbound.play.PlayerBlockPlacementPacket(context=ConnectionContext(protocol_version=va))
            pk.location = T.Position(x=x, y=y, z=z)
            pk.face, pk.hand, pk.x, pk.y, pk.z, pk.inside_block = 1, 0, 1, 1, 1, False
            conn_b.socket = Sink()
            try:
                conn_b.write_packet(pk, force=True)
                data = conn_b.socket.value()
            except Exception as e:      # noqa
                data = repr(e).encode()
            kn = list(mc.KNOWN_PROTOCOL_VERSIONS)
            word = Position_word(None, x, y, z, kn.index(vb) >= kn.index(443))
            chk.evaluations += 1
            chk.case(('stale-context', va, vb, x, y, z))
            if word not in data:
                chk.violation('Position:connection-context', 'a block-placement packet carrying the context of protocol %d, written through a '
                              'connection at protocol %d, does not contain the position (%d, %d, %d) packed for protocol %d (%s): wrote %s'
                              % (va, vb, x, y, z, vb, word.hex(), data[:24].hex()), {'from': va, 'to': vb})
    # ---- a release that becomes known only at run time (a record appended + initglobals(use_known_records=True)) is later
    #      than 1.14: its positions are packed x, z, y like every version from 477 on
    latest_rel = max(v for v in mc.KNOWN_PROTOCOL_VERSIONS if v < (1 << 30))
    added = [mc.Version('verif-next-release', latest_rel + 1, True), mc.Version('verif-next-snapshot', (1 << 30) + 4000, True)]
    try:
        mc.KNOWN_MINECRAFT_VERSION_RECORDS.extend(added)
        mc.initglobals(use_known_records=True)
        for a in added:
            ctx_new = ConnectionContext(protocol_version=a.protocol)
            for (x, y, z) in ((1200, 65, -420), (-33554432, -2048, 33554431), (7, 2047, -7)):
                sink = Sink()
                try:
                    T.Position.send_with_context(T.Position(x=x, y=y, z=z), sink, ctx_new)
                    data = sink.value()
                    back = tuple(T.Position.read_with_context(CountingStream(Position_word(None, x, y, z, True)), ctx_new))
                except Exception as e:      # noqa
                    data, back = repr(e).encode(), None
                chk.evaluations += 1
                chk.case(('run-time-version', a.protocol, x, y, z))
                if data != Position_word(None, x, y, z, True) or back != (x, y, z):
                    chk.violation('Position:run-time-version', 'protocol %d, made known at run time (later than every shipped version): (%d, %d, %d) '
                                  'is packed as %s (x, z, y layout: %s) and the reference word reads back as %r'
                                  % (a.protocol, x, y, z, data[:8].hex(), Position_word(None, x, y, z, True).hex(), back), {'protocol': a.protocol})
    finally:
        for a in added:
            if a in mc.KNOWN_MINECRAFT_VERSION_RECORDS:
                mc.KNOWN_MINECRAFT_VERSION_RECORDS.remove(a)
        mc.initglobals(use_known_records=True)
    # ---- "the connection's context" is one object for the life of the Connection: an application that took it before
    #      connect() (to pack positions for its own purposes) sees the negotiated protocol in it once the login has begun
    from ..session import Run, TracingScript
    from ..profile import Profile
    from .. import peer as PP
    for (v_srv, v_other) in ((404, 757), (757, 404), (340, 498), (477, 47)):
        if v_srv not in sup or v_other not in sup:
            continue
        prof = Profile(v_srv)
        run_ = Run(seed=chk.seed + v_srv)

        def factory(idx, sess, prof=prof, run_=run_, v_srv=v_srv):
            sc = TracingScript(run_, prof, [])
            if idx == 0:
                sc.steps = [('expect', 2), ('send', prof.status_response(PP.status_json(protocol=v_srv, name='s')))]
            else:
                sc.steps = [('expect', 2), ('send', prof.login_success(bytes(range(16)), 'verif')), ('call', lambda s_: setattr(s_, 'state', 'play'))]
            return sc
        run_.serve(factory)
        got = {}

        def scenario(run_, v_srv=v_srv, v_other=v_other, got=got):
            c = run_.make_connection(allowed_versions={v_srv, v_other})
            ctx = c.context                     # taken before the version is known
            c.connect()
            run_.settle()
            for (x, y, z) in ((1200, 65, -420), (-33554432, -2048, 33554431)):
                sink = Sink()
                T.Position.send_with_context(T.Position(x=x, y=y, z=z), sink, ctx)
                got[(x, y, z)] = sink.value()
            got['same'] = c.context is ctx
            c.disconnect()
        run_.go(scenario)
        kn = list(mc.KNOWN_PROTOCOL_VERSIONS)
        for xyz, data in got.items():
            if xyz == 'same':
                continue
            chk.evaluations += 1
            chk.case(('context-taken-before-connect', v_srv, v_other) + xyz)
            word = Position_word(None, xyz[0], xyz[1], xyz[2], kn.index(v_srv) >= kn.index(443))
            if data != word:
                chk.violation('Position:context-taken-before-connect', 'the context taken from a Connection before connect() (allowed {%d, %d}, server at '
                              '%d) packs %r as %s after the login; the connection speaks %d, where it is %s (the object is %s the connection\'s context)'
                              % (v_srv, v_other, v_srv, xyz, data.hex(), v_srv, word.hex(), 'still' if got.get('same') else 'no longer'),
                              {'server': v_srv, 'other': v_other})
        if len(got) < 3:
            chk.violation('Position:context-taken-before-connect', 'the negotiated login at %d did not complete (%s)' % (v_srv, run_.outcome), {'server': v_srv})
    chk.sample({'layout_vector_excerpt': [v for v in vec if 400 <= v['p'] <= 480][:12]})
    chk.extra['rows'] = {k: len(v) for k, v in by_kind.items()}
    chk.extra['random_observations'] = len(obs)
    chk.assumptions += ['chronological rank of versions is taken from the code\'s own KNOWN_PROTOCOL_VERSIONS (checked by C08)']
    return chk.finish(
        rule='rows = terminal states of PositionCodec (per-axis boundary product, single-bit / complement / run words, '
             'chunk-section positions, records either side of 741), each replayed at representative versions of its layout; '
             'layout probed at every known version; seeded random triples recomputed by TLC; distinct by (kind, layout, value)')
