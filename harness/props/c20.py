"""C20 - state trackers replay packet histories; helper value types obey their laws.

Specs: specs/Trackers.tla (player list, map set, position tracker as functions of
the packet history), specs/TrackerModel.tla (exhaustive exploration over a packet
alphabet with the laws as invariants; every reached history is replayed, S->I),
specs/Trace_Trackers.tla (long seeded histories applied to the real tracker
objects, validated state by state, I->S), specs/Trace_Values.tla (vector, record,
alias and flag-name observations judged by the laws).
"""
import json
import os
import random
import re

from .. import core


def uid(u):
    return '00000000-0000-0000-0000-%012d' % u


def disp(x):
    return None if x == 'none' else x


class Real(object):
    """The real tracker objects plus the projection onto the spec state."""

    def __init__(self, n_uuids, n_maps, G):
        from minecraft.networking.packets import clientbound
        from minecraft.networking.types import PositionAndLook
        play = clientbound.play
        self.P = play
        self.players = play.PlayerListItemPacket.PlayerList()
        self.maps = play.MapPacket.MapSet()
        self.pos = PositionAndLook(x=0, y=0, z=0, yaw=0, pitch=0)
        self.n_uuids, self.n_maps, self.G = n_uuids, n_maps, G

    def apply(self, p):
        P = self.P
        if p[0] == 'pl':
            PL = P.PlayerListItemPacket
            kinds = {'add': PL.AddPlayerAction, 'gm': PL.UpdateGameModeAction, 'lat': PL.UpdateLatencyAction,
                     'disp': PL.UpdateDisplayNameAction, 'rem': PL.RemovePlayerAction}
            pkt = PL()
            pkt.action_type = kinds[p[1]]
            pkt.actions = []
            for a in p[2]:
                act = kinds[p[1]]()
                act.uuid = uid(a[0])
                if p[1] == 'add':
                    act.name, act.properties, act.gamemode, act.ping, act.display_name = a[1], [], a[2], a[3], disp(a[4])
                elif p[1] == 'gm':
                    act.gamemode = a[2]
                elif p[1] == 'lat':
                    act.ping = a[3]
                elif p[1] == 'disp':
                    act.display_name = disp(a[4])
                pkt.actions.append(act)
            pkt.apply(self.players)
        elif p[0] == 'map':
            MP = P.MapPacket
            pkt = MP()
            pkt.map_id, pkt.scale, pkt.is_tracking_position, pkt.is_locked = p[1], p[2], p[3], p[4]
            pkt.icons = [MP.MapIcon(t, 0, (0, 0)) for t in p[5]]
            w = p[6]
            if w:
                pkt.width, pkt.offset, pkt.pixels = w, (p[7], p[8]), bytes(p[9])
                pkt.height = (len(p[9]) + w - 1) // w
            else:
                pkt.width, pkt.height, pkt.offset, pkt.pixels = 0, 0, None, None
            self.n_map = getattr(self, 'n_map', 0) + 1
            if self.n_map % 2 == 0:
                # every other update arrives the way packets arrive: written to bytes, and read by one long-lived packet
                # object that the application re-uses for every map packet
                from minecraft.networking.connection import ConnectionContext
                from minecraft.networking.packets import PacketBuffer
                if getattr(self, 'map_reader', None) is None:
                    self.map_reader = MP(context=ConnectionContext(protocol_version=757))
                pkt.context = self.map_reader.context
                buf = PacketBuffer()
                pkt.write_fields(buf)
                buf.reset_cursor()
                self.map_reader.read(buf)
                pkt = self.map_reader
            pkt.apply_to_map_set(self.maps)
        else:
            PP = P.PlayerPositionAndLookPacket
            pkt = PP(flags=p[1], x=p[2], y=p[3], z=p[4], yaw=p[5], pitch=p[6], teleport_id=1)
            pkt.apply(self.pos)

    def project(self):
        players = []
        for u in range(1, self.n_uuids + 1):
            it = self.players.players_by_uuid.get(uid(u))
            if it is None:
                players.append({'present': False, 'name': '', 'gm': 0, 'ping': 0, 'disp': 'none'})
            else:
                players.append({'present': True, 'name': it.name, 'gm': it.gamemode, 'ping': it.ping,
                                'disp': 'none' if it.display_name is None else it.display_name})
        extra_players = [k for k in self.players.players_by_uuid if k not in [uid(u) for u in range(1, self.n_uuids + 1)]]
        maps = []
        stray = 0
        G = self.G
        for m in range(1, self.n_maps + 1):
            mp = self.maps.maps_by_id.get(m)
            if mp is None:
                maps.append({'present': False, 'scale': 0, 'tracking': True, 'locked': False, 'icons': [], 'cells': [0] * (G * G)})
            else:
                cells = [mp.pixels[x + mp.width * z] for z in range(G) for x in range(G)]
                stray += sum(1 for i, v in enumerate(mp.pixels) if v and not (i % mp.width < G and i // mp.width < G))
                stray += abs(len(mp.pixels) - mp.width * mp.height)        # the map keeps its size
                maps.append({'present': True, 'scale': mp.scale, 'tracking': bool(mp.is_tracking_position),
                             'locked': bool(mp.is_locked), 'icons': [ic.type for ic in mp.icons], 'cells': cells})
        pos = {k: getattr(self.pos, k) for k in ('x', 'y', 'z', 'yaw', 'pitch')}
        return {'players': players, 'maps': maps, 'pos': pos}, stray + len(extra_players)


def random_packet(rng, n_uuids, n_maps, G):
    r = rng.random()
    if r < 0.5:
        kind = rng.choice(['add', 'add', 'gm', 'lat', 'disp', 'rem'])
        acts = []
        for _ in range(rng.randint(1, 3)):
            acts.append([rng.randint(1, n_uuids), rng.choice(['ann', 'bob', 'cy', 'Dee']), rng.randint(0, 3), rng.choice([0, 5, 127, 128, 30000]),
                         rng.choice(['none', 'none', 'Nick', 'X'])])
        return ['pl', kind, acts]
    if r < 0.75:
        w = rng.choice([0, 1, 2, 3])
        if w:
            h = rng.randint(1, 3)
            ox, oz = rng.randint(0, G - w), rng.randint(0, G - h)      # the update stays inside the tracked window
            px = [rng.randint(1, 255) for _ in range(w * h)]
            if rng.random() < 0.25:
                px = px[:len(px) - rng.randrange(w)]        # a last row that is not full: the pixels given, nothing else
            # keep the update inside the 128 x 128 map
            return ['map', rng.randint(1, n_maps), rng.randint(0, 4), rng.random() < 0.5, rng.random() < 0.5,
                    [rng.randint(0, 9) for _ in range(rng.randint(0, 2))], w, ox, oz, px]
        return ['map', rng.randint(1, n_maps), rng.randint(0, 4), rng.random() < 0.5, rng.random() < 0.5,
                [rng.randint(0, 9) for _ in range(rng.randint(0, 2))], 0, 0, 0, []]
    return ['pos', rng.randint(0, 31), rng.randint(-50, 50), rng.randint(-64, 320), rng.randint(-50, 50),
            rng.choice([0, 90, 359, 360, 361, -1, -720, 725, 180]), rng.choice([0, 45, -90, 359, 360, 400])]


def discover_aliases():
    """(class, alias attribute, aliased attribute names, None) for the positional multi-attribute aliases and the plain
    aliases declared anywhere in the library's packet classes; found through the closures of minecraft.utility's alias
    factories (if those are ever restructured, nothing is found and only the hand-listed aliases are probed)."""
    import inspect
    from minecraft.networking.packets import clientbound, serverbound
    from minecraft.networking import types as T
    import minecraft.utility as U
    seen, out = set(), []

    def walk(cls):
        if cls in seen or not isinstance(cls, type):
            return
        seen.add(cls)
        for name, val in list(vars(cls).items()):
            if isinstance(val, type) and val.__module__.startswith('minecraft.'):
                walk(val)
            elif isinstance(val, property) and val.fget is not None and \
                    getattr(val.fget, '__code__', None) is not None and val.fget.__code__.co_filename == U.__file__:
                try:
                    nl = inspect.getclosurevars(val.fget).nonlocals
                except Exception:       # noqa
                    continue
                if 'arg_names' in nl and nl.get('arg_names') and not nl.get('kwd_names'):
                    names = list(nl['arg_names'])
                    if all(isinstance(x, str) for x in names):
                        out.append((cls, name, names, None))
                elif set(nl) == {'name'} and isinstance(nl['name'], str):
                    out.append((cls, name, [nl['name']], 'single'))
    for mod in (clientbound.play, clientbound.login, clientbound.status, serverbound.play, serverbound.login, serverbound.status,
                serverbound.handshake, T):
        for val in list(vars(mod).values()):
            if isinstance(val, type) and val.__module__.startswith('minecraft.'):
                walk(val)
    return out


def value_observations(rng, n):
    from minecraft.networking.types import Vector, Position, PositionAndLook, MutableRecord, BitFieldEnum, GameMode
    from minecraft.networking.packets import clientbound, serverbound
    obs = []

    class V2(Vector):
        __slots__ = ()
    tags = {Vector: 'Vector', Position: 'Position', V2: 'V2'}
    for j in range(n):
        cls = rng.choice(list(tags))
        a = [rng.randint(-1000, 1000) for _ in range(3)]
        b = [rng.randint(-1000, 1000) for _ in range(3)]
        k = rng.randint(1, 9)
        va, vb = cls(*a), rng.choice(list(tags))(*b)
        for op, fn in (('add', lambda: va + vb), ('sub', lambda: va - vb), ('neg', lambda: -va), ('mul', lambda: va * k),
                       ('rmul', lambda: k * va), ('floordiv', lambda: va // k)):
            pass
        vm = cls(a[0] * k, a[1] * k, a[2] * k)
        for op, fn in (('add', lambda: va + vb), ('sub', lambda: va - vb), ('neg', lambda: -va), ('mul', lambda: va * k),
                       ('rmul', lambda: k * va), ('floordiv', lambda: va // k), ('truediv', lambda: vm / k)):
            try:
                r = fn()
                aa = [a[0] * k, a[1] * k, a[2] * k] if op == 'truediv' else a
                rr = [r[0], r[1], r[2]]
                if op == 'truediv':
                    rr = [int(x) if float(x).is_integer() else 10 ** 6 for x in rr]
                obs.append({'k': 'vec', 'op': op, 'a': aa, 'b': b, 'n': k, 'r': rr, 'tin': tags[cls],
                            'tout': tags.get(type(r), type(r).__name__)})
            except Exception as e:      # noqa
                obs.append({'k': 'vec', 'op': op, 'a': a, 'b': b, 'n': k, 'r': [0, 0, 0], 'tin': tags[cls], 'tout': 'raised ' + type(e).__name__})
    # records: the field lists are declared here (not taken from the code's own iteration); class hierarchies are
    # included with the parent class exercised first, then its subclasses, then the parent again
    PL = clientbound.play.PlayerListItemPacket
    MBC = clientbound.play.MultiBlockChangePacket

    class GroundedPAL(PositionAndLook):
        __slots__ = 'on_ground',

    class Tagged(MutableRecord):
        __slots__ = 'tag'                       # a bare string is one slot

    class TaggedMore(Tagged):
        __slots__ = 'more', 'extra'

    class TaggedMost(TaggedMore):
        __slots__ = 'most',

    def mk(cls, names, vals):
        return (cls(**dict(zip(names, vals))), cls.__name__, names, vals)
    makers = [
        lambda f: mk(PositionAndLook, ['x', 'y', 'z', 'yaw', 'pitch'], f[:5]),
        lambda f: mk(PL.Action, ['uuid'], [str(f[0])]),
        lambda f: mk(Tagged, ['tag'], [f[0]]),
        lambda f: mk(GroundedPAL, ['x', 'y', 'z', 'yaw', 'pitch', 'on_ground'], f[:5] + [bool(f[5] % 2)]),
        lambda f: mk(PL.AddPlayerAction, ['uuid', 'name', 'properties', 'gamemode', 'ping', 'display_name'],
                     [str(f[0]), 'n%d' % f[1], (), f[2], f[3], None if f[4] % 2 else 'd']),
        lambda f: mk(PL.UpdateGameModeAction, ['uuid', 'gamemode'], [str(f[0]), f[1]]),
        lambda f: mk(PL.UpdateLatencyAction, ['uuid', 'ping'], [str(f[0]), f[1]]),
        lambda f: mk(PL.UpdateDisplayNameAction, ['uuid', 'display_name'], [str(f[0]), None if f[1] % 2 else 'd%d' % f[1]]),
        lambda f: mk(PL.RemovePlayerAction, ['uuid'], [str(f[0])]),
        lambda f: mk(TaggedMore, ['tag', 'more', 'extra'], f[:3]),
        lambda f: mk(TaggedMost, ['tag', 'more', 'extra', 'most'], f[:4]),
        lambda f: mk(PL.PlayerListItem, ['uuid', 'name', 'properties', 'gamemode', 'ping', 'display_name'],
                     [str(f[0]), 'n%d' % f[1], (), f[2], f[3], None if f[4] % 2 else 'd']),
        lambda f: mk(MBC.Record, ['x', 'y', 'z', 'block_state_id'], [f[0] % 16, f[1] % 256, f[2] % 16, f[3]]),
        lambda f: mk(PL.PlayerProperty, ['name', 'value', 'signature'], ['p%d' % f[0], 'v%d' % f[1], None if f[2] % 2 else 's']),
        lambda f: mk(clientbound.play.MapPacket.MapIcon, ['type', 'direction', 'location', 'display_name'],
                     [f[0], f[1], (f[2], f[3]), None if f[4] % 2 else 'm']),
    ]
    for j in range(n):
        if j < 3 * len(makers):
            ia = ib = j % len(makers)           # declaration order first: parents before their subclasses
        else:
            ia, ib = rng.randrange(len(makers)), rng.randrange(len(makers))
            if rng.random() < 0.6:
                ib = ia
        fa = [rng.randint(0, 3) for _ in range(6)]
        fb = list(fa) if rng.random() < 0.4 else [rng.randint(0, 3) for _ in range(6)]
        if rng.random() < 0.3:                  # differ in exactly one (often the last) field
            fb = list(fa)
            k = rng.choice([5, 5, 4, 3, 2, 1, 0])
            fb[k] = (fb[k] + 1) % 4
        # equal values that print differently (2 / 2.0 / True-as-1), and fields that cannot be hashed (lists): equality is
        # field-wise whatever the fields print as, and hashes - where a record has one at all - agree on equal records
        if j % 5 == 4 and ia == ib:
            fb = [float(x) if k % 2 == 0 else x for k, x in enumerate(fa)]
        (A, ta, na, va), (B, tb, nb, vb) = makers[ia](fa), makers[ib](fb)
        if j % 7 == 6 and 'properties' in na and 'properties' in nb:
            ka = na.index('properties')
            A.properties, B.properties = [fa[0], (fa[1], 2)], [fb[0], (fb[1], 2.0)]
            va, vb = list(va), list(vb)
            va[ka], vb[nb.index('properties')] = A.properties, B.properties
        same = type(A) is type(B)
        fields = ta == tb and va == vb
        try:
            it = list(A)
        except Exception as e:      # noqa
            it = ['raised', repr(e)]
        rp = repr(A)
        try:
            heq = hash(A) == hash(B)
        except TypeError:
            heq = True          # a record holding an unhashable field has no hash: nothing is claimed about it
        obs.append({'k': 'rec', 'same': same and ta == tb, 'fields': bool(fields), 'eq': bool(A == B), 'ne': bool(A != B),
                    'heq': heq, 'iter': it == va, 'cls': ta,
                    'repr': rp.startswith(ta + '(') and all('%s=%r' % (a, v) in rp for a, v in zip(na, va))})
    # aliases (an alias that cannot be read or written at all is an observation too: got = ['raised', ...])
    def got(fn):
        try:
            return fn()
        except Exception as e:      # noqa
            return [10 ** 6]        # (an integer, so that TLC compares it with the integers that were set)

    def do(fn):
        try:
            fn()
        except Exception:           # noqa  (shows in the read-back)
            pass
    for j in range(n // 2):
        p = clientbound.play.PlayerPositionAndLookPacket()
        v = [rng.randint(-99, 99) for _ in range(5)]
        do(lambda: setattr(p, 'position', Vector(*v[:3])))
        obs.append({'k': 'alias', 'set': v[:3], 'got': got(lambda: [p.x, p.y, p.z])})
        do(lambda: setattr(p, 'look', (v[3], v[4])))
        obs.append({'k': 'alias', 'set': v[3:], 'got': got(lambda: [p.yaw, p.pitch])})
        do(lambda: setattr(p, 'x', v[4]))
        obs.append({'k': 'alias', 'set': [v[4], v[1], v[2]], 'got': got(lambda: list(p.position))})
        bc = clientbound.play.BlockChangePacket()
        do(lambda: setattr(bc, 'blockStateId', v[0] % 4096))
        obs.append({'k': 'alias', 'set': [v[0] % 4096], 'got': got(lambda: [bc.block_state_id])})
        do(lambda: (setattr(bc, 'blockId', 77), setattr(bc, 'blockMeta', v[1] % 16)))
        obs.append({'k': 'alias', 'set': [77, v[1] % 16], 'got': got(lambda: [bc.blockId, bc.blockMeta])})
        pal = PositionAndLook(x=1, y=2, z=3, yaw=4, pitch=5)
        do(lambda: setattr(pal, 'position', (v[0], v[1], v[2])))
        obs.append({'k': 'alias', 'set': v[:3], 'got': got(lambda: [pal.x, pal.y, pal.z])})
    # aliases an application declares itself with the documented keyword form (container field = attribute name), the
    # keywords in any order, the container with attributes only (not iterable)
    from minecraft.utility import multi_attribute_alias as _maa
    from minecraft.networking.types import Direction as _Dir

    class _Span(object):
        def __init__(self, lo=None, hi=None):
            self.lo, self.hi = lo, hi

    class _App(object):
        look = _maa(_Dir, pitch='p', yaw='w')
        pos_look = _maa(PositionAndLook, yaw='a', pitch='b', x='c', y='d', z='e')
        span = _maa(_Span, hi='top', lo='bottom')
        mixed = _maa(Vector, 'u', 'v', z='w2')
    for j in range(max(4, n // 20)):
        v = [rng.randint(-99, 99) for _ in range(5)]
        a = _App()
        do(lambda: setattr(a, 'look', _Dir(yaw=v[0], pitch=v[1])))
        obs.append({'k': 'alias', 'set': v[:2], 'got': got(lambda: [a.w, a.p]), 'where': 'application alias (keywords, permuted) (write)'})
        obs.append({'k': 'alias', 'set': v[:2], 'got': got(lambda: [a.look.yaw, a.look.pitch]), 'where': 'application alias (keywords, permuted) (read)'})
        do(lambda: setattr(a, 'pos_look', PositionAndLook(x=v[0], y=v[1], z=v[2], yaw=v[3], pitch=v[4])))
        obs.append({'k': 'alias', 'set': v, 'got': got(lambda: [a.c, a.d, a.e, a.a, a.b]), 'where': 'application alias (5 keywords, permuted) (write)'})
        do(lambda: setattr(a, 'span', _Span(lo=v[0], hi=v[1])))
        obs.append({'k': 'alias', 'set': v[:2], 'got': got(lambda: [a.bottom, a.top]), 'where': 'application alias (container not iterable) (write)'})
        obs.append({'k': 'alias', 'set': v[:2], 'got': got(lambda: [a.span.lo, a.span.hi]), 'where': 'application alias (container not iterable) (read)'})
        do(lambda: setattr(a, 'mixed', Vector(v[2], v[3], v[4])))
        obs.append({'k': 'alias', 'set': v[2:], 'got': got(lambda: [a.u, a.v, a.w2]), 'where': 'application alias (positional + keyword) (write)'})
    # every alias the library declares, found by walking its packet classes (and the records nested in them): set through
    # the alias and read the aliased attributes, set the attributes and read through the alias
    for (cls, attr, names, kw) in discover_aliases():
        for rep in range(2):
            vals = [rng.randint(-500, 500) for _ in names]
            try:
                o1, o2 = cls(), cls()
            except Exception:       # noqa  (not constructible without arguments: not probed)
                break
            do(lambda: setattr(o1, attr, vals[0] if kw == 'single' else tuple(vals)))
            obs.append({'k': 'alias', 'set': vals, 'got': got(lambda: [getattr(o1, nm) for nm in names]), 'where': '%s.%s (write)' % (cls.__name__, attr)})
            for nm, val in zip(names, vals):
                do(lambda nm=nm, val=val: setattr(o2, nm, val))

            def through():
                a = getattr(o2, attr)
                return list(a) if isinstance(a, (tuple, list)) or hasattr(a, '__iter__') else [a]
            obs.append({'k': 'alias', 'set': vals, 'got': got(through), 'where': '%s.%s (read)' % (cls.__name__, attr)})
    # flag enums: library ones for every value 0..255, plus generated tables
    enums = [('GameMode', GameMode), ('PlayerPositionAndLookPacket', clientbound.play.PlayerPositionAndLookPacket),
             ('SkinParts', serverbound.play.ClientSettingsPacket.SkinParts)]
    for g in range(6 if n < 500 else 40):
        members = {}
        for m in range(rng.randint(1, 6)):
            members['M%d' % m] = rng.choice([0, 1, 2, 3, 4, 6, 8, 16, 32, 64, 128, 255, rng.randint(0, 255)])
        enums.append(('Gen%d' % g, type('Gen%d' % g, (BitFieldEnum,), dict(members))))
    # flag enums that extend another one, overriding a member and adding one (a protocol revision that moved a bit)
    for name, E in list(enums[-3:]):
        own = [k for k, v in E.__dict__.items() if k.isupper() and isinstance(v, int) and not isinstance(v, bool)]
        if own:
            over = {own[0]: (getattr(E, own[0]) << 1 | 64) & 255, 'EXTRA': 128}
            enums.append(('Sub' + name, type('Sub' + name, (E,), over)))
    for name, E in enums:
        own = [[k, v] for k, v in sorted(E.__dict__.items()) if k.isupper() and isinstance(v, int) and not isinstance(v, bool)]
        members = [[k, getattr(E, k)] for k in sorted(set(k for k in dir(E) if k.isupper()))
                   if isinstance(getattr(E, k), int) and not isinstance(getattr(E, k), bool)]
        for v in range(256):
            try:
                s = E.name_from_value(v)
            except Exception as e:      # noqa
                s = 'raised:' + type(e).__name__
            obs.append({'k': 'flag', 'enum': name, 'members': members, 'own': own, 'v': v, 'names': ['None'] if s is None else s.split('|')})
    return obs


def run(chk):
    core.import_minecraft()
    rng = random.Random(chk.seed)
    quick = chk.tier == 'quick'
    # ---- S->I
    r = chk.tlc('MC_TrackerModel', 'TrackerModel_%s.cfg' % chk.tier)
    rows = r.printed
    if len(rows) < 5000:
        raise core.MachineryError('only %d histories' % len(rows))
    for i, row in enumerate(rows):
        real = Real(2, 2, 4)
        try:
            for p in row['hist']:
                real.apply(p)
            got, stray = real.project()
        except Exception as e:      # noqa
            chk.violation('trackers:raises:%s' % row['hist'][-1][0], 'history %s raised %r' % (json.dumps(row['hist']), e), {'row': row})
            continue
        chk.traces += 1
        chk.case(('hist', json.dumps(row['hist'])))
        want = {'players': row['players'], 'maps': row['maps'], 'pos': row['pos']}
        if got != want or stray:
            part = [k for k in want if got[k] != want[k]] or ['stray']
            chk.violation('trackers:replay:%s:%s' % (part[0], row['hist'][-1][1] if row['hist'][-1][0] == 'pl' else row['hist'][-1][0]),
                          'after %s the %s tracker is %s, replaying the history gives %s (%d stray entries)'
                          % (json.dumps(row['hist']), part[0], json.dumps(got[part[0]] if part[0] in got else None)[:300],
                             json.dumps(want.get(part[0]))[:300], stray), {'row': row})
        if i == 4000:
            chk.sample({'history': row['hist'], 'players': row['players'], 'pos': row['pos']})
    # ---- I->S: long histories
    traces = []
    n_long = 40 if quick else 400
    for j in range(n_long):
        real = Real(3, 2, 4)
        hist, states = [], []
        length = 200 if j % 2 else rng.randint(20, 120)
        ok = True
        for _ in range(length):
            p = random_packet(rng, 3, 2, 4)
            try:
                real.apply(p)
            except Exception as e:      # noqa
                chk.violation('trackers:raises:%s' % p[0], 'packet %s raised %r after %d packets' % (json.dumps(p), e, len(hist)), {'hist': hist[-5:]})
                ok = False
                break
            st, stray = real.project()
            if stray:
                chk.violation('trackers:stray', 'entries outside the packet history appeared after %s' % json.dumps(p), {})
            hist.append(p)
            states.append(st)
        chk.case(('long', j))
        traces.append({'hist': hist, 'states': states})
    tf = os.path.join(chk.work, 'trackers.json')
    with open(tf, 'w') as f:
        json.dump(traces, f)
    r2 = chk.tlc('MC_Trace_Trackers', 'Trace_Trackers.cfg', env={'TRACE_FILE': tf}, must_pass=False)
    if r2.violated:
        m = re.search(r'tid = (\d+)', r2.out)
        ml = re.findall(r'\bl = (\d+)', r2.out)
        bad = traces[int(m.group(1)) - 1] if m else None
        at = int(ml[-1]) if ml else 1
        p = bad['hist'][at - 1] if bad and at <= len(bad['hist']) else None
        chk.violation('trackers:trace:%s' % (('%s:%s' % (p[0], p[1])) if p and p[0] == 'pl' else (p[0] if p else r2.violated[0])),
                      'long history rejected by Trace_Trackers at packet %d: %s (%s)' % (at, json.dumps(p), r2.violated[0]),
                      {'packet': p, 'at': at, 'previous': bad and bad['hist'][max(0, at - 4):at - 1]})
    elif not r2.ok:
        raise core.MachineryError('Trace_Trackers failed: %s' % r2.errors[:3])
    else:
        chk.traces += len(traces)
    # ---- values
    obs = value_observations(rng, 150 if quick else 1500)
    tf2 = os.path.join(chk.work, 'values.json')
    with open(tf2, 'w') as f:
        json.dump([{k: v for k, v in o.items() if k not in ('enum', 'cls', 'where')} for o in obs], f)
    r3 = chk.tlc('Trace_Values', 'Trace_Values.cfg', env={'TRACE_FILE': tf2}, must_pass=False)
    if r3.violated:
        m = re.search(r'\bi = (\d+)', r3.out)
        bad = obs[int(m.group(1)) - 1] if m else None
        key = 'values:%s' % (bad['k'] if bad else '?')
        if bad and bad['k'] == 'vec':
            key += ':' + bad['op']
        if bad and bad['k'] == 'flag':
            key += ':' + bad['enum']
        if bad and bad['k'] == 'rec':
            key += ':' + bad['cls']
        if bad and bad['k'] == 'alias' and bad.get('where'):
            key += ':' + bad['where'].split(' ')[0]
        chk.violation(key, 'observation violates the law in Trace_Values: %s' % json.dumps(bad)[:400], {'obs': bad})
    elif not r3.ok:
        raise core.MachineryError('Trace_Values failed: %s' % r3.errors[:3])
    for j, o in enumerate(obs):
        chk.case(('val', j))
        if o['k'] == 'rec' and not (o['iter'] and o['repr']):       # iteration / printing are not part of the property
            chk.drift.append({'record-iteration-or-repr': o})
    chk.sample({'value_observation': [o for o in obs if o['k'] == 'flag' and o['v'] == 11][0]})
    chk.extra['histories_replayed'] = len(rows)
    chk.extra['long_histories'] = len(traces)
    chk.extra['value_observations'] = len(obs)
    chk.assumptions += ['integer-valued coordinates and angles (Python floats exact)', 'a 4 x 4 window of the 128 x 128 map is tracked; the rest must stay zero',
                        'packets are applied as objects (wire round trips are C05)']
    return chk.finish(
        rule='S->I: every history of <= 3 (thorough 4) packets over an 18-packet alphabet (2 uuids, 2 map ids); I->S: seeded histories of up to '
             '200 packets over 3 uuids / 2 maps / all 32 flag combinations; values: seeded vector / record / alias observations and every '
             'value 0..255 of the 3 library flag enums and generated enums; distinct by history / observation')
