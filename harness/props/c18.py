"""C18 - the encrypted channel is AES-128-CFB8 keyed by the secret; secrets reach the server.

Specs: specs/AES128.tla (FIPS-197 in TLA+, Appendix B and C.1 vectors as ASSUMEs),
specs/CFB8.tla, specs/Trace_Cipher.tla.  Binding (I->S): recording taps around the
real EncryptedSocketWrapper / EncryptedFileObjectWrapper log every send / read /
recv with plaintext and ciphertext, for (a) whole encrypted logins against the
independent peer (also recording os.urandom and the raw RSA blocks the key holder
recovers) and (b) the wrappers driven directly with random stream partitions in
both directions; TLC recomputes every chunk with its own AES.
"""
import json
import os
import random
import re

from .. import core
from ..session import Run, TracingScript
from .. import peer as P
from ..profile import Profile
from ..budget import Sink
from . import c10


class _Log(list):
    def __init__(self, sink):
        list.__init__(self)
        self.sink = sink

    def append(self, x):
        list.append(self, x)
        self.sink.append(x)


class Taps(object):
    """Installs recording taps on minecraft.networking.encryption for the duration of a with-block."""

    def __init__(self, enc):
        self.enc = enc
        self.logs = []          # one list per wrapper pair (per cipher)
        self.all = []           # every record of every wrapper, in the order it happened
        self.urandom = []

    def __enter__(self):
        enc = self.enc
        taps = self
        ESW, EFW = enc.EncryptedSocketWrapper, enc.EncryptedFileObjectWrapper
        import os as _os
        import random as _random
        self.saved = (ESW.__init__, ESW.send, ESW.recv, EFW.__init__, EFW.read, _os.urandom)
        real_urandom = _os.urandom

        def tap_urandom(n):
            b = real_urandom(n)
            taps.urandom.append(bytes(b))
            return b
        # the system entropy source, wherever the library reaches it from: os.urandom itself, random's reference to it
        # (SystemRandom / secrets), and any name in the encryption module bound to the original function
        self.rebound = [(_os, 'urandom', real_urandom)]
        _os.urandom = tap_urandom
        if getattr(_random, '_urandom', None) is real_urandom:
            self.rebound.append((_random, '_urandom', real_urandom))
            _random._urandom = tap_urandom
        for name, val in list(vars(enc).items()):
            if val is real_urandom:
                self.rebound.append((enc, name, real_urandom))
                setattr(enc, name, tap_urandom)
        # every deterministic generator the process offers is put into the same state before each login: a secret
        # derived from such state would repeat (DistinctSecrets)
        self.rnd_state = _random.getstate()
        _random.seed(20260927)

        class TapSock(object):
            def __init__(self, real, log):
                self.real, self.log = real, log

            def send(self, b):
                self.log.append(['cipher_send', bytes(b)])
                return self.real.send(b)

            def recv(self, n):
                b = self.real.recv(n)
                self.log.append(['cipher_in', bytes(b)])
                return b

            def __getattr__(self, a):
                return getattr(self.real, a)

        class TapFile(object):
            def __init__(self, real, log):
                self.real, self.log = real, log

            def read(self, n):
                b = self.real.read(n)
                self.log.append(['cipher_in', bytes(b)])
                return b

            def __getattr__(self, a):
                return getattr(self.real, a)
        by_dec = {}

        def s_init(self_, socket, encryptor, decryptor):
            log = _Log(taps.all)
            taps.logs.append(log)
            by_dec[id(decryptor)] = log
            self_._vlog = log
            taps.saved[0](self_, TapSock(socket, log), encryptor, decryptor)

        def s_send(self_, data):
            self_._vlog.append(['plain_send', bytes(data)])
            return taps.saved[1](self_, data)

        def s_recv(self_, n):
            r = taps.saved[2](self_, n)
            self_._vlog.append(['plain_in', bytes(r)])
            return r

        def f_init(self_, file_object, decryptor):
            log = by_dec.get(id(decryptor))
            if log is None:
                log = _Log(taps.all)
                taps.logs.append(log)
            self_._vlog = log
            taps.saved[3](self_, TapFile(file_object, log), decryptor)

        def f_read(self_, n):
            r = taps.saved[4](self_, n)
            self_._vlog.append(['plain_in', bytes(r)])
            return r
        ESW.__init__, ESW.send, ESW.recv, EFW.__init__, EFW.read = s_init, s_send, s_recv, f_init, f_read

        return self

    def __exit__(self, *a):
        enc = self.enc
        ESW, EFW = enc.EncryptedSocketWrapper, enc.EncryptedFileObjectWrapper
        ESW.__init__, ESW.send, ESW.recv, EFW.__init__, EFW.read = self.saved[:5]
        for mod, name, val in self.rebound:
            setattr(mod, name, val)
        import random as _random
        _random.setstate(self.rnd_state)
        return False


def events_of(log):
    """Pair plaintext and ciphertext records into send / read events."""
    ev = []
    i = 0
    while i < len(log):
        k, b = log[i]
        if k == 'plain_send':
            c = b''
            j = i + 1
            while j < len(log) and log[j][0] == 'cipher_send':
                c += log[j][1]
                j += 1
            ev.append({'k': 'send', 'p': list(b), 'c': list(c)})
            i = j
        elif k == 'cipher_in':
            p = log[i + 1][1] if i + 1 < len(log) and log[i + 1][0] == 'plain_in' else None
            ev.append({'k': 'read', 'c': list(b), 'p': list(p) if p is not None else [256]})
            i += 2
        else:
            ev.append({'k': 'read', 'c': [256], 'p': list(b)})     # plaintext without ciphertext: malformed
            i += 1
    return ev


def login_trace(enc_mod, version, seed, keybits, token_len, n_play, thr):
    """One whole encrypted login + some play traffic in both directions."""
    from minecraft.networking.packets import serverbound
    prof = Profile(version)
    rng = random.Random(seed)
    priv, der = c10.rsa_key(keybits)
    run = Run(seed=seed, chunk='random')
    info = {'blocks': None}
    tok = bytes(rng.getrandbits(8) for _ in range(token_len))
    holder = {}

    def factory(idx, sess):
        sc = TracingScript(run, prof, [])

        def after_resp(s):
            for p in s.parsed:
                if p['t'] == 'enc_response':
                    nums = priv.private_numbers()
                    n = nums.public_numbers.n
                    kl = (n.bit_length() + 7) // 8
                    ems = []
                    for field in (p['secret'], p['token']):
                        m = pow(int.from_bytes(field, 'big'), nums.d, n)
                        ems.append(list(m.to_bytes(kl, 'big')))
                    info['blocks'], info['kl'] = ems, kl
                    try:
                        info['secret'] = c10.rsa_decrypt(priv, p['secret'])
                    except Exception:       # noqa
                        info['secret'] = b'\0' * 16
                    return True
            return False
        steps = [('expect', 2), ('send', prof.enc_request('-', der, tok)), ('wait', after_resp),
                 ('encrypt', lambda s: info['secret'] if len(info['secret']) == 16 else b'\0' * 16)]
        if thr is not None:
            steps += [('send', prof.login_compress(thr)), ('compress', thr)]
        steps += [('send', prof.login_success(bytes(range(16)), 'verif')), ('call', lambda s: setattr(s, 'state', 'play'))]
        for k in range(n_play):
            steps += [('send', prof.keep_alive(rng.getrandbits(30)))]
        steps += [('pause', 'end'), ('send', prof.play_disconnect('{"text":"x"}'))]
        sc.steps = steps
        holder['sc'] = sc
        return sc
    run.serve(factory)

    def scenario(run):
        c = run.make_connection(allowed_versions={version})
        if seed % 4 in (1, 2):
            # an application watching its own outgoing traffic: an ordinary outgoing listener runs after the packet is on
            # the wire, whatever it does (return, or raise IgnorePacket) cannot change what follows the encryption response
            from minecraft.exceptions import IgnorePacket

            def watcher(pkt):
                if seed % 4 == 1:
                    raise IgnorePacket
            c.register_packet_listener(watcher, serverbound.login.EncryptionResponsePacket, outgoing=True)
        c.connect()
        run.settle()
        for k in range(n_play):
            c.write_packet(serverbound.play.PluginMessagePacket(channel='c:%d' % k, data=bytes(rng.getrandbits(8) for _ in range(rng.randint(0, 30)))),
                           force=bool(k % 2))
        run.settle()
        holder['sc'].resume('end')
    with Taps(enc_mod) as taps:
        run.go(scenario)
    log = taps.all
    sec = info.get('secret') or b''
    tr = {'secret': list(sec), 'key': list(sec if len(sec) == 16 else b'\0' * 16), 'login': True, 'urandom': [list(u) for u in taps.urandom],
          'kl': info.get('kl', 0), 'blocks': info.get('blocks') or [[0], [0]], 'token': list(tok), 'ev': events_of(log)}
    ok = run.outcome == 'done' and not run.errors and not holder['sc'].de.errors
    return tr, ok, run


def no_entropy_logins(enc_mod, version, seed, keybits=1024):
    """Two logins on a platform whose system randomness source fails (os.urandom raises NotImplementedError), each started
    from the same state of Python's global pseudo-random generator.  Failing the login is fine; a secret that is a function
    of that state (the same in both logins) is not fresh randomness. (Round 11, C18k.)  Returns the secrets that reached
    the key holder (None: the login sent none)."""
    import os as _os
    import random as _random
    prof = Profile(version)
    priv, der = c10.rsa_key(keybits)
    real = _os.urandom

    def broken(n):
        raise NotImplementedError('no randomness source on this platform')
    rebound = [(_os, 'urandom', real)]
    if getattr(_random, '_urandom', None) is real:
        rebound.append((_random, '_urandom', real))
    for name, val in list(vars(enc_mod).items()):
        if val is real:
            rebound.append((enc_mod, name, real))
    secrets = []
    for k in range(2):
        run = Run(seed=seed + k)
        run.grammar = False
        holder = {}

        def factory(idx, sess):
            sc = TracingScript(run, prof, [])
            sc.steps = [('expect', 2), ('send', prof.enc_request('-', der, bytes(range(4)))), ('pause', 'never')]
            holder['sc'] = sc
            return sc
        run.serve(factory)

        def scenario(run):
            c = run.make_connection(allowed_versions={version})
            c.connect()
            run.settle()
            try:
                c.disconnect(immediate=True)
            except Exception:       # noqa
                pass
        state = _random.getstate()
        for obj, name, _ in rebound:
            setattr(obj, name, broken)
        try:
            _random.seed(20260927)
            run.go(scenario)
        finally:
            for obj, name, val in rebound:
                setattr(obj, name, val)
            _random.setstate(state)
        sec = None
        for p in holder['sc'].parsed:
            if p['t'] == 'enc_response':
                try:
                    sec = c10.rsa_decrypt(priv, p['secret'])
                except Exception:       # noqa
                    sec = b'?'
        secrets.append(sec)
    return secrets


def direct_trace(enc_mod, seed, nbytes):
    """The wrappers driven directly: random partitions of a random stream in both directions, interleaved."""
    rng = random.Random(seed)
    secret = bytes(rng.getrandbits(8) for _ in range(16))
    ref_s2c = P.CFB8(secret)

    class Sock(object):
        def __init__(self):
            self.inb = b''

        def send(self, b):
            return len(b)

        def recv(self, n):
            r, self.inb = self.inb[:n], self.inb[n:]
            return r

        def read(self, n):
            return self.recv(n)
    with Taps(enc_mod) as taps:
        cipher = enc_mod.create_AES_cipher(secret)
        e, d = cipher.encryptor(), cipher.decryptor()
        s = Sock()
        sw = enc_mod.EncryptedSocketWrapper(s, e, d)
        fw = enc_mod.EncryptedFileObjectWrapper(s, d)
        sent = recvd = 0
        while sent < nbytes or recvd < nbytes:
            if sent < nbytes and (recvd >= nbytes or rng.random() < 0.5):
                k = min(nbytes - sent, rng.choice([1, 1, 2, 5, 16, 17, 40]))
                sw.send(bytes(rng.getrandbits(8) for _ in range(k)))
                sent += k
            else:
                k = min(nbytes - recvd, rng.choice([1, 1, 3, 15, 16, 33]))
                plain = bytes(rng.getrandbits(8) for _ in range(k))
                s.inb += ref_s2c.encrypt(plain)
                got = b''
                while len(got) < k:
                    m = rng.randint(1, k - len(got))
                    got += (fw.read(m) if rng.random() < 0.7 else sw.recv(m))
                recvd += k
    log = taps.all
    return {'secret': list(secret), 'key': list(secret), 'login': False, 'urandom': [], 'kl': 0, 'blocks': [[0], [0]], 'token': [], 'ev': events_of(log)}


def reactor_trace(enc_mod, seed, nbytes, keybits=1024, conn=None):
    """The cipher exactly as the library installs it: LoginReactor.react on a real Connection whose socket and
    file object are in-memory stand-ins; afterwards the server->client stream is consumed through BOTH
    connection.file_object.read and connection.socket.recv (any split across calls), and the client sends."""
    from minecraft.networking.connection import Connection, LoginReactor
    from minecraft.networking.packets import clientbound
    rng = random.Random(seed)
    priv, der = c10.rsa_key(keybits)

    class Wire(object):
        def __init__(self):
            self.inb, self.out = b'', b''

        def send(self, b):
            if self.fail_in is not None:
                self.fail_in -= 1
                if self.fail_in < 0:
                    self.fail_in = None
                    import errno
                    raise InterruptedError(errno.EINTR, 'Interrupted system call')      # nothing was transferred
            self.out += bytes(b)
            return len(b)

        def recv(self, n):
            r, self.inb = self.inb[:n], self.inb[n:]
            return r

        read = recv
        fail_in = None

        def fileno(self):
            return 0

        def close(self):
            pass
    w = Wire()
    if conn is None:
        conn = Connection('h', 25565, username='u', allowed_versions={757})
    # (a Connection object handed in has been through a login before: this is its next one, on a new socket)
    conn.socket, conn.file_object = w, w
    import collections
    from minecraft.networking.packets import serverbound
    conn._outgoing_packet_queue = collections.deque()       # (as Connection._connect does for every session)
    pending = None
    if seed % 2:
        # a packet is waiting in the queue when the encryption request is handled (the answer to a plugin request that
        # came in the same batch, or a write from an application thread): it goes out after the response - encrypted
        pending = serverbound.login.PluginResponsePacket(message_id=seed % 100, successful=False)
        conn.write_packet(pending)
    tok = bytes(rng.getrandbits(8) for _ in range(rng.choice([1, 4, 16])))
    pkt = clientbound.login.EncryptionRequestPacket(context=conn.context)
    pkt.server_id, pkt.public_key, pkt.verify_token = '-', der, tok
    with Taps(enc_mod) as taps:
        LoginReactor(conn).react(pkt)
        # what the client wrote: one frame = length, id, two byte arrays
        rd = P.Reader(w.out)
        rd.varint()
        rd.varint()
        esec, etok = rd.barr(), rd.barr()
        nums = priv.private_numbers()
        n = nums.public_numbers.n
        kl = (n.bit_length() + 7) // 8
        ems = [list(pow(int.from_bytes(f, 'big'), nums.d, n).to_bytes(kl, 'big')) for f in (esec, etok)]
        try:
            secret = c10.rsa_decrypt(priv, esec)
        except Exception:       # noqa
            secret = b''
        key = secret if len(secret) == 16 else b'\0' * 16
        srv = P.CFB8(key)
        plain_tail = w.out[rd.i:]               # anything behind the encryption response on the raw wire so far
        queued_ok = True
        if pending is not None:
            before = len(w.out)
            while conn._pop_packet():           # the networking thread's next write phase
                pass
            sink = Sink()
            pending.write(sink)
            queued_ok = P.CFB8(key).decrypt(w.out[before:]) == sink.value() and not plain_tail
        sent = recvd = 0
        # the peer's view of what the client sends from here on: an independent CFB8 in step with the wire so far
        peer_dec = P.CFB8(key)
        if pending is not None and queued_ok:
            peer_dec.decrypt(w.out[before:])
        wire_from, handed = len(w.out), b''
        if seed % 3 == 0:
            w.fail_in = rng.randrange(1, 6)         # one send on the underlying socket is interrupted before it transfers anything
        while sent < nbytes or recvd < nbytes:
            if sent < nbytes and (recvd >= nbytes or rng.random() < 0.4):
                k = min(nbytes - sent, rng.choice([1, 2, 7, 16, 30]))
                chunk = bytes(rng.getrandbits(8) for _ in range(k))
                try:
                    conn.socket.send(chunk)
                except OSError:
                    break               # the error is the caller's to handle: the connection is given up, nothing more is sent
                handed += chunk
                sent += k
            else:
                k = min(nbytes - recvd, rng.choice([1, 3, 16, 17, 40]))
                w.inb += srv.encrypt(bytes(rng.getrandbits(8) for _ in range(k)))
                got = 0
                while got < k:
                    m = rng.randint(1, k - got)
                    got += len(conn.file_object.read(m) if rng.random() < 0.6 else conn.socket.recv(m))
                recvd += k
        stream_ok = peer_dec.decrypt(w.out[wire_from:]) == handed
        interrupted = seed % 3 == 0
    ev = events_of(taps.all)            # (the trace judged by TLC ends here)
    if stream_ok and not interrupted and seed % 2 == 0:
        # one large write in a single call (a packet body of several KB), outside the part of the trace that TLC recomputes:
        # the peer still decrypts exactly what was handed in
        for size in (4081, 4082, 6000, 9000):
            big = bytes(rng.getrandbits(8) for _ in range(size))
            at = len(w.out)
            conn.socket.send(big)
            if peer_dec.decrypt(w.out[at:]) != big:
                stream_ok = False
                break
    if not stream_ok:
        queued_ok = False
    return {'secret': list(secret), 'key': list(key), 'login': True, 'urandom': [list(u) for u in taps.urandom], 'kl': kl,
            'blocks': ems, 'token': list(tok), 'ev': ev, 'plain_tail': plain_tail.hex(), 'queued_ok': queued_ok}


def run(chk):
    core.import_minecraft()
    from minecraft.networking import encryption as enc_mod
    rng = random.Random(chk.seed)
    quick = chk.tier == 'quick'
    traces = []
    n_login = 8 if quick else 60
    for j in range(n_login):
        version = rng.choice([757, 340, 47, 578, 404])
        keybits = 2048 if j % 4 == 3 else 1024
        tok_len = [1, 4, 16, 64, 33, 2, 63, 8][j % 8]
        tr, ok, run_ = login_trace(enc_mod, version, chk.seed * 10007 + j, keybits, tok_len, n_play=rng.randint(1, 4),
                                   thr=rng.choice([None, 0, 64]))
        chk.case(('login', j))
        if not ok:
            chk.violation('cipher:login-broken', 'encrypted login at protocol %d (key %d bits, token %d bytes) did not complete cleanly: '
                          'outcome %s, errors %r' % (version, keybits, tok_len, run_.outcome, run_.errors[:2]), {'seed': j})
        tr['meta'] = {'kind': 'login', 'version': version, 'keybits': keybits, 'token_len': tok_len}
        traces.append(tr)
    # ---- a platform without a randomness source: no login rather than a secret anybody can compute
    for v in ([47, 757] if quick else [47, 107, 340, 498, 578, 757]):
        secs = no_entropy_logins(enc_mod, v, chk.seed * 40013 + v)
        chk.traces += 2
        chk.case(('no-entropy', v))
        if secs[0] is not None and secs[0] == secs[1]:
            chk.violation('secret:not-fresh-without-entropy', 'os.urandom raises NotImplementedError and two logins start from the same state '
                          'of the global pseudo-random generator (protocol %d): both sent the secret %s - a function of that state, '
                          'not fresh randomness' % (v, secs[0].hex()), {'version': v})
    n_direct = 6 if quick else 80
    for j in range(n_direct):
        tr = direct_trace(enc_mod, chk.seed * 20011 + j, 60 if quick else rng.choice([40, 100, 300]))
        tr['meta'] = {'kind': 'direct', 'seed': chk.seed * 20011 + j}
        chk.case(('direct', j))
        traces.append(tr)
    n_reactor = 6 if quick else 60
    for j in range(n_reactor):
        tr = reactor_trace(enc_mod, chk.seed * 30011 + j, 50 if quick else rng.choice([40, 120]), keybits=2048 if j % 3 == 2 else 1024)
        tr['meta'] = {'kind': 'login-reactor wrappers, mixed read/recv', 'seed': chk.seed * 30011 + j}
        if tr.pop('plain_tail') or not tr.pop('queued_ok'):
            chk.violation('cipher:plaintext-after-encryption-response', 'what the peer decrypts after the encryption response is not what the client handed in (a packet queued when the '
                          'encryption request arrived, then the client\'s sends - one of them interrupted before transferring anything; login-reactor trace %d)' % j, {'j': j})
        chk.case(('reactor', j))
        traces.append(tr)
    # several logins through one and the same Connection object: each negotiates a secret of its own
    from minecraft.networking.connection import Connection as _Connection
    for g in range(2 if quick else 10):
        shared = _Connection('h', 25565, username='u', allowed_versions={757})
        for k in range(3):
            tr = reactor_trace(enc_mod, chk.seed * 40013 + g * 7 + k, 24, keybits=1024, conn=shared)
            tr['meta'] = {'kind': 'login %d through one Connection object' % (k + 1), 'group': g}
            if tr.pop('plain_tail') or not tr.pop('queued_ok'):
                chk.violation('cipher:plaintext-after-encryption-response', 'a packet that was queued when the encryption request arrived did '
                              'not go out as the CFB8 encryption of its frame after the encryption response (login %d of group %d)' % (k + 1, g), {'g': g})
            chk.case(('relogin', g, k))
            traces.append(tr)
    total_bytes = sum(len(e['p']) for t in traces for e in t['ev'])
    # shard; the DistinctSecrets assumption needs all login traces together, so each shard carries a stub of every login secret
    shards = 8 if quick else 16
    per = (len(traces) + shards - 1) // shards
    stubs = [{'secret': t['secret'], 'key': t['key'], 'login': t['login'], 'urandom': t['urandom'], 'kl': t['kl'], 'blocks': t['blocks'],
              'token': t['token'], 'ev': []} for t in traces]
    import subprocess  # noqa
    for s in range(shards):
        idx = list(range(s * per, min(len(traces), (s + 1) * per)))
        if not idx:
            continue
        part = [({k: traces[i][k] for k in ('secret', 'key', 'login', 'urandom', 'kl', 'blocks', 'token', 'ev')} if i in idx else stubs[i])
                for i in range(len(traces))]
        tf = os.path.join(chk.work, 'cipher_%d.json' % s)
        with open(tf, 'w') as f:
            json.dump(part, f)
        r = chk.tlc('Trace_Cipher', 'Trace_Cipher.cfg', env={'TRACE_FILE': tf}, must_pass=False, workers=4,
                    label='Trace_Cipher shard %d' % s, timeout=3000)
        distinct_failed = bool(re.search(r'Assumption line \d+, col \d+ to line \d+, col \d+ of module Trace_Cipher is false', r.out))
        if r.violated or distinct_failed:
            m = re.search(r'tid = (\d+)', r.out)
            m2 = None
            for m2 in re.finditer(r'rejected = "([^"]*)"', r.out):
                pass
            bad = traces[int(m.group(1)) - 1] if m else None
            if distinct_failed and not r.violated:
                why, key = 'two logins of the run used the same shared secret', 'cipher:secret-reused'
            elif r.violated and r.violated[0] == 'SecretsReachServer':
                why = 'the secret is not a 16-byte draw from the system entropy source made during the login, or secret / token are not well-formed PKCS#1 v1.5 blocks under the server key'
                key = 'cipher:secrets-reach-server'
            else:
                why = m2.group(1) if m2 and m2.group(1) else str(r.violated)
                key = 'cipher:%s' % re.sub(r'[^a-z0-9]+', '-', why.lower())[:60]
            chk.violation(key, '%s (trace %r)' % (why, bad and bad['meta']), {'trace_meta': bad and bad['meta'],
                                                                         'urandom': bad and bad['urandom'], 'secret': bad and bad['secret']})
        elif not r.ok:
            raise core.MachineryError('Trace_Cipher failed: %s' % r.errors[:3])
        else:
            chk.traces += len(idx)
    chk.sample({'trace': traces[0]['meta'], 'first_events': [{k: (bytes(v).hex() if isinstance(v, list) else v) for k, v in e.items()}
                                                               for e in traces[0]['ev'][:3]]})
    chk.extra['bytes_recomputed_by_tla_aes'] = total_bytes
    chk.extra['logins'] = n_login
    chk.extra['direct_wrapper_runs'] = n_direct
    chk.assumptions += ['RSA private-key exponentiation is Python pow(); "fresh random" is checked as source (a 16-byte draw from os.urandom, tapped at os, random._urandom and names bound in the module) and as distinctness over all logins with the global random generator re-seeded identically before each, '
                        'use (that value keys both directions) and distinctness', 'the AES block primitive of the peer is checked here through '
                        'the receive direction: the peer encrypts, the wrapper decrypts, TLC recomputes both']
    return chk.finish(
        rule='one trace per encrypted login (token lengths 1..64, 1024/2048-bit keys, compression on/off, queued and forced writes) and per '
             'direct wrapper run (random partitions into send / read / recv calls, both directions interleaved); every chunk recomputed by '
             'the TLA+ AES-128/CFB8; distinct by run index')
