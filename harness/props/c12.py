"""C12 - concurrent writers: every packet hits the wire once, whole and in order.

Model: specs/ConnWriter.tla (queued / forced writes, the networking thread's
write loop, disconnect with and without flush; one action per lock, queue and
send operation): all interleavings checked by TLC; the variant without the lock
around the forced write must fail.  Binding (I->S): the real Connection with
1..4 user threads under preemption-bounded and seeded random schedules, with
compression and encryption; every socket send is mapped onto the frame the
independent peer decoded and the execution is judged by the contract
specs/Trace_Writer.tla.
"""
import json
import os
import random
import re

from .. import core
from .. import vsched, peer as P
from ..session import Run, TracingScript
from ..profile import Profile
from ..lifecycle import api
from . import c10

VERSION = 757


def execute(spec, policy, seed, step_budget=60000):
    """spec: dict(users={'u2': [ops]}, thr, enc) with ops ('q'|'f', p, size) | ('disc',) | ('disc_now',)"""
    from minecraft.networking.packets import serverbound
    prof = Profile(VERSION)
    priv, der = c10.rsa_key(1024)
    run = Run(policy=policy, seed=seed, step_budget=step_budget)
    run.grammar = not spec.get('early')     # early writers send play packets while the connection is still logging in: the
    #                                         user's doing, judged by Trace_Writer only
    info = {}
    holder = {}
    thr, enc = spec.get('thr'), spec.get('enc')

    def factory(idx, sess):
        sc = TracingScript(run, prof, [])
        steps = [('expect', 2)]
        if enc:
            def after_resp(s):
                for p in s.parsed:
                    if p['t'] == 'enc_response':
                        info['secret'] = c10.rsa_decrypt(priv, p['secret'])
                        return True
                return False
            steps += [('send', prof.enc_request('-', der, b'tokn')), ('wait', after_resp), ('encrypt', lambda s: info['secret'])]
        if thr is not None:
            steps += [('send', prof.login_compress(thr)), ('compress', thr)]
        steps += [('send', prof.login_success(bytes(range(16)), 'verif')), ('call', lambda s: setattr(s, 'state', 'play'))]
        sc.steps = steps
        holder['sc'] = sc
        return sc
    run.serve(factory)

    def scenario(run):
        c = run.make_connection(allowed_versions={VERSION})
        if spec.get('hangup_on'):
            # "hang up as soon as my last words have been sent": an ordinary outgoing listener that calls disconnect() (not
            # immediate) from inside the write of one particular packet - whichever thread performs that write
            hung = []

            def hang_up(pkt):
                if getattr(pkt, '_vtag', None) == spec['hangup_on'] and not hung:
                    hung.append(1)
                    api(run, c, 'disc')
            c.register_packet_listener(hang_up, serverbound.play.PluginMessagePacket, outgoing=True)
        api(run, c, 'connect')
        if not spec.get('early'):
            run.settle()                # otherwise the writers race with the login itself
            info['login_bytes'] = len(holder['sc'].session.c2s)

        def user(ops):
            def body():
                for op in ops:
                    if op[0] in ('q', 'f', 'nq', 'nf'):
                        size = op[2]
                        data = bytes((op[1] * 7 + i) % 256 for i in range(size))
                        cls = serverbound.play.PluginMessagePacket
                        if op[0][0] == 'n':
                            # a user-defined packet that, while it is being serialised, force-writes another packet on the
                            # same connection (the write lock is re-entrant for exactly this): both must be whole frames
                            class Nesting(serverbound.play.PluginMessagePacket):
                                def write_fields(self_, packet_buffer, tag=op[1] + 500):
                                    if not getattr(self_, '_nested_done', False):
                                        self_._nested_done = True
                                        d2 = bytes((tag * 7 + i) % 256 for i in range(11))
                                        inner = serverbound.play.PluginMessagePacket(channel='w:%d' % tag, data=d2)
                                        run.sched.log('hand', p=tag, mode='f')
                                        r2 = api(run, c, 'write', packet=inner, force=True)
                                        run.sched.log('forced_ret', p=tag, r=r2)
                                    serverbound.play.PluginMessagePacket.write_fields(self_, packet_buffer)
                            cls = Nesting
                        pkt = cls(channel='w:%d' % op[1], data=data)
                        pkt._vtag = op[1]
                        mode = op[0][-1]
                        run.sched.log('hand', p=op[1], mode=mode)
                        r = api(run, c, 'write', packet=pkt, force=(mode == 'f'))
                        run.sched.log('forced_ret' if mode == 'f' else 'queued_ret', p=op[1], r=r)
                    else:
                        api(run, c, op[0])
            return body
        users = spec['users']
        for name in sorted(users):
            if name != 'u1':
                run.sched.spawn(user(users[name]), name, 'user')
        user(users.get('u1', []))()
    run.go(scenario)
    run.info = info
    run.sc = holder.get('sc')
    return run


def writer_events(run):
    sc = run.sc
    login = run.info.get('login_bytes', 0)
    frames = []
    for i, fr in enumerate(sc.de.frames):
        if fr['off'] < login:
            continue
        kind = sc.parsed[i]['t'] if i < len(sc.parsed) else '?'
        if kind in ('handshake', 'login_start', 'enc_response'):
            frames.append((fr['off'], fr['end'], -1))        # the login's own frames (writers racing with the login)
            continue
        p = 0
        body = fr['body']
        try:
            r = P.Reader(body)
            chan = r.string()
            if chan.startswith('w:'):
                p = int(chan[2:])
                data = r.rest()
                if data != bytes((p * 7 + i2) % 256 for i2 in range(len(data))):
                    p = 0
        except Exception:       # noqa
            p = 0
        frames.append((fr['off'], fr['end'], p))
    ev = []
    in_call = {}
    for e in run.sched.events:
        k, t = e['ev'], e['t']
        if k == 'hand' and e['mode'] == 'q':
            ev.append({'k': 'handq', 't': t, 'p': e['p']})
        elif k == 'queued_ret' and e['r'] == 'ok':
            ev.append({'k': 'qdone', 't': t, 'p': e['p']})
        elif k == 'forced_ret' and e['r'] == 'ok':
            ev.append({'k': 'forced', 't': t, 'p': e['p']})
        elif k == 'api_call' and e['op'] in ('disc', 'disc_now'):
            in_call[t] = e['op']
        elif k == 'acquire' and t in in_call:
            ev.append({'k': 'disc_point', 'imm': in_call.pop(t) == 'disc_now'})
        elif k == 'shutdown':
            ev.append({'k': 'closed'})
        elif k == 'send' and e['off'] + e['nbytes'] > login:
            a, b = max(e['off'], login), e['off'] + e['nbytes']
            lockok = e.get('lock') == t
            pos = a
            while pos < b:
                fr = next((f for f in frames if f[0] <= pos < f[1]), None)
                if fr is None:
                    ev.append({'k': 'chunk', 't': t, 'p': 0, 'first': True, 'last': True, 'lockok': lockok})
                    break
                end = min(b, fr[1])
                if fr[2] == -1:
                    if not lockok:
                        ev.append({'k': 'chunk', 't': t, 'p': 0, 'first': True, 'last': True, 'lockok': False})
                    pos = end
                    continue
                ev.append({'k': 'chunk', 't': t, 'p': fr[2], 'first': pos == fr[0], 'last': end == fr[1], 'lockok': lockok})
                pos = end
    decoded = not sc.de.errors and len(sc.de.buf) == 0
    ev.append({'k': 'final', 'decoded': bool(decoded), 'idle': run.outcome in ('done', 'quiescent')})
    return ev


def reconnect_scenario(seed, policy, n1, n2, thr):
    """One Connection object, two sessions: packets are queued, the connection is dropped at once (whatever was still
    queued is abandoned with it), the user connects again and queues other packets before a flushing disconnect.
    Returns (run, per-TCP-connection list of (frame kind, tag))."""
    from minecraft.networking.packets import serverbound
    prof = Profile(VERSION)
    run = Run(policy=policy, seed=seed)

    def factory(idx, sess):
        sc = TracingScript(run, prof, [])
        steps = [('expect', 2)]
        if thr is not None:
            steps += [('send', prof.login_compress(thr)), ('compress', thr)]
        sc.steps = steps + [('send', prof.login_success(bytes(range(16)), 'verif')), ('call', lambda s: setattr(s, 'state', 'play'))]
        return sc
    run.serve(factory)
    res = {}

    def scenario(run):
        c = run.make_connection(allowed_versions={VERSION})
        res['connect1'] = api(run, c, 'connect')
        run.settle()
        for k in range(n1):
            api(run, c, 'write', packet=serverbound.play.PluginMessagePacket(channel='w:%d' % (k + 1), data=b'first session'))
        res['disc_now'] = api(run, c, 'disc_now')
        res['connect2'] = api(run, c, 'connect')
        run.settle()
        for k in range(n2):
            api(run, c, 'write', packet=serverbound.play.PluginMessagePacket(channel='w:%d' % (k + 101), data=b'second session'))
        res['disc'] = api(run, c, 'disc')
    run.go(scenario)
    out = []
    for sc in run.scripts:
        frames = []
        for i, fr in enumerate(sc.de.frames):
            kind = sc.parsed[i]['t'] if i < len(sc.parsed) else '?'
            tag = 0
            try:
                chan = P.Reader(fr['body']).string()
                tag = int(chan[2:]) if chan.startswith('w:') else 0
            except Exception:       # noqa
                pass
            frames.append((kind, tag))
        out.append({'frames': frames, 'clean': not sc.de.errors and len(sc.de.buf) == 0})
    return run, res, out


def reset_scenario(seed, policy, n):
    """Packets are queued, the server resets the connection, the user disconnects: whatever could be sent was sent, and the
    socket and its file object are closed afterwards (the descriptor is not left open for the life of the object)."""
    from minecraft.networking.packets import serverbound
    prof = Profile(VERSION)
    run = Run(policy=policy, seed=seed)
    holder = {}

    def factory(idx, sess):
        sc = TracingScript(run, prof, [])
        sc.steps = [('expect', 2), ('send', prof.login_success(bytes(range(16)), 'verif')), ('call', lambda s: setattr(s, 'state', 'play')),
                    ('pause', 'reset'), ('reset',)]
        holder['sc'] = sc
        return sc
    run.serve(factory)
    res = {}

    def scenario(run):
        c = run.make_connection(allowed_versions={VERSION})
        res['connect'] = api(run, c, 'connect')
        run.settle()
        for k in range(n):
            api(run, c, 'write', packet=serverbound.play.PluginMessagePacket(channel='w:%d' % (k + 1), data=b'x'))
        holder['sc'].resume('reset')
        res['disc'] = api(run, c, 'disc')
        run.settle()
        res['disc2'] = api(run, c, 'disc_now')
    run.go(scenario)
    net = run.installed.net
    res['open'] = sorted(set(f.sock.sid for f in net.files.values() if not (f.closed and f.sock.closed)))
    return run, res


def judge_reconnect(n1, n2, res, out, outcome):
    if outcome not in ('done', 'quiescent'):
        return 'the execution ended as %s' % outcome
    if any(res.get(k) != 'ok' for k in ('connect1', 'disc_now', 'connect2', 'disc')):
        return 'the calls returned %r' % (res,)
    if len(out) != 2:
        return '%d TCP connections were made, expected 2' % len(out)
    a, b = out
    if not (a['clean'] and b['clean']):
        return 'a stream does not decode'
    t1 = [t for (k, t) in a['frames'][2:]]
    if [k for (k, t) in a['frames'][:2]] != ['handshake', 'login_start'] or t1 != list(range(1, len(t1) + 1)) or len(t1) > n1:
        return 'the first session carries %r: not a handshake, a login start and a prefix of the packets queued in it' % (a['frames'],)
    t2 = [t for (k, t) in b['frames'][2:]]
    if [k for (k, t) in b['frames'][:2]] != ['handshake', 'login_start'] or t2 != list(range(101, 101 + n2)):
        return ('the second session carries %r: expected a handshake, a login start and exactly the %d packets queued in it '
                '(nothing that was handed to the first session)' % (b['frames'][:12], n2))
    return None


def random_spec(rng, nusers):
    users = {}
    pid = 0
    disc_user = rng.randrange(nusers) if rng.random() < 0.8 else -1
    thr = rng.choice([None, None, 0, 64, 256])
    for i in range(nusers):
        ops = []
        for _ in range(rng.randint(1, 3)):
            pid += 1
            t = thr if thr else 64
            size = rng.choice([0, 3, t - 6, t - 5, t - 4, rng.randint(1, 40), rng.randint(100, 600)])
            ops.append((rng.choice(['q', 'q', 'f', 'q', 'f', 'nq', 'nf']), pid, max(0, size)))
        if i == disc_user:
            ops.insert(rng.randint(1, len(ops)), (rng.choice(['disc', 'disc', 'disc_now']),))
        users['u%d' % (i + 2)] = ops
    enc = rng.random() < 0.4
    # writers racing with the login itself: only without compression (a write that races with the server's
    # set-compression announcement is ambiguous in the protocol itself, not in the client)
    spec = {'users': users, 'thr': thr, 'enc': enc, 'early': enc and thr is None and rng.random() < 0.7}
    if disc_user < 0 and not spec['early'] and rng.random() < 0.6:
        spec['hangup_on'] = rng.randint(1, pid)         # nobody disconnects explicitly: a listener hangs up after one of the packets
    return spec


def reactor_answer_order(version, seed, n=8, thr=None):
    """The networking thread is a writer too: the answers its reactor queues (keep-alive answers, teleport confirmations,
    position echoes) reach the wire in the order in which they were queued, i.e. in the order of the server packets that
    caused them - also when a whole burst is read before anything is written. (Round 11, C12k: keep-alive answers
    that jump the queue.)"""
    from . import c11
    rng = random.Random(seed)
    hist, used = [], set()
    for i in range(n):
        kind = 'pl' if (i % 2 == 0 or rng.random() < 0.3) else 'ka'
        v = rng.randrange(1, 2 ** 20)
        while v in used:
            v += 1
        used.add(v)
        hist.append((kind, v))
    run, tr, prof = c11.execute(version, hist, seed, thr=thr, chunk=None)
    want, got = [], []
    for e in tr['ev']:
        if e['k'] == 'srv' and e['p'][0] == 'ka':
            want.append(['ka', e['p'][1]])
        elif e['k'] == 'srv' and e['p'][0] == 'pl':
            want.append(['tc', e['p'][1]] if prof.ge(107) else ['pos', e['p'][1]])
        elif e['k'] == 'c2s' and not (prof.ge(107) and e['p'][0] == 'pos'):
            got.append(e['p'])
    if got != want:
        j = next((j for j in range(min(len(got), len(want))) if got[j] != want[j]), min(len(got), len(want)))
        return 'answers on the wire differ from the order in which they were queued at entry %d: wire %r, queued %r' % (j, got[j:j + 3], want[j:j + 3])
    return None


def run(chk):
    core.import_minecraft()
    rng = random.Random(chk.seed)
    quick = chk.tier == 'quick'
    chk.tlc('MC_ConnWriter', 'ConnWriter_quick.cfg' if quick else 'ConnWriter_thorough.cfg', timeout=3000)
    chk.tlc('MC_ConnWriter', 'ConnWriter_live.cfg')
    r0 = chk.tlc('MC_ConnWriter', 'ConnWriter_unlocked.cfg', must_pass=False)
    if not r0.violated:
        raise core.MachineryError('self-test: the model without the lock around forced writes should fail')
    chk.extra['unlocked_model_violates'] = r0.violated
    # the login step: the cipher is installed under the lock that covers the encryption response (fixed code);
    # the model of the code as it was must violate NoPlaintextAfterEncResponse
    chk.tlc('MC_ConnWriter', 'ConnWriter_login.cfg')
    r1 = chk.tlc('MC_ConnWriter', 'ConnWriter_login_unfixed.cfg', must_pass=False)
    if 'NoPlaintextAfterEncResponse' not in r1.violated:
        raise core.MachineryError('self-test: the model with the cipher installed outside the lock should fail')
    chk.extra['swap_outside_lock_model_violates'] = r1.violated

    traces = []
    # ---- preemption-bounded exploration of small scenarios
    small = [
        {'users': {'u2': [('q', 1, 5), ('q', 2, 9)], 'u3': [('f', 3, 7), ('disc',)]}, 'thr': None, 'enc': False},
        {'users': {'u2': [('f', 1, 5), ('q', 2, 9)], 'u3': [('q', 3, 7), ('disc_now',)]}, 'thr': None, 'enc': False},
        {'users': {'u2': [('q', 1, 80), ('f', 2, 3)], 'u3': [('f', 3, 70), ('q', 4, 2), ('disc',)]}, 'thr': 64, 'enc': True},
        {'users': {'u2': [('f', 1, 20), ('q', 2, 5)]}, 'thr': None, 'enc': True, 'early': True},
        {'users': {'u2': [('nf', 1, 20), ('q', 2, 5)], 'u3': [('nq', 3, 70), ('disc',)]}, 'thr': 64, 'enc': False},
        {'users': {'u2': [('q', 1, 5), ('q', 2, 9), ('q', 3, 4)], 'u3': [('f', 4, 7)]}, 'thr': None, 'enc': False, 'hangup_on': 2},
    ]
    bound = 2
    cap = 400 if quick else 6000
    n_pb = 0
    for spec in small:
        frontier = [([], 0)]
        seen = set()
        count = 0
        while frontier and count < cap:
            prefix, used = frontier.pop()
            pol = vsched.PreemptionBoundedPolicy(prefix, env_seed=chk.seed)
            run_ = execute(spec, pol, chk.seed)
            count += 1
            n_pb += 1
            chk.traces += 1
            trail = [c for (_, c, _) in pol.trail]
            key = tuple(trail)
            if key in seen:
                continue
            seen.add(key)
            chk.case(('pb', json.dumps(spec, sort_keys=True), key))
            traces.append({'ev': writer_events(run_), 'spec': spec, 'seed': 'pb', 'choices': trail})
            if run_.outcome not in ('done', 'quiescent'):
                chk.violation('writer:outcome:%s' % run_.outcome, 'scenario %s ended as %s' % (json.dumps(spec), run_.outcome), {'spec': spec, 'choices': trail})
            if used < bound:
                # preempt only once the user threads exist (after the login), at user / networking thread steps
                for i in range(len(prefix), min(len(pol.trail), 600)):
                    opts, chosen, cur = pol.trail[i]
                    if len([o for o in opts if o.startswith('u')]) < 1:
                        continue
                    for alt in opts:
                        if alt != chosen:
                            frontier.append((trail[:i] + [alt], used + 1))
    chk.extra['preemption_bounded_executions'] = n_pb
    # ---- seeded random schedules
    n_rand = 1200 if quick else 25000
    for j in range(n_rand):
        r_ = random.Random(chk.seed * 99991 + j)
        spec = random_spec(r_, r_.randint(1, 4))
        sp = r_.choice([0.05, 0.2, 0.5, 0.8])
        run_ = execute(spec, vsched.RandomPolicy(chk.seed * 53 + j, switch_prob=sp), j)
        chk.traces += 1
        chk.case(('rand', j))
        traces.append({'ev': writer_events(run_), 'spec': spec, 'seed': chk.seed * 53 + j})
        if run_.outcome not in ('done', 'quiescent'):
            chk.violation('writer:outcome:%s' % run_.outcome, 'scenario %s (seed %d) ended as %s'
                          % (json.dumps(spec), chk.seed * 53 + j, run_.outcome), {'spec': spec})
    # ---- bursts larger than the networking thread's 300-packet write batch, queued ahead of a non-immediate disconnect:
    #      "sends everything queued before it" has no upper bound
    for j in range(3 if quick else 24):
        r_ = random.Random(chk.seed * 7919 + j)
        n1, n2 = r_.choice([(301, 0), (330, 25), (200, 140), (620, 0)]) if j > 0 else (320, 0)
        if j == 1:
            n1, n2 = 4200, 0        # far more than any plausible internal cap: nothing queued may ever be dropped
        users = {'u2': [('q', k + 1, r_.choice([3, 9])) for k in range(n1)] + [('disc',)]}
        if n2:
            users['u3'] = [('q', 1000 + k, 4) for k in range(n2)]
        spec = {'users': users, 'thr': r_.choice([None, 64]), 'enc': False}
        pol = vsched.SequentialPolicy() if (j % 2 == 0 or j == 1) else vsched.RandomPolicy(chk.seed * 59 + j, switch_prob=0.02)
        run_ = execute(spec, pol, j, step_budget=400000 if n1 > 1000 else 60000)
        chk.traces += 1
        chk.case(('burst', j))
        traces.append({'ev': writer_events(run_), 'spec': {'users': {u: len(p) for u, p in users.items()}, 'burst': True}, 'seed': 'burst%d' % j})
        if run_.outcome not in ('done', 'quiescent'):
            chk.violation('writer:outcome:%s' % run_.outcome, 'burst scenario %d+%d queued writes ended as %s' % (n1, n2, run_.outcome), {'n': [n1, n2]})
    # ---- the same Connection used for a second session after an immediate disconnect left packets queued: those packets
    #      belonged to the first session - the second carries its own, after its own handshake
    for j in range(40 if quick else 600):
        r_ = random.Random(chk.seed * 8191 + j)
        n1, n2, thr_ = r_.choice([1, 2, 5, 40]), r_.choice([0, 1, 3]), r_.choice([None, None, 0, 64])
        pol = vsched.SequentialPolicy() if j % 3 == 0 else vsched.RandomPolicy(chk.seed * 61 + j, switch_prob=r_.choice([0.05, 0.3, 0.7]))
        run_, res_, out_ = reconnect_scenario(chk.seed * 67 + j, pol, n1, n2, thr_)
        chk.traces += 1
        chk.case(('reconnect', n1, n2, thr_, j))
        why_ = judge_reconnect(n1, n2, res_, out_, run_.outcome)
        if why_:
            chk.violation('writer:second-session', '%d packets queued, immediate disconnect, connect(), %d packets queued, disconnect (threshold %r, '
                          'schedule %d): %s' % (n1, n2, thr_, j, why_), {'n1': n1, 'n2': n2, 'thr': thr_, 'j': j})
    chk.extra['second_session_executions'] = 40 if quick else 600
    # ---- "and then closes the socket": also when the peer has reset the connection (shutdown() fails then)
    for j in range(24 if quick else 300):
        pol = vsched.SequentialPolicy() if j % 3 == 0 else vsched.RandomPolicy(chk.seed * 71 + j, switch_prob=(0.05, 0.3, 0.7)[j % 3])
        run_, res_ = reset_scenario(chk.seed * 73 + j, pol, j % 4)
        chk.traces += 1
        chk.case(('reset-then-disconnect', j))
        if run_.outcome not in ('done', 'quiescent') or res_.get('disc') != 'ok' or res_.get('disc2') != 'ok':
            chk.violation('writer:reset-then-disconnect', 'server reset, then disconnect() (schedule %d): ended %s, calls returned %r'
                          % (j, run_.outcome, res_), {'j': j})
        elif res_['open']:
            chk.violation('writer:socket-left-open', 'server reset, then disconnect() (schedule %d): socket(s) %r and / or their file objects were '
                          'never closed' % (j, res_['open']), {'j': j})
    # ---- validate
    shards = 8
    per = (len(traces) + shards - 1) // shards
    for s in range(shards):
        part = traces[s * per:(s + 1) * per]
        if not part:
            continue
        tf = os.path.join(chk.work, 'writer_%d.json' % s)
        with open(tf, 'w') as f:
            json.dump([{'ev': t['ev']} for t in part], f)
        r2 = chk.tlc('Trace_Writer', 'Trace_Writer.cfg', env={'TRACE_FILE': tf}, must_pass=False, workers=4,
                     label='Trace_Writer shard %d' % s)
        if r2.violated:
            m = re.search(r'tid = (\d+)', r2.out)
            m2 = None
            for m2 in re.finditer(r'rejected = "([^"]*)"', r2.out):
                pass
            ml = re.findall(r'\bl = (\d+)', r2.out)
            bad = part[int(m.group(1)) - 1] if m else None
            why = m2.group(1) if m2 and m2.group(1) else r2.violated[0]
            at = int(ml[-1]) if ml else 0
            chk.violation('writer:%s' % re.sub(r'[^a-z]+', '-', why.lower())[:70],
                          'execution (spec %s, schedule %s) rejected by Trace_Writer at event %d: %s; events %r'
                          % (json.dumps(bad and bad['spec']), bad and bad.get('seed'), at, why, bad and bad['ev'][max(0, at - 5):at]),
                          {'spec': bad and bad['spec'], 'seed': bad and bad.get('seed'), 'choices': bad and bad.get('choices'),
                           'events': bad and bad['ev']})
        elif not r2.ok:
            raise core.MachineryError('Trace_Writer failed: %s' % r2.errors[:3])
    chk.sample({'scenario': traces[-1]['spec'], 'events': traces[-1]['ev'][:12]})
    # ---- the reactor's own answers: queued by one thread (the networking thread), so in queue order on the wire
    for j in range(12 if chk.tier == 'quick' else 120):
        v = [47, 107, 340, 578, 757, 210][j % 6]
        what = reactor_answer_order(v, chk.seed * 547 + j, n=6 + j % 5, thr=(None, 0, 64)[j % 3])
        chk.traces += 1
        chk.case(('reactor_order', j))
        if what:
            chk.violation('writers:reactor-answer-order', 'a burst of teleports and keep-alives at protocol %d: %s' % (v, what),
                          {'version': v, 'seed': chk.seed * 547 + j})
    chk.extra['random_schedule_executions'] = n_rand
    chk.assumptions += ['CPython deque.append / popleft are atomic; preemption at every lock, queue, socket and thread operation',
                        'the peer\'s deframer (own zlib / CFB8 use) defines where frames begin and end on the wire']
    return chk.finish(
        rule='model: all interleavings of 2 (thorough: 3) user threads with <= 3 operations each against the write loop; I->S: schedules with '
             '<= 2 preemptions of 3 small scenarios + seeded random schedules over random scenarios of 1-4 user threads, thresholds '
             '{off,0,64,256}, cipher on/off; distinct by schedule')
