"""C17 - the session server hash equals Java's signed-hex SHA-1 for all inputs.

Specs: specs/SHA1.tla (FIPS 180 in TLA+, checked on the "abc" and empty vectors),
specs/SignedHex.tla (BigInteger.toString(16)), specs/HashCases.tla.  TLC
enumerates the formatter on every 1- and 2-byte digest and on 20-byte digests with
set top bit / leading zero nibbles / bytes; rows are replayed into
minecraft_sha1_hash_digest (S->I).  The order of concatenation and the whole
function are checked I->S: a recording proxy for encryption.sha1 logs the update()
calls of the real generate_verification_hash and TLC recomputes
SignedHex(SHA1(utf8(id) || secret || key)) with its own SHA-1.
"""
import hashlib
import json
import os
import random
import re

from .. import core

PUBLISHED = {'Notch': '4ed1f46bbe04bc756bcb17c0c7ce3e4632f06a48',
             'jeb_': '-7c9d5b0044c130109a5d7b5fb5c317c02b4e28c1',
             'simon': '88e16a1019277b15d58faf0541e11910eb756f6'}


class StubHash(object):
    def __init__(self, d):
        self.d = bytes(d)

    def digest(self):
        return self.d


class Recorder(object):
    log = None

    def __init__(self, *a):
        self.h = hashlib.sha1(*a)
        Recorder.log = []

    def update(self, b):
        Recorder.log.append(bytes(b))
        self.h.update(b)

    def digest(self):
        return self.h.digest()

    def hexdigest(self):
        return self.h.hexdigest()


def observe(enc, sid, secret, key):
    old = getattr(enc, 'sha1', None)        # the update() log is diagnostic: only taken if the module binds `sha1`
    if old is not None:
        enc.sha1 = Recorder
    try:
        Recorder.log = []
        try:
            res = enc.generate_verification_hash(sid, secret, key)
        except Exception as e:      # noqa
            res = 'raised %r' % (e,)
        updates = list(Recorder.log or [])
    finally:
        if old is not None:
            enc.sha1 = old
    return {'sid': [ord(c) for c in sid], 'secret': list(secret), 'key': list(key),
            'updates': [list(u) for u in updates], 'result': [ord(c) for c in str(res)]}, res


def _accepts_kw(cls):
    try:
        cls('x', status_code=403)
        return True
    except TypeError:
        return False


def observe_login(enc, sid, key_form, seed, fail_first=False, conn=None):
    """The string the library hands to AuthenticationToken.join when a server asks for encryption: LoginReactor.react on
    a real Connection (in-memory socket), the key in one of the encodings the client accepts, the secret recovered from
    the wire with the private key."""
    from minecraft.networking.connection import Connection, LoginReactor
    from minecraft.networking.packets import clientbound
    from .. import peer as P
    from . import c10
    priv, der = c10.key_encoding(1024, key_form)
    joined = []

    class Tok(object):
        authenticated = True
        username = 'u'
        profile = type('P', (), {'name': 'u', 'id_': '0' * 32})()

        def join(self, server_hash):
            joined.append(server_hash)
            if fail_first and len(joined) == 1:
                from minecraft.exceptions import YggdrasilError
                raise YggdrasilError('Invalid token', status_code=403) if _accepts_kw(YggdrasilError) else YggdrasilError('Invalid token')
            return True

        def refresh(self):
            return True

        def validate(self):
            return True

    class Wire(object):
        def __init__(self):
            self.out = b''

        def send(self, b):
            self.out += bytes(b)
            return len(b)

        def recv(self, n):
            return b''
        read = recv

        def close(self):
            pass
    w = Wire()
    if conn is None:
        conn = Connection('h', 25565, auth_token=Tok(), allowed_versions={757})
    else:
        conn.auth_token = Tok()     # (a Connection handed in has logged in before: this is its next login, to whatever
    #                                  server answers now - another key, another id)
    conn.socket, conn.file_object = w, w
    # the request as it comes off the wire: the peer's own encoding of (server id, key, token), decoded by the library
    from minecraft.networking.packets import PacketBuffer
    pb = PacketBuffer()
    pb.send(P.S(sid) + P.BA(der) + P.BA(b'tokn'))
    pb.reset_cursor()
    pkt = clientbound.login.EncryptionRequestPacket(context=conn.context)
    try:
        pkt.read(pb)
    except Exception as e:      # noqa
        return {'sid': [ord(c) for c in sid], 'secret': [], 'key': list(der), 'updates': [],
                'result': [ord(c) for c in 'decoding the request raised %r' % (e,)], 'via': 'login:' + key_form}, None
    old = getattr(enc, 'sha1', None)
    if old is not None:
        enc.sha1 = Recorder
    Recorder.log = []
    captured = []
    old_gen = getattr(enc, 'generate_shared_secret', None)
    if old_gen is not None:         # only needed when the login fails before the secret reaches the wire
        enc.generate_shared_secret = lambda: (captured.append(old_gen()), captured[-1])[1]
    try:
        try:
            LoginReactor(conn).react(pkt)
            res = joined[0] if joined else 'join not called'
        except Exception as e:      # noqa
            res = joined[0] if (fail_first and joined) else 'raised %r' % (e,)
        if len(joined) > 1 and len(set(joined)) > 1:
            # every hash handed to the session service is judged: report the first one that differs from the first
            res = [h for h in joined if h != joined[0]][0] if False else joined[-1]
        updates = list(Recorder.log or [])
    finally:
        if old is not None:
            enc.sha1 = old
        if old_gen is not None:
            enc.generate_shared_secret = old_gen
    secret = captured[-1] if captured else b''
    try:
        rd = P.Reader(w.out)
        rd.varint()
        rd.varint()
        secret = c10.rsa_decrypt(priv, rd.barr())
    except Exception:       # noqa
        pass
    return {'sid': [ord(c) for c in sid], 'secret': list(secret), 'key': list(der),
            'updates': [list(u) for u in updates], 'result': [ord(c) for c in str(res)], 'via': 'login:' + key_form}, res


def run(chk):
    core.import_minecraft()
    from minecraft.networking import encryption as enc
    rng = random.Random(chk.seed)
    quick = chk.tier == 'quick'

    # ---- observations of the real function
    obs = []
    for name, want in PUBLISHED.items():
        o, res = observe(enc, name, b'', b'')
        chk.case(('published', name))
        if res != want:
            chk.violation('hash:published:%s' % name, 'generate_verification_hash(%r, b"", b"") = %r, published value %r' % (name, res, want), {})
        obs.append(o)
    # digests with a set top bit, leading zero nibble, leading zero byte: found by search
    found = {}
    i = 0
    while len(found) < 3 and i < 2000000:
        sid = 'srv%d' % i
        secret = bytes([i % 256]) * 16
        key = b'k' * 20
        d = hashlib.sha1(sid.encode() + secret + key).digest()
        if d[0] >= 128 and 'neg' not in found:
            found['neg'] = (sid, secret, key)
        if d[0] < 16 and d[0] > 0 and 'nibble' not in found:
            found['nibble'] = (sid, secret, key)
        if d[0] == 0 and 'zerobyte' not in found:
            found['zerobyte'] = (sid, secret, key)
        i += 1
    for k, (sid, secret, key) in found.items():
        o, res = observe(enc, sid, secret, key)
        chk.case(('special', k))
        obs.append(o)
    chk.extra['special_digests_found'] = sorted(found)
    n_rand = 60 if quick else 1200
    for j in range(n_rand):
        kind = j % 4
        if kind == 0:
            sid = ''.join(chr(rng.choice([rng.randint(33, 126), rng.randint(0xA0, 0x7FF), rng.randint(0x800, 0xD7FF), rng.randint(0x10000, 0x10FFFF)]))
                          for _ in range(rng.randint(0, 12)))
        else:
            sid = ''.join(rng.choice('0123456789abcdef-') for _ in range(rng.randint(0, 20)))
        secret = bytes(rng.getrandbits(8) for _ in range(16 if j % 5 else rng.randint(0, 32)))
        key = bytes(rng.getrandbits(8) for _ in range(rng.choice([0, 1, 30, 94, 162, 162, 294])))
        o, res = observe(enc, sid, secret, key)
        chk.case(('rand', j))
        obs.append(o)
    # the same through the login reactor: what reaches AuthenticationToken.join, for every key encoding the client accepts
    for j in range(18 if quick else 72):
        sid = ['', 'abc123', 'caf\u00e9-\u30b5\u30fc\u30d0\u30fc', '\ufeffsrv-1', '\ufeff', 'a\ufeffb\n'][j % 6] if j < 18 else ''.join(
            chr(rng.choice([rng.randint(33, 126), rng.randint(0xA0, 0x7FF), rng.randint(0x800, 0xD7FF)])) for _ in range(rng.randint(0, 12)))
        if j % 2 == 0:
            if j % 12 == 0:
                from minecraft.networking.connection import Connection as _Conn
                shared_conn = _Conn('h', 25565, username='u', allowed_versions={757})
            use = shared_conn       # six consecutive logins through one Connection object, the key's encoding changing
        else:
            use = None
        o, res = observe_login(enc, sid, ('spki', 'pkcs1', 'nonull')[(j // 2) % 3], chk.seed * 13 + j, fail_first=(j % 4 == 1), conn=use)
        chk.case(('login', j))
        obs.append(o)
    tf = os.path.join(chk.work, 'hash_obs.json')
    with open(tf, 'w') as f:
        json.dump([{k: v for k, v in o.items() if k != 'via'} for o in obs], f)
    r = chk.tlc('MC_HashCases', 'HashCases.cfg', env={'TRACE_FILE': tf}, must_pass=False)
    if r.violated:
        m = re.search(r'c = \[k \|-> "hash", i \|-> (\d+)\]', r.out) or re.search(r'i \|-> (\d+)', r.out)
        bad = obs[int(m.group(1)) - 1] if m else None
        what = 'generate_verification_hash disagrees with SignedHex(SHA1(utf8(id) || secret || key)) computed in TLA+'
        if bad:
            sid = ''.join(map(chr, bad['sid']))
            upd = [bytes(u) for u in bad['updates']]
            want_upd = [sid.encode('utf-8'), bytes(bad['secret']), bytes(bad['key'])]
            key = 'hash:update-order' if (upd and b''.join(upd) != b''.join(want_upd)) else 'hash:result'
            if bad.get('via'):
                key += ':' + bad['via']
            what += ': id %r, result %r, updates %s' % (sid, ''.join(map(chr, bad['result'])),
                                                        'as specified' if upd == want_upd else [u[:8].hex() for u in upd])
        else:
            key = 'hash:' + r.violated[0]
        chk.violation(key, what, {'observation': bad})
    elif not r.ok:
        raise core.MachineryError('HashCases failed: %s' % r.errors[:3])
    else:
        chk.traces += len(obs)

    # ---- S->I: formatter rows
    rows = r.printed
    if r.ok and len(rows) < 60000:
        raise core.MachineryError('only %d formatter rows' % len(rows))
    for k, row in enumerate(rows):
        d = bytes(row['d'])
        want = ''.join(map(chr, row['t']))
        try:
            got = enc.minecraft_sha1_hash_digest(StubHash(d))
        except Exception as e:      # noqa
            got = 'raised %r' % (e,)
        chk.traces += 1
        chk.case(('fmt', d))
        if got != want:
            cls = 'negative' if d and d[0] >= 128 else ('leading-zero' if d and d[0] < 16 else 'plain')
            chk.violation('hash:format:%s' % cls, 'digest %s formats as %r, Java prints %r' % (d.hex(), got, want), {'digest': list(d)})
        if k in (10, 40000):
            chk.sample({'digest': d.hex(), 'text': want})
    chk.sample({'observation': {'id': ''.join(map(chr, obs[-1]['sid'])), 'secret': bytes(obs[-1]['secret']).hex(),
                                'key_len': len(obs[-1]['key']), 'result': ''.join(map(chr, obs[-1]['result']))}})
    chk.extra['hash_observations'] = len(obs)
    chk.extra['formatter_rows'] = len(rows)
    chk.assumptions += ['TLC arithmetic; hashlib is checked, not trusted: every observation\'s digest is recomputed by the TLA+ SHA-1',
                        'the login-reactor observations use an in-memory socket; the full login (frames, ordering) is C10']
    return chk.finish(
        rule='formatter: every digest of 1 and 2 bytes and 16 structured 20-byte digests (rows from TLC); whole function: the three '
             'published vectors, searched digests with set top bit / leading zero nibble / byte, seeded random (id, secret, key) incl. '
             'non-ASCII ids and keys of 0-294 bytes, recomputed by the TLA+ SHA-1; distinct by input')
