"""Core of the verification harness: TLC runner, evidence writer, known-findings
handling and the per-check bookkeeping object.

Exit codes of a check: 0 property held on everything explored (possibly with
KNOWN-FINDING lines), 1 at least one unlisted violation, 2 machinery failure.
"""
import json
import os
import re
import shutil
import subprocess
import sys
import time

VERIF = os.path.dirname(os.path.dirname(os.path.abspath(__file__)))
SPECS = os.path.join(VERIF, 'specs')
EVIDENCE = os.path.join(VERIF, 'evidence')
REPLAYS = os.path.join(EVIDENCE, 'replays')
KNOWN = os.path.join(VERIF, 'known_findings.json')
REPO = os.environ.get('PYCRAFT_REPO', '/repo')
NCPU = os.cpu_count() or 4


SESSION_LOG = []        # client frames of every TCP connection of every execution of the running check (harness/session.py)
GRAMMAR_OWNERS = ('C01', 'C09', 'C10', 'C11', 'C12', 'C16')    # properties whose statement covers the client's frame grammar
#                 (C16: "the same object can connect again" - a connection that opens with an undecodable handshake has not)


class MachineryError(Exception):
    """Something in the verification machinery itself failed (exit 2)."""


def import_minecraft():
    """Import pyCraft from the tree under test (current working tree, no cache)."""
    os.environ.setdefault('PYCRAFT_VERIF', '1')
    os.environ.setdefault('NO_PROXY', '*')
    sys.dont_write_bytecode = True
    import warnings
    warnings.filterwarnings('ignore')
    if REPO not in sys.path:
        sys.path.insert(0, REPO)
    import minecraft
    got = os.path.realpath(minecraft.__file__)
    if not got.startswith(os.path.realpath(REPO) + os.sep):
        raise MachineryError('minecraft imported from %s, not from %s' % (got, REPO))
    return minecraft


# --------------------------------------------------------------------------- TLC

class TLCResult(object):
    def __init__(self):
        self.rc = None
        self.out = ''
        self.generated = 0
        self.distinct = 0
        self.depth = 0
        self.errors = []          # lines starting with 'Error:'
        self.violated = []        # invariant / property names reported violated
        self.printed = []         # decoded PrintT(ToJson(..)) values
        self.coverage = {}        # action name -> (count, distinct)
        self.wall = 0.0
        self.timed_out = False

    @property
    def ok(self):
        return self.rc == 0 and not self.errors and not self.timed_out


_STATS = re.compile(r'^(\d+) states generated, (\d+) distinct states found')
_DEPTH = re.compile(r'^The depth of the complete state graph search is (\d+)')
_VIOL = re.compile(r'^Error: (?:Invariant|Action property|Temporal propert(?:y|ies)|Property) ?(\S*)')
_COV = re.compile(r'^<(\w+) line \d+, col \d+ to line \d+, col \d+ of module (\w+)>: (\d+):(\d+)')


def run_tlc(workdir, module, cfg, spec_dirs=(SPECS,), workers=None, timeout=600,
            env=None, extra=(), coverage=False, deadlock=False, simulate=None,
            java_opts=None, parse_printed=True):
    """Run TLC on `module` (name, found in spec_dirs or workdir) with config `cfg`.

    Every module file of the spec dirs is copied into workdir so TLC resolves
    EXTENDS locally; scratch state goes to workdir/states.
    """
    os.makedirs(workdir, exist_ok=True)
    for d in spec_dirs:
        for f in os.listdir(d):
            if f.endswith('.tla') or f.endswith('.cfg'):
                src = os.path.join(d, f)
                dst = os.path.join(workdir, f)
                if os.path.abspath(src) != os.path.abspath(dst):
                    shutil.copyfile(src, dst)
    meta = os.path.join(workdir, 'states_%s_%d' % (os.path.basename(cfg), os.getpid()))
    shutil.rmtree(meta, ignore_errors=True)
    cmd = ['timeout', '-k', '5', str(int(timeout)),
           'java', '-XX:+UseParallelGC', '-Xss512m']
    if java_opts:
        cmd += list(java_opts)
    cmd += ['-cp', '/opt/veriftools/tla/tla2tools.jar:/opt/veriftools/tla/CommunityModules-deps.jar',
            'tlc2.TLC', '-metadir', meta, '-noGenerateSpecTE',
            '-workers', str(workers or NCPU), '-config', cfg]
    if not deadlock:
        cmd += ['-deadlock']      # -deadlock DISABLES deadlock checking
    if coverage:
        cmd += ['-coverage', '1']
    if simulate:
        cmd += ['-simulate', simulate]
    cmd += list(extra)
    cmd += [module]
    e = dict(os.environ)
    if env:
        e.update(env)
    t0 = time.time()
    p = subprocess.run(cmd, cwd=workdir, env=e, stdout=subprocess.PIPE,
                       stderr=subprocess.STDOUT, universal_newlines=True)
    r = TLCResult()
    r.wall = time.time() - t0
    r.rc = p.returncode
    r.out = p.stdout
    r.timed_out = p.returncode in (124, 137)
    for line in p.stdout.splitlines():
        m = _STATS.match(line)
        if m:
            r.generated, r.distinct = int(m.group(1)), int(m.group(2))
            continue
        m = _DEPTH.match(line)
        if m:
            r.depth = int(m.group(1))
            continue
        if line.startswith('Error:'):
            r.errors.append(line)
            m = _VIOL.match(line)
            if m:
                r.violated.append(m.group(1))
            continue
        m = _COV.match(line)
        if m:
            r.coverage[m.group(1)] = (int(m.group(3)), int(m.group(4)))
            continue
        if parse_printed and line.startswith('"') and line.endswith('"'):
            try:
                r.printed.append(json.loads(json.loads(line)))
            except ValueError:
                pass
    shutil.rmtree(meta, ignore_errors=True)
    return r


def sany(workdir, module):
    p = subprocess.run(['tla-sany', module], cwd=workdir, stdout=subprocess.PIPE,
                       stderr=subprocess.STDOUT, universal_newlines=True)
    return p.returncode == 0 and 'error' not in p.stdout.lower().replace('errors: 0', ''), p.stdout


# --------------------------------------------------------------------------- known findings

def load_known():
    try:
        with open(KNOWN) as f:
            return json.load(f)
    except FileNotFoundError:
        return {'findings': [], 'fixed': []}


# --------------------------------------------------------------------------- per-check object

class Check(object):
    """Bookkeeping for one run of one property's check."""

    def __init__(self, pid, tier='quick', seed=None):
        self.pid = pid
        self.tier = tier
        self.seed = int(seed if seed is not None else os.environ.get('VERIF_SEED', '0') or 0)
        self.t0 = time.time()
        self.work = os.path.join(VERIF, '.work', '%s_%d' % (pid, os.getpid()))
        shutil.rmtree(self.work, ignore_errors=True)
        os.makedirs(self.work)
        os.makedirs(REPLAYS, exist_ok=True)
        self.states = 0
        self.transitions = 0
        self.traces = 0               # executions of the real code replayed / validated
        self.evaluations = 0
        self.distinct = set()
        self.distinct_count = 0
        self.samples = []
        self.violations = []          # (key, what, replay_path)
        self.known_hits = {}          # key -> what
        self.extra = {}
        self.assumptions = []
        self.tlc_runs = []
        self.drift = []
        known = load_known()
        self.known = {f['key']: f for f in known.get('findings', []) if f.get('property') == pid}

    # -- TLC
    def tlc(self, module, cfg, **kw):
        kw.setdefault('timeout', 900 if self.tier == 'quick' else 3600)
        label = kw.pop('label', cfg)
        must_pass = kw.pop('must_pass', True)
        r = run_tlc(self.work, module, cfg, **kw)
        self.states += r.distinct
        self.transitions += r.generated
        self.tlc_runs.append({'module': module, 'cfg': label, 'distinct_states': r.distinct,
                              'states_generated': r.generated, 'depth': r.depth,
                              'wall_s': round(r.wall, 2), 'ok': r.ok,
                              'violated': r.violated})
        if r.timed_out:
            raise MachineryError('TLC timed out on %s/%s' % (module, cfg))
        if must_pass and not r.ok:
            sys.stderr.write(r.out[-6000:])
            raise MachineryError('TLC failed on %s/%s: %s' % (module, cfg, r.errors[:3]))
        return r

    # -- accounting
    def case(self, key=None, nontrivial=True):
        """Count one evaluated case; `key` identifies distinct cases."""
        self.evaluations += 1
        if nontrivial:
            if key is None:
                self.distinct_count += 1
            else:
                self.distinct.add(key)

    def sample(self, obj, limit=6):
        if len(self.samples) < limit:
            self.samples.append(obj)

    def violation(self, key, what, replay=None):
        """Record a violation. `key` names the specific failing input / call site /
        history class; a key listed in known_findings.json is a KNOWN-FINDING."""
        if key in self.known:
            self.known_hits.setdefault(key, what)
            return
        for k, (w, _) in ((v[0], (v[1], v[2])) for v in self.violations):
            if k == key:
                return
        path = os.path.join(REPLAYS, '%s_%s.json' % (self.pid, re.sub(r'[^A-Za-z0-9_.-]+', '_', key)[:80]))
        with open(path, 'w') as f:
            json.dump({'property': self.pid, 'key': key, 'what': what, 'replay': replay,
                       'seed': self.seed, 'tier': self.tier}, f, indent=1, default=repr)
        self.violations.append((key, what, path))

    # -- finish
    def session_grammar(self):
        """Every client frame of every execution this check made, judged by the connection-state grammar Trace_Session.tla.
        A rejection is a violation for the properties that state the grammar (framing, negotiation, login, play, writers) and
        a recorded deviation (model_drift) in the other checks."""
        if not SESSION_LOG:
            return
        import re as _re
        log = [t for t in SESSION_LOG if t['fr']]
        del SESSION_LOG[:]
        tf = os.path.join(self.work, 'sessions.json')
        with open(tf, 'w') as f:
            json.dump(log, f)
        r = self.tlc('Trace_Session', 'Trace_Session.cfg', env={'TRACE_FILE': tf}, must_pass=False)
        self.extra['client_connections_judged_by_session_grammar'] = len(log)
        self.extra['client_frames_judged_by_session_grammar'] = sum(len(t['fr']) for t in log)
        if r.violated:
            m = _re.search(r'tid = (\d+)', r.out)
            why = _re.findall(r'rejected = "([^"]*)"', r.out)
            ln = _re.findall(r'\bl = (\d+)', r.out)
            bad = log[int(m.group(1)) - 1] if m else None
            what = 'a connection of this check violates the session grammar (Trace_Session, %s): %s; frames around: %r' % (
                r.violated[0], (why[-1] if why and why[-1] else 'undecodable bytes'),
                bad and bad['fr'][max(0, int(ln[-1]) - 3):int(ln[-1]) + 1] if ln else None)
            if self.pid in GRAMMAR_OWNERS:
                self.violation('session-grammar:%s' % _re.sub(r'[^a-z]+', '-', (why[-1] if why and why[-1] else 'undecodable').lower())[:60],
                               what, {'connection': bad})
            else:
                self.drift.append({'session-grammar': what})
        elif not r.ok:
            raise MachineryError('Trace_Session failed: %s' % r.errors[:3])

    def finish(self, rule, level='model_checking', exhaustive=False):
        self.session_grammar()
        wall = time.time() - self.t0
        nd = len(self.distinct) + self.distinct_count
        cov = {
            'states': self.states,
            'transitions': self.transitions,
            'traces_validated_against_impl': self.traces,
            'samples': self.samples or [{'note': 'no sample recorded'}],
            'evaluations': self.evaluations,
            'distinct_nontrivial': nd,
            'rule': rule,
            'exhaustive': bool(exhaustive),
            'tlc_runs': self.tlc_runs,
            'model_drift': self.drift[:20],
            'model_drift_count': len(self.drift),
            'known_findings_hit': sorted(self.known_hits),
        }
        cov.update(self.extra)
        ev = {
            'property_id': self.pid,
            'tier': self.tier,
            'seed': self.seed,
            'level': level,
            'coverage': cov,
            'assumptions': self.assumptions,
            'wall_s': round(wall, 2),
            'violations': len(self.violations),
        }
        os.makedirs(EVIDENCE, exist_ok=True)
        # framework self-tests (mutant / seeded runs) must not overwrite the evidence of the real tree
        target = os.path.join(EVIDENCE, '%s.json' % self.pid) if not os.environ.get('VERIF_SCRATCH_EVIDENCE') \
            else os.path.join(self.work + '_evidence.json')
        with open(target, 'w') as f:
            json.dump(ev, f, indent=1, default=repr)
            f.write('\n')
        shutil.rmtree(self.work, ignore_errors=True)
        try:
            os.rmdir(os.path.join(VERIF, '.work'))
        except OSError:
            pass
        for key, what in sorted(self.known_hits.items()):
            print('KNOWN-FINDING: property=%s %s: %s' % (self.pid, key, what))
        for key, what, path in self.violations:
            print('VIOLATION property=%s replay=%s' % (self.pid, path))
            print('  key=%s: %s' % (key, what))
        print('%s %s: %d states / %d transitions in TLC, %d impl executions, %d evaluations '
              '(%d distinct), %d violations, %.1fs'
              % (self.pid, self.tier, self.states, self.transitions, self.traces,
                 self.evaluations, nd, len(self.violations), wall))
        return 1 if self.violations else 0


def limbs(n, base=128):
    """Non-negative int -> little-endian digit list (at least one digit)."""
    assert n >= 0
    out = []
    while True:
        out.append(n % base)
        n //= base
        if n == 0:
            return out


def unlimbs(ds, base=128):
    n = 0
    for d in reversed(ds):
        n = n * base + d
    return n
