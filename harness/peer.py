"""Independent scripted peer: a byte-level Minecraft server endpoint that shares
no code with pyCraft (it never imports `minecraft`).  Own VarInt / framing /
compression envelope / CFB8 loop (AES block primitive from `cryptography`, the
cipher itself is checked against the TLA+ AES in C18) and own field codecs for
the handful of packets the session scripts need.
"""
import json
import struct
import zlib


# ----------------------------------------------------------------------------- primitives

def venc(n):
    assert n >= 0
    out = bytearray()
    while True:
        b = n & 0x7F
        n >>= 7
        if n:
            out.append(b | 0x80)
        else:
            out.append(b)
            return bytes(out)


def vdec(buf, i=0, maxlen=10):
    n = 0
    shift = 0
    k = 0
    while True:
        if i >= len(buf):
            return None, i
        b = buf[i]
        i += 1
        n |= (b & 0x7F) << shift
        shift += 7
        k += 1
        if not b & 0x80:
            return n, i
        if k > maxlen:
            raise ValueError('varint too long')


def S(s):
    b = s.encode('utf-8')
    return venc(len(b)) + b


def VI(n):
    return venc(n & 0xFFFFFFFF if n < 0 else n)


def L(n):
    return struct.pack('>q', n)


def I(n):      # noqa
    return struct.pack('>i', n)


def D(x):
    return struct.pack('>d', x)


def F(x):
    return struct.pack('>f', x)


def B(n):
    return struct.pack('>b', n)


def UB(n):
    return struct.pack('>B', n)


def US(n):
    return struct.pack('>H', n)


def BOOL(b):
    return b'\x01' if b else b'\x00'


def BA(b):
    return venc(len(b)) + bytes(b)


class Reader(object):
    def __init__(self, data):
        self.d = bytes(data)
        self.i = 0

    def varint(self):
        n, self.i = vdec(self.d, self.i)
        if n is None:
            raise EOFError('varint')
        return n

    def take(self, n):
        if self.i + n > len(self.d):
            raise EOFError('take')
        r = self.d[self.i:self.i + n]
        self.i += n
        return r

    def string(self):
        return self.take(self.varint()).decode('utf-8')

    def fmt(self, f):
        return struct.unpack(f, self.take(struct.calcsize(f)))[0]

    def barr(self):
        return self.take(self.varint())

    def rest(self):
        r = self.d[self.i:]
        self.i = len(self.d)
        return r

    def done(self):
        return self.i == len(self.d)


# ----------------------------------------------------------------------------- cipher

class CFB8(object):
    """AES-128-CFB8, key = IV = secret; one instance per direction."""

    def __init__(self, key):
        from cryptography.hazmat.primitives.ciphers import Cipher, algorithms, modes
        from cryptography.hazmat.backends import default_backend
        self._ecb = Cipher(algorithms.AES(bytes(key)), modes.ECB(), backend=default_backend()).encryptor()
        self.reg = bytes(key)

    def _block(self):
        return self._ecb.update(self.reg)

    def encrypt(self, data):
        out = bytearray()
        for p in data:
            c = p ^ self._block()[0]
            out.append(c)
            self.reg = self.reg[1:] + bytes([c])
        return bytes(out)

    def decrypt(self, data):
        out = bytearray()
        for c in data:
            p = c ^ self._block()[0]
            out.append(p)
            self.reg = self.reg[1:] + bytes([c])
        return bytes(out)


# ----------------------------------------------------------------------------- framing

def frame(payload, threshold=None, force_compress=None):
    """payload = id varint + fields.  threshold None: compression not negotiated."""
    if threshold is None:
        body = payload
    else:
        comp = (len(payload) >= threshold and threshold >= 0) if force_compress is None else force_compress
        # a vanilla server compresses at >= threshold; any choice is legal for the receiver
        if comp:
            body = venc(len(payload)) + zlib.compress(payload)
        else:
            body = venc(0) + payload
    return venc(len(body)) + body


class Deframer(object):
    """Incremental decoder of the client's byte stream into (id, payload, info)."""

    def __init__(self):
        self.buf = bytearray()
        self.threshold = None        # None: no compression envelope expected
        self.cipher = None
        self.frames = []             # dicts: id, body, compressed(bool|None), raw_len, off
        self.off = 0
        self.errors = []
        self.plain = bytearray()     # decrypted stream

    def feed(self, data):
        if self.cipher is not None:
            data = self.cipher.decrypt(data)
        self.plain += data
        self.buf += data
        new = []
        while True:
            try:
                n, i = vdec(self.buf, 0, 5)
            except ValueError as e:
                self.errors.append(str(e))
                return new
            if n is None or len(self.buf) - i < n:
                return new
            body = bytes(self.buf[i:i + n])
            start = self.off
            self.off += i + n
            del self.buf[:i + n]
            compressed = None
            try:
                if self.threshold is not None:
                    dl, j = vdec(body, 0, 5)
                    if dl is None:
                        raise ValueError('empty compressed frame')
                    if dl == 0:
                        payload = body[j:]
                        compressed = False
                    else:
                        payload = zlib.decompress(body[j:])
                        if len(payload) != dl:
                            raise ValueError('data length %d but inflated %d' % (dl, len(payload)))
                        compressed = True
                else:
                    payload = body
                pid, k = vdec(payload, 0, 5)
                if pid is None:
                    raise ValueError('frame without packet id')
                fr = {'id': pid, 'body': payload[k:], 'compressed': compressed, 'size': len(payload),
                      'off': start, 'end': self.off, 'enc': self.cipher is not None, 'thr': self.threshold}
            except (ValueError, zlib.error) as e:
                self.errors.append('frame at %d: %s' % (start, e))
                fr = {'id': -1, 'body': body, 'compressed': None, 'size': n, 'off': start, 'end': self.off,
                      'error': str(e), 'enc': self.cipher is not None, 'thr': self.threshold}
            self.frames.append(fr)
            new.append(fr)


# ----------------------------------------------------------------------------- scripted server

class Script(object):
    """A server script is a list of steps executed as far as possible whenever
    something happens on the session:
        ('expect', k)            wait until k client frames have been decoded in total
        ('send', payload|fn)     frame and send a packet payload (fn(script) -> payload)
        ('raw', bytes|fn)        send raw bytes (already framed / deliberately broken)
        ('compress', thr)        from now on both directions use the compression envelope
        ('encrypt', key|fn)      from now on both directions are AES/CFB8
        ('close',) / ('reset',)  end of stream
        ('call', fn)             arbitrary hook fn(script)
        ('pause', name)          stop here until script.resume(name) (driven by the scenario)
        ('wait', pred)           stop here until pred(script) holds
    """

    def __init__(self, steps, name='srv'):
        self.steps = list(steps)
        self.pc = 0
        self.de = Deframer()
        self.threshold = None
        self.enc = None
        self.session = None
        self.sent = []               # payloads sent (plain)
        self.client_closed = False
        self.name = name
        self.resumed = set()
        self.notes = {}

    # hooks called by vnet
    def on_connect(self, sess):
        self.session = sess
        self.pump()

    def on_data(self, sess):
        chunk_from = getattr(self, '_consumed', 0)
        data = bytes(sess.c2s[chunk_from:])
        self._consumed = len(sess.c2s)
        self.de.feed(data)
        self.pump()

    def on_client_close(self, sess):
        self.client_closed = True

    def resume(self, name):
        self.resumed.add(name)
        self.pump()

    def emit(self, payload):
        data = frame(payload, self.threshold)
        self.sent.append(payload)
        self.raw(data)

    def raw(self, data):
        if self.enc is not None:
            data = self.enc.encrypt(data)
        cut = getattr(self, 'cut_after', None)
        if cut is not None:
            room = cut - self.session.s2c_total
            if len(data) >= room:
                # the server stops here: send what fits, close, abandon the rest of the script
                if room > 0:
                    self.session.send(data[:room])
                (self.session.reset if getattr(self, 'cut_reset', False) else self.session.close)()
                self.pc = len(self.steps)
                self.cut_done = True
                return
        self.session.send(data)

    def pump(self):
        while self.pc < len(self.steps) and self.session is not None:
            st = self.steps[self.pc]
            op = st[0]
            if op == 'expect':
                if len(self.de.frames) < st[1]:
                    return
            elif op == 'send':
                p = st[1](self) if callable(st[1]) else st[1]
                if p is not None:
                    self.emit(p)
            elif op == 'raw':
                p = st[1](self) if callable(st[1]) else st[1]
                self.raw(p)
            elif op == 'compress':
                self.threshold = st[1]
                self.de.threshold = st[1]
            elif op == 'encrypt':
                key = st[1](self) if callable(st[1]) else st[1]
                self.enc = CFB8(key)
                self.de.cipher = CFB8(key)
            elif op == 'close':
                self.session.close()
            elif op == 'reset':
                self.session.reset()
            elif op == 'call':
                st[1](self)
            elif op == 'pause':
                if st[1] not in self.resumed:
                    return
            elif op == 'wait':
                if not st[1](self):
                    return
            self.pc += 1

    def finished(self):
        return self.pc >= len(self.steps)


def status_json(protocol=None, name='X', extra=None, no_version=False, no_protocol=False, empty=False):
    if empty:
        return '{}'
    d = {'description': {'text': 'verif'}, 'players': {'max': 1, 'online': 0}}
    if not no_version:
        v = {'name': name}
        if not no_protocol:
            v['protocol'] = protocol
        d['version'] = v
    if extra:
        d.update(extra)
    return json.dumps(d)
