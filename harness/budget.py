"""Step budget: run a callable with a cap on executed Python line events, so
that a non-terminating pure-Python loop becomes an observable outcome instead
of a hang."""
import sys
import threading


class BudgetExceeded(BaseException):
    pass


def run_with_budget(fn, budget=200000):
    """Returns ('ok', value) | ('raise', exc) | ('diverges', None)."""
    count = [0]

    def local(frame, event, arg):
        if event == 'line':
            count[0] += 1
            if count[0] > budget:
                raise BudgetExceeded()
        return local

    def tracer(frame, event, arg):
        return local

    old = sys.gettrace()
    sys.settrace(tracer)
    try:
        try:
            return ('ok', fn())
        except BudgetExceeded:
            return ('diverges', None)
        except Exception as e:      # noqa
            return ('raise', e)
    finally:
        sys.settrace(old)


class CountingStream(object):
    """File-like object over bytes that records how much was consumed and how
    many read calls were made (stands in for the makefile('rb', 0) object)."""

    def __init__(self, data):
        self.data = bytes(data)
        self.pos = 0
        self.calls = 0
        self.empty_reads = 0

    def read(self, n=None):
        self.calls += 1
        if n is None or n < 0:
            n = len(self.data) - self.pos
        r = self.data[self.pos:self.pos + n]
        self.pos += len(r)
        if not r and n:
            self.empty_reads += 1
        return r

    def recv(self, n=None):
        return self.read(n)


STREAM_KINDS = ('counting', 'packetbuffer', 'bytesio')


class _Pos(object):
    def __init__(self, stream, tell):
        self.stream, self._tell = stream, tell

    @property
    def pos(self):
        return self._tell()


def open_stream(kind, data):
    """(stream, position holder) over `data` for each kind of stream the library's decoders meet: the stand-in for the
    unbuffered socket file, the library's own PacketBuffer (what packet bodies are decoded from), and a bare BytesIO."""
    if kind == 'counting':
        st = CountingStream(data)
        return st, st
    if kind == 'packetbuffer':
        from minecraft.networking.packets import PacketBuffer
        pb = PacketBuffer()
        pb.send(bytes(data))
        pb.reset_cursor()
        return pb, _Pos(pb, lambda: pb.bytes.tell())
    import io
    b = io.BytesIO(bytes(data))
    return b, _Pos(b, b.tell)


class Sink(object):
    """Socket-like object collecting what is sent."""

    def __init__(self):
        self.chunks = []

    def send(self, b):
        self.chunks.append(bytes(b))
        return len(b)

    def value(self):
        return b''.join(self.chunks)
