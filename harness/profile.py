"""Per-version packet ids for the scripted peer, read from the tree under test.

The peer's *layouts* are its own (harness/peer.py and the builders below, written
from the protocol); only the numeric ids per version come from the code's tables.
C07 pins those ids (and the layouts) independently at every release version.
"""
from . import peer as P


class Profile(object):
    def __init__(self, version):
        import minecraft
        from minecraft.networking.connection import ConnectionContext
        from minecraft.networking.packets import clientbound as cb, serverbound as sb
        self.version = version
        self.ctx = ctx = ConnectionContext(protocol_version=version)
        self.rank = minecraft.KNOWN_PROTOCOL_VERSIONS.index(version)
        R = minecraft.KNOWN_PROTOCOL_VERSIONS.index

        def ge(v):
            return self.rank >= R(v)
        self.ge = ge
        self.cb, self.sb = cb, sb
        g = lambda c: c.get_id(ctx)      # noqa
        self.c = {
            'status_response': 0, 'status_pong': 1,
            'login_disconnect': g(cb.login.DisconnectPacket),
            'enc_request': g(cb.login.EncryptionRequestPacket),
            'login_success': g(cb.login.LoginSuccessPacket),
            'login_compress': g(cb.login.SetCompressionPacket),
            'plugin_request': g(cb.login.PluginRequestPacket) if ge(385) else None,
            'keep_alive': g(cb.play.KeepAlivePacket),
            'play_disconnect': g(cb.play.DisconnectPacket),
            'pos_look': g(cb.play.PlayerPositionAndLookPacket),
            'chat': g(cb.play.ChatMessagePacket),
            'join_game': g(cb.play.JoinGamePacket),
            'play_compress': g(cb.play.SetCompressionPacket) if not ge(48) else None,
            'time_update': g(cb.play.TimeUpdatePacket),
        }
        self.s = {
            'handshake': 0, 'status_request': 0, 'status_ping': 1,
            'login_start': g(sb.login.LoginStartPacket),
            'enc_response': g(sb.login.EncryptionResponsePacket),
            'plugin_response': g(sb.login.PluginResponsePacket) if ge(385) else None,
            'keep_alive': g(sb.play.KeepAlivePacket),
            'teleport_confirm': g(sb.play.TeleportConfirmPacket) if ge(107) else None,
            'pos_look': g(sb.play.PositionAndLookPacket),
            'chat': g(sb.play.ChatPacket),
        }
        self.known_cb_play = set(c.get_id(ctx) for c in cb.play.get_packets(ctx))
        ids = [c.get_id(ctx) for c in cb.play.get_packets(ctx)]
        self.colliding_cb_play = set(i for i in ids if ids.count(i) > 1)     # C06 known findings: dispatch is ambiguous there
        self.known_cb_login = set(c.get_id(ctx) for c in cb.login.get_packets(ctx))
        self.sb_play_ids = set(c.get_id(ctx) for c in sb.play.get_packets(ctx))

    # ---- clientbound payload builders (the peer's own layouts)
    def status_response(self, text):
        return P.VI(self.c['status_response']) + P.S(text)

    def status_pong(self, t):
        return P.VI(self.c['status_pong']) + P.L(t)

    def login_disconnect(self, text):
        return P.VI(self.c['login_disconnect']) + P.S(text)

    def enc_request(self, server_id, pubkey_der, token):
        return P.VI(self.c['enc_request']) + P.S(server_id) + P.BA(pubkey_der) + P.BA(token)

    def login_success(self, uuid_bytes, name):
        if self.ge(707):
            u = bytes(uuid_bytes)
        else:
            h = bytes(uuid_bytes).hex()
            u = P.S('%s-%s-%s-%s-%s' % (h[:8], h[8:12], h[12:16], h[16:20], h[20:]))
        return P.VI(self.c['login_success']) + u + P.S(name)

    def login_compress(self, thr):
        return P.VI(self.c['login_compress']) + P.VI(thr)

    def plugin_request(self, mid, channel, data=b''):
        return P.VI(self.c['plugin_request']) + P.VI(mid) + P.S(channel) + bytes(data)

    def keep_alive(self, kid):
        return P.VI(self.c['keep_alive']) + (P.L(kid) if self.ge(339) else P.VI(kid))

    def play_disconnect(self, text):
        return P.VI(self.c['play_disconnect']) + P.S(text)

    def pos_look(self, x, y, z, yaw, pitch, flags, tid, dismount=False):
        b = P.VI(self.c['pos_look']) + P.D(x) + P.D(y) + P.D(z) + P.F(yaw) + P.F(pitch) + P.UB(flags)
        if self.ge(107):
            b += P.VI(tid)
        if self.ge(755):
            b += P.BOOL(dismount)
        return b

    def time_update(self, age, tod):
        return P.VI(self.c['time_update']) + P.L(age) + P.L(tod)

    def known_unhandled(self, n):
        """A known play packet without built-in reaction carrying the number n, with an id that
        dispatches unambiguously at this version: time update, else update health."""
        if self.c['time_update'] not in self.colliding_cb_play:
            return 'time update', self.time_update(n, 6000)
        hid = self.cb.play.UpdateHealthPacket.get_id(self.ctx)
        return 'update health', P.VI(hid) + P.F(1.0) + P.VI(n % (2 ** 31)) + P.F(0.0)

    def unknown_id(self, state='play'):
        known = self.known_cb_play if state == 'play' else self.known_cb_login
        i = 0x7A
        while i in known:
            i += 1
        return i

    # ---- serverbound parsers
    def parse(self, state, fr):
        """Decode a client frame (dict from Deframer) in connection state `state`."""
        r = P.Reader(fr['body'])
        i = fr['id']
        try:
            if state == 'handshake' and i == 0:
                out = {'t': 'handshake', 'protocol': r.varint(), 'host': r.string(), 'port': r.fmt('>H'),
                       'next': r.varint()}
            elif state == 'status' and i == 0:
                out = {'t': 'status_request'}
            elif state == 'status' and i == 1:
                out = {'t': 'status_ping', 'time': r.fmt('>q')}
            elif state == 'login' and i == self.s['login_start']:
                out = {'t': 'login_start', 'name': r.string()}
            elif state == 'login' and i == self.s['enc_response']:
                out = {'t': 'enc_response', 'secret': r.barr(), 'token': r.barr()}
            elif state == 'login' and self.s['plugin_response'] is not None and i == self.s['plugin_response']:
                out = {'t': 'plugin_response', 'mid': r.varint(), 'ok': r.fmt('>?')}
                out['data'] = r.rest()
            elif state == 'play' and i == self.s['keep_alive']:
                out = {'t': 'keep_alive', 'id': r.fmt('>q') if self.ge(339) else r.varint()}
            elif state == 'play' and self.s['teleport_confirm'] is not None and i == self.s['teleport_confirm']:
                out = {'t': 'teleport_confirm', 'id': r.varint()}
            elif state == 'play' and i == self.s['pos_look']:
                out = {'t': 'pos_look', 'x': r.fmt('>d'), 'y': r.fmt('>d'), 'z': r.fmt('>d'),
                       'yaw': r.fmt('>f'), 'pitch': r.fmt('>f'), 'ground': r.fmt('>?')}
            elif state == 'play' and i == self.s['chat']:
                out = {'t': 'chat', 'msg': r.string()}
            else:
                return {'t': 'other', 'id': i, 'n': len(fr['body'])}
            if not r.done():
                out['trailing'] = len(fr['body']) - r.i
            return out
        except (EOFError, Exception) as e:     # noqa
            return {'t': 'undecodable', 'id': i, 'err': repr(e)}
