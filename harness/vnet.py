"""Virtual lock / socket / file / select / deque / clock / thread start-join for
minecraft.networking.connection, bound to one Sched execution.

No file under the repository is modified: `install()` replaces, for the duration
of one execution, the module-level names through which connection.py reaches
the outside world, and the start/join/is_alive methods of NetworkingThread.

Socket semantics reproduce what was observed on real sockets (DESIGN section 9):
partial reads, b'' at EOF and after a local shutdown, ValueError on a closed
file object (read, fileno, select), BrokenPipeError on send after shutdown /
peer close, OSError(ENOTCONN/EBADF) for shutdown on unconnected / closed
sockets, ConnectionResetError after a peer reset.
"""
import collections
import errno
import socket as _real_socket
import threading

from .vsched import Poison


# --------------------------------------------------------------------------- lock

class VLock(object):
    _count = 0

    def __init__(self, sched, name=None):
        self.sched = sched
        self.owner = None
        self.depth = 0
        VLock._count += 1
        self.name = name or 'lock%d' % VLock._count

    def _free_for(self, t):
        return self.owner is None or self.owner is t

    def acquire(self, blocking=True, timeout=-1):
        s = self.sched
        t = s.me()
        if t is None or threading.current_thread() is not t.real:
            # uncontrolled (set-up) code: behave like a plain re-entrant lock
            self.owner = self.owner or 'setup'
            self.depth += 1
            return True
        s.log('lock_req', lock=self.name)
        if not blocking:
            # try-lock: a scheduling point, then succeed only if the lock is free right now
            s.yield_point()
            if not self._free_for(t):
                s.log('acquire_failed', lock=self.name)
                return False
        else:
            s.yield_point(blocked_on=lambda: self._free_for(t))
        self.owner = t
        self.depth += 1
        s.log('acquire', lock=self.name, depth=self.depth)
        return True

    def release(self):
        s = self.sched
        t = s.me()
        if self.owner == 'setup':
            self.depth -= 1
            if self.depth == 0:
                self.owner = None
            return
        if self.owner is not t:
            raise RuntimeError('cannot release un-acquired lock')
        self.depth -= 1
        if self.depth == 0:
            self.owner = None
        s.log('release', lock=self.name, depth=self.depth)
        s.yield_point()

    __enter__ = acquire

    def __exit__(self, *a):
        if self.sched.dead:
            # unwinding after the execution ended: never block or raise here
            if self.owner is self.sched.me() or self.owner == 'setup':
                self.depth -= 1
                if self.depth <= 0:
                    self.owner, self.depth = None, 0
            return False
        self.release()
        return False

    def owner_name(self):
        o = self.owner
        return None if o is None else (o if isinstance(o, str) else o.name)


# --------------------------------------------------------------------------- deque

class VDeque(collections.deque):
    sched = None

    def _y(self):
        s = self.sched
        if s is not None and not s.dead:
            s.yield_point()

    def append(self, x):
        self._y()
        collections.deque.append(self, x)
        s = self.sched
        if s is not None:
            s.progress()
            s.log('enqueue', pkt=_pkt_tag(x), qlen=collections.deque.__len__(self))

    def popleft(self):
        self._y()
        x = collections.deque.popleft(self)
        s = self.sched
        if s is not None:
            s.progress()
            s.log('pop', pkt=_pkt_tag(x), qlen=collections.deque.__len__(self))
        return x

    def __len__(self):
        self._y()
        return collections.deque.__len__(self)

    def __bool__(self):
        self._y()
        return collections.deque.__len__(self) > 0

    def real_len(self):
        return collections.deque.__len__(self)


def _pkt_tag(p):
    t = getattr(p, '_vtag', None)
    if t is not None:
        return t
    return getattr(p, 'packet_name', type(p).__name__)


# --------------------------------------------------------------------------- network

class Session(object):
    """Server side of one accepted TCP connection."""

    def __init__(self, net, index, addr):
        self.net = net
        self.index = index
        self.addr = addr
        self.c2s = bytearray()        # everything the client sent
        self.c2s_chunks = []          # (thread name, bytes, lock owner name)
        self.s2c = bytearray()        # not yet read by the client
        self.s2c_total = 0
        self.srv_closed = False       # server sent FIN
        self.srv_reset = False        # server reset the connection
        self.cli_shut = False         # client shutdown(RDWR)
        self.cli_closed = False       # client closed the socket object
        self.script = None
        self.chunker = None           # f(avail, want) -> n in 1..min(avail, want)
        self.send_after_close_ok = False

    # server-side API used by scripts
    def send(self, data):
        if self.srv_closed or self.cli_shut or self.cli_closed:
            return False
        self.s2c += data
        self.s2c_total += len(data)
        self.net.sched.progress()
        return True

    def close(self):
        if not self.srv_closed:
            self.srv_closed = True
            self.net.sched.progress()
            self.net.sched.log('srv_close', sock=self.index, unread=len(self.s2c))

    def reset(self):
        self.srv_reset = True
        self.srv_closed = True
        self.net.sched.progress()
        self.net.sched.log('srv_reset', sock=self.index)


class VNet(object):
    """Registry of virtual servers: (host, port) -> factory(session) -> script or None (refuse)."""

    def __init__(self, sched):
        self.sched = sched
        self.servers = {}
        self.sessions = []
        self.files = {}
        self.tcp_attempts = 0

    def listen(self, host, port, factory):
        self.servers[(host, port)] = factory


class VSocket(object):
    def __init__(self, net, family=None, type_=None, proto=None):
        self.net = net
        self.sched = net.sched
        self.session = None
        self.closed = False
        self.shut_rd = False     # shutdown(SHUT_RD / SHUT_RDWR): reads see end of stream, a blocked reader wakes up
        self.shut_wr = False     # shutdown(SHUT_WR / SHUT_RDWR): the peer sees end of stream, sends fail
        self.connected = False
        net._sock_count = getattr(net, '_sock_count', 0) + 1
        self.sid = net._sock_count
        self.sched.log('sock_new', sock=self.sid)

    def connect(self, addr):
        s = self.sched
        s.yield_point()
        self.net.tcp_attempts += 1
        host, port = addr[0], addr[1]
        for name, ip in getattr(self.net, 'dns', {}).items():
            if ip == host:
                host = name
        factory = self.net.servers.get((host, port))
        sess = None
        if factory is not None:
            sess = Session(self.net, self.sid, addr)
            script = factory(sess)
            if script is None:
                sess = None
            else:
                sess.script = script
        if sess is None:
            s.progress()
            s.log('tcp_connect', sock=self.sid, result='refused')
            raise ConnectionRefusedError(errno.ECONNREFUSED, 'Connection refused')
        self.session = sess
        self.connected = True
        self.net.sessions.append(sess)
        s.progress()
        s.log('tcp_connect', sock=self.sid, result='accepted')
        if hasattr(sess.script, 'on_connect'):
            sess.script.on_connect(sess)

    def makefile(self, mode='rb', buffering=0):
        f = VFile(self)
        self.sched.log('file_new', sock=self.sid)
        return f

    def send(self, data):
        s = self.sched
        s.yield_point()
        data = bytes(data)
        if self.closed:
            s.log('send_fail', sock=self.sid, why='closed')
            raise OSError(errno.EBADF, 'Bad file descriptor')
        sess = self.session
        if sess is None or self.shut_wr or sess.srv_reset or (sess.srv_closed and not sess.send_after_close_ok):
            s.log('send_fail', sock=self.sid, why='pipe')
            raise BrokenPipeError(errno.EPIPE, 'Broken pipe')
        lock = getattr(self.net, 'write_lock', None)
        me = s.me()
        sess.c2s += data
        sess.c2s_chunks.append((me.name if me else None, data, lock.owner_name() if lock else None))
        s.progress()
        s.log('send', sock=self.sid, nbytes=len(data), lock=lock.owner_name() if lock else None,
              depth=lock.depth if lock else 0, off=len(sess.c2s) - len(data))
        if hasattr(sess.script, 'on_data'):
            sess.script.on_data(sess)
        return len(data)

    def recv(self, n):
        f = VFile(self)
        return f.read(n)

    def shutdown(self, how):
        s = self.sched
        s.yield_point()
        if self.closed:
            s.log('shutdown', sock=self.sid, result='EBADF')
            raise OSError(errno.EBADF, 'Bad file descriptor')
        if not self.connected or (self.session is not None and self.session.srv_reset):
            # (a connection the peer has reset is gone as far as the kernel is concerned: shutdown() reports ENOTCONN)
            s.log('shutdown', sock=self.sid, result='ENOTCONN')
            raise OSError(errno.ENOTCONN, 'Transport endpoint is not connected')
        if how in (_real_socket.SHUT_RD, _real_socket.SHUT_RDWR):
            self.shut_rd = True
        if how in (_real_socket.SHUT_WR, _real_socket.SHUT_RDWR):
            self.shut_wr = True
        if self.shut_wr and self.session is not None and not self.session.cli_shut:
            self.session.cli_shut = True
            if hasattr(self.session.script, 'on_client_close'):
                self.session.script.on_client_close(self.session)
        s.progress()
        s.log('shutdown', sock=self.sid, result='ok')

    def close(self):
        s = self.sched
        if s.dead:
            self.closed = True
            return
        s.yield_point()
        was = self.closed
        self.closed = True
        if self.session is not None and not self.session.cli_closed:
            self.session.cli_closed = True
            if not self.session.cli_shut and hasattr(self.session.script, 'on_client_close'):
                self.session.script.on_client_close(self.session)
        s.progress()
        s.log('sclose', sock=self.sid, again=was)

    def fileno(self):
        if self.closed:
            return -1
        return 1000 + self.sid

    def settimeout(self, t):
        self.timeout = t        # honoured by reads that have to wait: the peer may be slower than any timeout

    def gettimeout(self):
        return getattr(self, 'timeout', None)

    def setsockopt(self, *a):
        pass


class VFile(object):
    def __init__(self, sock):
        self.sock = sock
        self.sched = sock.sched
        self.closed = False
        self.fid = 2000 + sock.sid
        sock.net.files[self.fid] = self
        self.empty_reads = 0
        self.reads = 0

    def _readable(self):
        sk = self.sock
        sess = sk.session
        # as with a real socket, closing the descriptor from another thread does not wake a reader that is already
        # blocked: only data, the peer's end of stream / reset, or a local shutdown of the read half do
        if sk.shut_rd:
            return True
        if sess is None:
            return True
        return len(sess.s2c) > 0 or sess.srv_closed or sess.srv_reset

    def readinto(self, b):
        # (unbuffered socket file: at most len(b) bytes, 0 at end of stream)
        data = self.read(len(b))
        n = len(data)
        b[:n] = data
        return n

    def read(self, n=-1):
        s = self.sched
        if s.dead:
            raise Poison()
        self.reads += 1
        if self.closed:
            s.yield_point()
            s.log('read', sock=self.sock.sid, want=n, got=-1, why='closed')
            raise ValueError('I/O operation on closed file')
        if n == 0:
            s.yield_point()
            s.log('read', sock=self.sock.sid, want=0, got=0)
            return b''
        me = s.me()
        if getattr(self.sock, 'timeout', None) is not None and not self._readable():
            # the socket has a timeout and nothing has arrived: the rest may take longer than any timeout
            s.yield_point()
            if not self._readable():
                s.log('read', sock=self.sock.sid, want=n, got=-1, why='timeout')
                import socket as _rs
                raise _rs.timeout('timed out')
        if me is not None:
            me.waiting_read = True
        try:
            s.yield_point(blocked_on=self._readable)
        finally:
            if me is not None:
                me.waiting_read = False
        if self.closed and not self.sock.shut_rd:
            s.log('read', sock=self.sock.sid, want=n, got=-1, why='closed')
            raise ValueError('I/O operation on closed file')
        sess = self.sock.session
        if sess is not None and sess.srv_reset and not self.sock.shut_rd:
            s.log('read', sock=self.sock.sid, want=n, got=-1, why='reset')
            raise ConnectionResetError(errno.ECONNRESET, 'Connection reset by peer')
        if sess is None or self.sock.shut_rd or len(sess.s2c) == 0:
            self.empty_reads += 1
            s.log('read', sock=self.sock.sid, want=n, got=0, empties=self.empty_reads)
            if self.empty_reads > 50:
                # a reader that keeps reading an exhausted stream: make the spin observable
                s.log('spin', sock=self.sock.sid)
                s._finish('spin')
                raise Poison()
            return b''
        avail = len(sess.s2c)
        want = avail if (n is None or n < 0) else min(n, avail)
        k = want
        if sess.chunker is not None and want > 1:
            k = max(1, min(want, sess.chunker(avail, want)))
        data = bytes(sess.s2c[:k])
        del sess.s2c[:k]
        s.progress()
        s.log('read', sock=self.sock.sid, want=n, got=len(data), off=sess.s2c_total - len(sess.s2c) - len(data))
        return data

    def fileno(self):
        if self.closed:
            raise ValueError('I/O operation on closed file')
        return self.fid

    def close(self):
        s = self.sched
        if s.dead:
            self.closed = True
            return
        s.yield_point()
        was = self.closed
        self.closed = True
        s.progress()
        s.log('fclose', sock=self.sock.sid, again=was)
        # CPython: a closed SocketIO drops its reference to the socket object; a socket object nothing refers to any more
        # is finalised there and then, which closes the descriptor (ResourceWarning: unclosed socket) - the peer sees it
        import sys as _sys
        sk = self.sock
        if not was and not sk.closed and sk.connected and _sys.getrefcount(sk) <= 3:
            sk.closed = True
            if sk.session is not None and not sk.session.cli_closed:
                sk.session.cli_closed = True
                if not sk.session.cli_shut and hasattr(sk.session.script, 'on_client_close'):
                    sk.session.script.on_client_close(sk.session)
            s.log('sclose', sock=sk.sid, again=False, why='unreferenced')


class VSocketModule(object):
    """Stands in for the `socket` module inside connection.py."""
    AF_INET = _real_socket.AF_INET
    AF_INET6 = _real_socket.AF_INET6
    SOCK_STREAM = _real_socket.SOCK_STREAM
    SHUT_RDWR = _real_socket.SHUT_RDWR
    SHUT_RD = _real_socket.SHUT_RD
    SHUT_WR = _real_socket.SHUT_WR
    error = OSError
    timeout = _real_socket.timeout
    gaierror = _real_socket.gaierror

    def __init__(self, net):
        self.net = net

    def getaddrinfo(self, host, port, family=0, type_=0, proto=0, flags=0):
        # a host name resolves to an address that is not the name (what the handshake carries is the name)
        dns = self.net.__dict__.setdefault('dns', {})
        if host not in dns and not host.replace('.', '').isdigit():
            dns[host] = '10.77.0.%d' % (len(dns) + 1)
        return [(self.AF_INET, self.SOCK_STREAM, 6, '', (dns.get(host, host), port))]

    def socket(self, family=None, type_=None, proto=None):
        return VSocket(self.net, family, type_, proto)


class VSelectModule(object):
    POLLIN, POLLPRI, POLLOUT, POLLERR, POLLHUP, POLLNVAL = 1, 2, 4, 8, 16, 32
    error = OSError

    def __init__(self, net):
        self.net = net

    def poll(self):
        return VPoll(self)

    def _resolve(self, obj):
        if isinstance(obj, VFile):
            if obj.closed:
                raise ValueError('I/O operation on closed file')
            return obj
        fid = obj.fileno()           # wrappers delegate; a closed VFile raises ValueError here
        f = self.net.files.get(fid)
        if f is None:
            raise ValueError('file descriptor cannot be a negative integer (-1)')
        return f

    def select(self, rlist, wlist, xlist, timeout=None):
        s = self.net.sched
        if s.dead:
            raise Poison()
        t = s.me()
        files = [(o, self._resolve(o)) for o in rlist]
        if t is not None:
            t.waiting_select = True
        try:
            if timeout is None:
                s.yield_point(blocked_on=lambda: any(f.closed or f._readable() for _, f in files))
            else:
                s.yield_point()
        finally:
            if t is not None:
                t.waiting_select = False
        for _, f in files:
            if f.closed:
                s.log('select', result='closed')
                raise ValueError('I/O operation on closed file')
        ready = [o for o, f in files if f._readable()]
        if ready:
            s.log('select', result='ready', timeout=timeout)
            return ready, [], []
        if timeout:
            s.clock += timeout
        if t is not None:
            t.stutter += 1
        s.log('select', result='timeout', timeout=timeout)
        return [], [], []


class VPoll(object):
    """select.poll() over virtual files, with Linux's event bits: data or the peer's FIN = POLLIN; a connection the peer has
    reset = POLLIN | POLLERR | POLLHUP; a closed descriptor = POLLNVAL. (Round 11, C15k: code that switches from select()
    to poll() meets the error bits select() never showed it.)"""

    def __init__(self, mod):
        self.mod = mod
        self.reg = {}

    def register(self, obj, mask=1 | 2 | 4):
        f = self.mod._resolve(obj)
        self.reg[id(f)] = (obj, f, mask)

    modify = register

    def unregister(self, obj):
        self.reg.pop(id(self.mod._resolve(obj)), None)

    def _events(self):
        out = []
        for obj, f, mask in self.reg.values():
            ev = 0
            if f.closed:
                ev = VSelectModule.POLLNVAL
            else:
                sess = f.sock.session
                if f._readable():
                    ev |= VSelectModule.POLLIN
                if sess is not None and sess.srv_reset and not f.sock.shut_rd:
                    ev |= VSelectModule.POLLIN | VSelectModule.POLLERR | VSelectModule.POLLHUP
                ev &= mask | VSelectModule.POLLERR | VSelectModule.POLLHUP | VSelectModule.POLLNVAL
            if ev:
                out.append((obj if isinstance(obj, int) else f.fileno(), ev))
        return out

    def poll(self, timeout=None):
        s = self.mod.net.sched
        if s.dead:
            raise Poison()
        t = s.me()
        if t is not None:
            t.waiting_select = True
        try:
            if timeout is None or timeout < 0:
                s.yield_point(blocked_on=lambda: bool(self._events()))
            else:
                s.yield_point()
        finally:
            if t is not None:
                t.waiting_select = False
        evs = self._events()
        if evs:
            s.log('poll', result='ready', events=[e for _, e in evs])
            return evs
        if timeout:
            s.clock += timeout / 1000.0
        if t is not None:
            t.stutter += 1
        s.log('poll', result='timeout', timeout=timeout)
        return []


class VTimeit(object):
    def __init__(self, sched):
        self.sched = sched

    def default_timer(self):
        self.sched.clock += 0.0005
        return self.sched.clock


# --------------------------------------------------------------------------- installation

class Installed(object):
    """Context manager: patch minecraft.networking.connection for one execution."""

    def __init__(self, sched, net=None):
        self.sched = sched
        self.net = net or VNet(sched)
        self.saved = {}
        self.nthreads = 0
        self.started = []       # NetworkingThread objects in start order

    def __enter__(self):
        from minecraft.networking import connection as C
        self.C = C
        sched, net = self.sched, self.net
        inst = self

        def rlock():
            lk = VLock(sched, 'wl')
            net.write_lock = lk
            return lk

        def deque(*a, **kw):
            d = VDeque(*a, **kw)
            d.sched = sched
            return d
        # The stand-ins are installed wherever connection.py reaches the real thing from, whichever way it spells the
        # import: `import socket` / `from socket import socket`, `from threading import RLock` / `threading.RLock`, ...
        import collections as _collections
        import select as _select
        import socket as _socket
        import threading as _threading
        import timeit as _timeit

        class _Proxy(object):
            """A module seen through replacements for some of its attributes."""

            def __init__(self, real, repl):
                self.__dict__['_real'], self.__dict__['_repl'] = real, repl

            def __getattr__(self, a):
                r = self.__dict__['_repl']
                return r[a] if a in r else getattr(self.__dict__['_real'], a)
        standins = {
            _socket: VSocketModule(net), _select: VSelectModule(net), _timeit: VTimeit(sched),
            _threading: _Proxy(_threading, {'RLock': rlock, 'Lock': rlock}),
            _collections: _Proxy(_collections, {'deque': deque}),
        }
        found = set()
        for name, val in list(vars(C).items()):
            if isinstance(val, type(_socket)) and val in standins:
                self.saved[name] = val
                setattr(C, name, standins[val])
                found.add(val.__name__)
                continue
            if not callable(val) or isinstance(val, type(_socket)):
                continue
            for real, sub in standins.items():
                # by identity, so that `from select import select as _sel` is recognised too
                attr = next((a for a, v in vars(real).items() if v is val), None)
                if attr is None:
                    continue
                try:
                    rep = getattr(sub, attr)
                except AttributeError:
                    continue
                if rep is val:
                    continue            # passed through by a proxy (e.g. threading.Thread): leave it alone
                self.saved[name] = val
                setattr(C, name, rep)
                found.add(real.__name__ + '.' + attr)
                break
        need = [('lock', {'threading', 'threading.RLock', 'threading.Lock'}), ('socket', {'socket', 'socket.socket'}),
                ('select', {'select', 'select.select'}), ('queue', {'collections', 'collections.deque'})]
        missing = [k for k, alts in need if not (alts & found)]
        if missing:
            raise RuntimeError('cannot virtualise %s of minecraft.networking.connection (found %s)' % (missing, sorted(found)))
        NT = C.NetworkingThread
        self.saved_nt = {k: NT.__dict__.get(k) for k in ('start', 'join', 'is_alive')}

        def start(self_t):
            inst.nthreads += 1
            name = 'net%d' % inst.nthreads
            self_t._vname = name
            inst.started.append(self_t)
            sched.log('thread_start', who=name, previous=getattr(getattr(self_t, 'previous_thread', None), '_vname', None))
            self_t._vt = sched.spawn(lambda: inst._run_thread(self_t), name, 'net')
            sched.progress()
            sched.yield_point()

        def join(self_t, timeout=None):
            vt = getattr(self_t, '_vt', None)
            if vt is None:
                raise RuntimeError('cannot join thread before it is started')
            sched.log('join_req', who=self_t._vname)
            if timeout is not None:
                # a timed join: the other thread may take any amount of time (it may sit in a user's listener), so the
                # timeout may expire whenever the joiner gets scheduled again before the other thread has ended
                for _ in range(3):
                    if vt.finished:
                        break
                    sched.yield_point()
                if not vt.finished:
                    sched.log('join_timeout', who=self_t._vname, timeout=timeout)
                    return
            else:
                sched.yield_point(blocked_on=lambda: vt.finished)
            sched.log('joined', who=self_t._vname)

        def is_alive(self_t):
            vt = getattr(self_t, '_vt', None)
            return vt is not None and not vt.finished
        NT.start, NT.join, NT.is_alive = start, join, is_alive
        return self

    def _run_thread(self, nt):
        s = self.sched
        s.log('thread_begin', who=nt._vname)
        raised = None
        try:
            nt.run()
        except Poison:
            raise
        except BaseException as e:      # noqa
            raised = e
        finally:
            if not s.dead:
                s.progress()
                s.log('thread_end', who=nt._vname, raised=type(raised).__name__ if raised else None)
        nt._raised = raised
        return raised

    def __exit__(self, *a):
        C = self.C
        for name, val in self.saved.items():
            setattr(C, name, val)
        NT = C.NetworkingThread
        for k, v in self.saved_nt.items():
            if v is None:
                try:
                    delattr(NT, k)
                except AttributeError:
                    pass
            else:
                setattr(NT, k, v)
        return False


# --------------------------------------------------------------------------- projection

def projection(conn):
    """Abstract state of a Connection object, read defensively."""
    def tname(t):
        return None if t is None else getattr(t, '_vname', '?')

    def attr(name):
        try:
            v = conn.__dict__[name]
        except KeyError:
            return 'unset'
        return 'none' if v is None else 'set'
    nt = conn.__dict__.get('networking_thread')
    nnt = conn.__dict__.get('new_networking_thread')
    lk = conn.__dict__.get('_write_lock')
    q = conn.__dict__.get('_outgoing_packet_queue')
    return {
        'nt': tname(nt), 'newNt': tname(nnt),
        'ntIntr': bool(getattr(nt, 'interrupt', False)) if nt is not None else False,
        'newIntr': bool(getattr(nnt, 'interrupt', False)) if nnt is not None else False,
        'lock': lk.owner_name() if isinstance(lk, VLock) else None,
        'depth': lk.depth if isinstance(lk, VLock) else 0,
        'sock': attr('socket'), 'file': attr('file_object'),
        'qlen': q.real_len() if isinstance(q, VDeque) else (len(q) if q is not None else 0),
        'connected': bool(conn.__dict__.get('connected', False)),
        'reactor': type(conn.__dict__.get('reactor')).__name__,
        'spawned': bool(conn.__dict__.get('spawned', False)),
    }
