"""Deterministic token-passing scheduler over real threads.

Exactly one controlled thread (or the environment) runs at a time.  Every
operation the code under test performs on a virtual object (lock, socket, file,
select, deque, thread start/join) is a yield point: the running thread records
an event and hands the token to whichever enabled actor the policy picks.  An
execution is therefore a pure function of the policy's choices, and hangs and
spins are observable (no enabled actor / step budget exhausted) instead of
being timeouts.

Executions are isolated: one Sched object per execution, every virtual object
is bound to it, and threads still alive when the execution ends are released by
raising Poison (a BaseException) at their next yield point.
"""
import os
import random
import threading
import time


class Poison(BaseException):
    """Raised inside controlled threads when their execution is over."""


class Deadlock(Exception):
    pass


class VThread(object):
    def __init__(self, sched, name, kind):
        self.sched = sched
        self.name = name
        self.kind = kind            # 'user' | 'net'
        self.go = threading.Event()
        self.finished = False
        self.started = False
        self.blocked_on = None      # callable -> bool (True when it may proceed) or None
        self.waiting_select = False
        self.real = None
        self.result = None
        self.exc = None
        self.stutter = 0            # consecutive pure select-timeout steps

    def enabled(self):
        if self.finished:
            return False
        if self.blocked_on is not None:
            return bool(self.blocked_on())
        return True


class Policy(object):
    """Chooses among options at every choice point."""

    def choose(self, kind, options, current=None):
        raise NotImplementedError


class RandomPolicy(Policy):
    def __init__(self, seed, switch_prob=0.35):
        self.rng = random.Random(seed)
        self.switch_prob = switch_prob

    def choose(self, kind, options, current=None):
        if kind == 'actor':
            if current is not None and current in options and self.rng.random() > self.switch_prob:
                return options.index(current)
            return self.rng.randrange(len(options))
        return self.rng.randrange(len(options))


class SequentialPolicy(Policy):
    """Keeps running the current actor while it is enabled; prefers, in order,
    user threads, networking threads, the server.  Environment choices take the
    first option unless an rng is given."""

    def __init__(self, seed=None):
        self.rng = random.Random(seed) if seed is not None else None

    def choose(self, kind, options, current=None):
        if kind == 'actor':
            # user threads first (a user thread blocked in settle() must get the token as soon as
            # the networking thread is idle), then the current actor, then networking threads
            for i, o in enumerate(options):
                if o.startswith('u'):
                    return i
            idle = getattr(self, 'stuttering', set())
            busy = [o for o in options if o not in idle]
            if current is not None and current in options and not (current in idle and busy):
                return options.index(current)
            if busy:                    # a thread that only polls does not keep the token from one that can move
                options_busy = [o for o in options if o in busy]
                for pref in ('n', 's'):
                    for o in options_busy:
                        if o.startswith(pref):
                            return options.index(o)
                return options.index(options_busy[0])
            for pref in ('n', 's'):
                for i, o in enumerate(options):
                    if o.startswith(pref):
                        return i
            return 0
        if self.rng is not None:
            return self.rng.randrange(len(options))
        return 0


class ReplayPolicy(Policy):
    """Replays a recorded list of choices; falls back to another policy afterwards."""

    def __init__(self, choices, fallback=None):
        self.choices = list(choices)
        self.i = 0
        self.fallback = fallback or SequentialPolicy()

    def choose(self, kind, options, current=None):
        if self.i < len(self.choices):
            c = self.choices[self.i]
            self.i += 1
            if isinstance(c, str) and c in options:
                return options.index(c)
            if isinstance(c, int) and 0 <= c < len(options):
                return c
        return self.fallback.choose(kind, options, current)


class PreemptionBoundedPolicy(Policy):
    """Depth-first enumeration support: follows `prefix` (actor names), then keeps
    the current actor (no preemption).  Records, at every actor choice after the
    prefix, which alternatives existed, so that a driver can enumerate schedules
    with a bounded number of preemptions."""

    def __init__(self, prefix, env_seed=0):
        self.prefix = list(prefix)
        self.i = 0
        self.trail = []      # (options, chosen, current)
        self.rng = random.Random(env_seed)

    def choose(self, kind, options, current=None):
        if kind != 'actor':
            return self.rng.randrange(len(options))
        idle = getattr(self, 'stuttering', set())
        busy = [o for o in options if o not in idle]
        if self.i < len(self.prefix) and self.prefix[self.i] in options:
            c = options.index(self.prefix[self.i])
        elif current is not None and current in options and not (current in idle and busy):
            c = options.index(current)
        elif busy:
            c = options.index(busy[0])      # leaving a thread that only polls is not a preemption
        else:
            c = 0
        self.i += 1
        self.trail.append((list(options), options[c], current))
        return c


class Sched(object):
    def __init__(self, policy, step_budget=20000, wall_timeout=30.0):
        self.policy = policy
        self.step_budget = step_budget
        self.wall_timeout = wall_timeout
        self.threads = []
        self.current = None
        self.events = []
        self.choices = []
        self.steps = 0
        self.dead = False
        self.outcome = None          # 'done' | 'quiescent' | 'deadlock' | 'budget' | 'error'
        self.done = threading.Event()
        self.clock = 0.0
        self.env_actors = []         # objects with .name, .enabled(), .step()
        self.observers = []          # callables(event dict) -> None (add projection)
        self.lock = threading.Lock()
        self.seq = 0
        self.quiescent_limit = 3
        self.error = None

    # ------------------------------------------------------------ events
    def log(self, ev, **kw):
        self.seq += 1
        e = {'n': self.seq, 'ev': ev, 't': self.current.name if self.current else 'env'}
        e.update(kw)
        for ob in self.observers:
            try:
                ob(e)
            except Poison:
                raise
            except Exception as x:      # noqa  - observers must never disturb the run
                e['observer_error'] = repr(x)
        self.events.append(e)
        return e

    # ------------------------------------------------------------ threads
    def spawn(self, fn, name, kind='user'):
        vt = VThread(self, name, kind)
        self.threads.append(vt)

        def body():
            vt.go.wait()
            try:
                if self.dead:
                    return
                vt.started = True
                try:
                    vt.result = fn()
                except Poison:
                    pass
                except BaseException as e:     # noqa
                    vt.exc = e
            finally:
                vt.finished = True
                if not self.dead:
                    try:
                        self._handover(vt, leaving=True)
                    except Poison:
                        pass
        vt.real = threading.Thread(target=body, name=name, daemon=True)
        vt.real.start()
        return vt

    def me(self):
        return self.current

    # ------------------------------------------------------------ core
    def _actors(self):
        opts = [t.name for t in self.threads if t.enabled()]
        for a in self.env_actors:
            if a.enabled():
                opts.append(a.name)
        return opts

    def _only_stutter(self, opts):
        """True when every enabled actor could only take select-timeout steps."""
        for name in opts:
            t = self._thread(name)
            if t is None:
                return False           # an environment actor can still move
            if not (t.waiting_select and t.stutter >= self.quiescent_limit):
                return False
        return True

    def _thread(self, name):
        for t in self.threads:
            if t.name == name:
                return t
        return None

    def _finish(self, outcome):
        if self.outcome is None:
            self.outcome = outcome
        self.dead = True
        for t in self.threads:
            t.go.set()
        self.done.set()

    def _handover(self, cur, leaving=False):
        """Pick the next actor.  Runs environment actors inline.  Returns when `cur`
        is to continue; if another thread is chosen, wakes it and (unless leaving)
        blocks until cur is rescheduled."""
        while True:
            if self.dead:
                raise Poison()
            self.steps += 1
            if self.steps > self.step_budget:
                self._finish('budget')
                raise Poison()
            opts = self._actors()
            if not opts:
                if all(t.finished for t in self.threads):
                    self._finish('done')
                elif all(t.finished or getattr(t, 'waiting_read', False) for t in self.threads):
                    # every remaining thread sits in a blocking socket read on a peer that stays silent: like polling
                    # for ever, this is the network's doing, not a deadlock among the threads
                    self._finish('quiescent')
                else:
                    self._finish('deadlock')
                raise Poison()
            if self._only_stutter(opts):
                self._finish('quiescent')
                raise Poison()
            self.policy.stuttering = set(t.name for t in self.threads if t.waiting_select and t.stutter >= 1)
            i = self.policy.choose('actor', opts, cur.name if (cur and not leaving and cur.enabled()) else None)
            name = opts[i]
            self.choices.append(name)
            t = self._thread(name)
            if t is None:
                env = [a for a in self.env_actors if a.name == name][0]
                prev = self.current
                self.current = None
                env.step()
                self.current = prev
                for th in self.threads:
                    th.stutter = 0
                continue
            if t is cur and not leaving:
                return
            if leaving:
                self.current = t
                t.go.set()
                return
            cur.go.clear()          # before waking t: t may hand the token straight back
            self.current = t
            t.go.set()
            cur.go.wait()
            if self.dead:
                raise Poison()
            return

    def yield_point(self, blocked_on=None):
        """Called by the running controlled thread.  If blocked_on is given the
        thread is disabled until it returns True."""
        cur = self.current
        if cur is None or threading.current_thread() is not cur.real:
            # not a controlled thread (e.g. set-up code running before the execution starts)
            if blocked_on is not None and not blocked_on():
                raise Deadlock('uncontrolled thread would block')
            return
        if self.dead:
            raise Poison()
        cur.blocked_on = blocked_on
        try:
            self._handover(cur)
        finally:
            cur.blocked_on = None

    def progress(self):
        """Something observable happened: nobody is merely stuttering any more."""
        for t in self.threads:
            t.stutter = 0

    def choose(self, kind, options):
        if len(options) == 1:
            return 0
        i = self.policy.choose(kind, options)
        self.choices.append(i)
        return i

    # ------------------------------------------------------------ running
    def run(self, scenario, name='u1'):
        """Run scenario() as the first user thread; returns when the execution is over."""
        vt = self.spawn(scenario, name, 'user')
        self.current = vt
        vt.go.set()
        ok = self.done.wait(self.wall_timeout)
        if not ok:
            if os.environ.get('VERIF_DEBUG_WATCHDOG'):
                import faulthandler
                with open(os.environ['VERIF_DEBUG_WATCHDOG'], 'a') as f:
                    f.write('==== watchdog after %d steps, current %r\n' % (self.steps, self.current and self.current.name))
                    faulthandler.dump_traceback(file=f, all_threads=True)
            self.error = 'wall-clock watchdog expired (machinery hang?)'
            self._finish('error')
        # give poisoned threads a moment to unwind
        deadline = time.time() + 2.0
        for t in self.threads:
            if t.real is not None:
                t.real.join(max(0.0, deadline - time.time()))
        return self.outcome
