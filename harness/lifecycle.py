"""Multi-threaded lifecycle scenarios of one real Connection under the deterministic
scheduler: user threads calling connect / status / disconnect / write_packet,
listeners and exception handlers that reconnect, servers that accept, refuse,
disconnect or fail.  Shared by C12, C14 and C16."""
import random

from . import vsched, vnet, peer as P
from .session import Run, TracingScript, HOST, PORT
from .profile import Profile

VERSION = 757


class Adaptive(TracingScript):
    """Server that learns from the handshake whether this is a status or a login
    connection and then follows `behaviour`:
       idle | disc | close | close_early | trigger | trigger2 | keepalive | stall
       (stall: a frame's length prefix and part of its body, then silence on an open connection: the networking thread
        sits in a blocking read, not in select)"""

    def __init__(self, run, behaviour, version=VERSION, comp=None):
        TracingScript.__init__(self, run, Profile(version), [])
        self.behaviour = behaviour
        self.comp = comp        # threshold the server announces during login (None: no compression)
        if behaviour == 'close_early':
            self.steps = [('close',)]
        else:
            self.steps = [('expect', 2), ('call', self._dispatch)]

    def _dispatch(self, sc):
        hs = self.parsed[0]
        prof = self.prof
        b = self.behaviour
        if hs.get('next') == 1:
            if b == 'close':
                self.steps += [('close',)]
            else:
                self.steps += [('send', prof.status_response(P.status_json(protocol=VERSION)))]
            return
        steps = []
        if self.comp is not None:
            steps += [('send', prof.login_compress(self.comp)), ('compress', self.comp)]
        steps += [('send', prof.login_success(bytes(range(16)), 'verif')), ('call', lambda s: setattr(s, 'state', 'play'))]
        if b == 'disc':
            steps += [('send', prof.keep_alive(5)), ('send', prof.play_disconnect('{"text":"bye"}'))]
        elif b == 'close':
            steps += [('send', prof.keep_alive(6)), ('close',)]
        elif b == 'trigger':
            steps += [('send', prof.time_update(1, 1))]
        elif b == 'trigger2':
            steps += [('send', prof.keep_alive(7)), ('send', prof.time_update(2, 2)), ('send', prof.keep_alive(8))]
        elif b == 'keepalive':
            steps += [('send', prof.keep_alive(9)), ('send', prof.keep_alive(10))]
        elif b == 'stall':
            whole = P.frame(prof.time_update(3, 3), self.comp)
            steps += [('send', prof.keep_alive(11)), ('raw', whole[:len(whole) - 5])]
        self.steps += steps


def api(run, conn, op, **kw):
    """Perform one API call from the current thread, logging call and return."""
    s = run.sched
    s.log('api_call', op=op)
    r = 'ok'
    try:
        if op == 'connect':
            conn.connect()
        elif op == 'status':
            conn.status(handle_status=False, handle_ping=False)
        elif op == 'disc':
            conn.disconnect()
        elif op == 'disc_now':
            conn.disconnect(immediate=True)
        elif op == 'write':
            conn.write_packet(kw['packet'], force=kw.get('force', False))
        else:
            raise ValueError(op)
    except vsched.Poison:
        raise
    except Exception as e:      # noqa
        name = type(e).__name__
        r = {'InvalidState': 'InvalidState', 'ConnectionRefusedError': 'Refused'}.get(name, 'Raised:' + name)
        run.last_raise = e
    s.log('api_ret', op=op, r=r)
    return r


def execute(spec, policy, seed=0, step_budget=40000):
    """spec: dict(programs={'u1': [...], 'u2': [...]}, servers=[behaviour per TCP attempt...],
                  listener_reconnect=bool, handler_reconnect=bool, raise_in_listener=bool)"""
    from minecraft.networking.packets import clientbound
    run = Run(policy=policy, seed=seed, step_budget=step_budget, chunk='random')
    servers = list(spec.get('servers', []))

    def factory(idx, sess):
        b = servers[idx] if idx < len(servers) else 'idle'
        if b == 'refuse':
            return None
        comps = spec.get('comp') or []
        return Adaptive(run, b, comp=comps[idx] if idx < len(comps) else None)
    run.serve(factory)
    state = {'reconnects': 0, 'hreconnects': 0}

    def scenario(run):
        def on_exc(exc, info):
            run.errors.append(exc)
            run.sched.log('cb_exception', c=type(exc).__name__)
            if spec.get('handler_reconnect') and state['hreconnects'] < 1:
                state['hreconnects'] += 1
                api(run, c, 'connect')
        allowed = {VERSION, 340} if spec.get('negotiate') else {VERSION}
        c = run.make_connection(allowed_versions=allowed, handle_exception=on_exc)
        from .vnet import projection
        run.sched.observers.append(lambda e: e.__setitem__('st', projection(c)))
        real_disconnect = c.disconnect

        def logged_disconnect(immediate=False):
            me = run.sched.me()
            import sys as _sys
            src = {'_handle_exception': 'he', 'react': 'react', 'api': 'api'}.get(_sys._getframe(1).f_code.co_name, 'other')
            if me is not None and me.name.startswith('net') and (immediate or src == 'react'):
                run.sched.log('disc_by', src=src)   # (the projection attached to the event is the state before the call)
            return real_disconnect(immediate)
        c.disconnect = logged_disconnect
        if spec.get('listener_reconnect'):
            def relisten(pkt):
                if state['reconnects'] < 1:
                    state['reconnects'] += 1
                    api(run, c, 'disc')
                    api(run, c, 'connect')
            c.register_packet_listener(relisten, clientbound.play.TimeUpdatePacket, early=bool(spec.get('early')))
            if spec.get('relisten_on_disc'):
                # ... or reconnects when the server says goodbye (without suppressing the packet's default action)
                c.register_packet_listener(relisten, clientbound.play.DisconnectPacket, early=bool(spec.get('early')))
        if spec.get('raise_in_listener'):
            def boom(pkt):
                for _ in range(3):          # a listener that takes its time: other threads may act meanwhile
                    run.sched.yield_point()
                run.sched.log('listener_raise')
                raise RuntimeError('listener failure')
            c.register_packet_listener(boom, clientbound.play.KeepAlivePacket)
        progs = spec['programs']

        def user(name):
            def body():
                for op in progs[name]:
                    api(run, c, op)
            return body
        for name in sorted(progs):
            if name != 'u1':
                run.sched.spawn(user(name), name, 'user')
        user('u1')()
    run.go(scenario)
    return run


def lifecycle_events(run):
    """Project the scheduler's event log onto the Trace_Lifecycle events."""
    ev = []
    in_call = {}
    he_pending = set()
    for e in run.sched.events:
        t, k = e['t'], e['ev']
        if k == 'acquire' and t in he_pending:
            # the disconnect issued by a dying thread's error handling takes effect here (the lock is its own): what holds
            # the slot at this moment is what it tears down
            he_pending.discard(t)
            st = e.get('st', {})
            victim, intr = (st.get('newNt'), st.get('newIntr')) if st.get('newNt') is not None else (st.get('nt'), st.get('ntIntr'))
            if victim is not None:
                ev.append({'k': 'he_teardown', 'by': t, 'victim': victim, 'intr': bool(intr)})
            continue
        if k == 'api_call':
            in_call[t] = {'op': e['op'], 'checked': False}
            ev.append({'k': 'call', 't': t, 'op': e['op']})
        elif k == 'api_ret':
            ev.append({'k': 'ret', 't': t, 'op': e['op'], 'r': e['r'] if not e['r'].startswith('Raised') else 'Raised'})
            in_call.pop(t, None)
        elif k == 'acquire' and t in in_call and in_call[t]['op'] in ('connect', 'status') and not in_call[t]['checked']:
            st = e.get('st', {})
            in_call[t]['checked'] = True
            active = (st.get('nt') is not None and not st.get('ntIntr')) or st.get('newNt') is not None
            ev.append({'k': 'check', 't': t, 'active': bool(active)})
        elif k == 'acquire' and t in in_call and in_call[t]['op'] in ('disc', 'disc_now') and not in_call[t]['checked']:
            in_call[t]['checked'] = True
            ev.append({'k': 'disc_point', 't': t})
        elif k in ('tcp_connect', 'thread_start', 'enqueue') and t in in_call and in_call[t]['op'] in ('connect', 'status'):
            ev.append({'k': 'effect', 't': t, 'what': k})
            if k == 'thread_start':
                ev.append({'k': 'start', 'who': e['who']})
        elif k == 'thread_start':
            ev.append({'k': 'start', 'who': e['who']})
        elif k in ('send', 'read', 'select', 'send_fail') and t.startswith('net'):
            ev.append({'k': 'io', 't': t})
        elif k == 'thread_end':
            ev.append({'k': 'end', 'who': e['who']})
        elif k == 'listener_raise':
            ev.append({'k': 'raise', 'who': t})
        elif k == 'disc_by':
            if e.get('src') == 'he':
                he_pending.add(t)
            st = e.get('st', {})
            victim, intr = (st.get('newNt'), st.get('newIntr')) if st.get('newNt') is not None else (st.get('nt'), st.get('ntIntr'))
            if victim is not None:
                ev.append({'k': 'teardown', 'by': t, 'victim': victim, 'intr': bool(intr), 'src': e.get('src', 'other')})
    ev.append({'k': 'final'})
    return ev


OPS = ['connect', 'connect', 'status', 'disc', 'disc_now']
SERVERS = ['idle', 'idle', 'disc', 'close', 'close_early', 'refuse', 'trigger', 'trigger2', 'keepalive', 'stall']


def random_spec(rng, users=2, maxops=3):
    progs = {}
    for i in range(users):
        progs['u%d' % (i + 1)] = [rng.choice(OPS) for _ in range(rng.randint(1, maxops))]
    return {
        'programs': progs,
        'servers': [rng.choice(SERVERS) for _ in range(8)],
        'comp': [rng.choice([None, None, 0, 64]) for _ in range(8)],      # per TCP connection: threshold announced at login
        'listener_reconnect': rng.random() < 0.35,
        'relisten_on_disc': rng.random() < 0.5,
        'early': rng.random() < 0.5,
        'handler_reconnect': rng.random() < 0.3,
        'raise_in_listener': rng.random() < 0.2,
        'negotiate': rng.random() < 0.25,       # several allowed versions: connect() first queries the status (successor thread)
    }
