"""Running one real Connection against scripted peers under the scheduler, with a
trace of property-level observations (server packets, client frames, listener
deliveries, callbacks) in exact global order."""
import os
import random

from . import vsched, vnet, peer
from .profile import Profile

HOST, PORT = 'mc.verif', 25565


def key64(n):
    """Integer -> base-65536 digits of n mod 2^64 (little-endian), for TLC."""
    n &= (1 << 64) - 1
    return [(n >> (16 * i)) & 0xFFFF for i in range(4)]


class Run(object):
    """One execution.  Usage:
         run = Run(policy)            # creates scheduler + virtual net, patches connection.py
         run.serve(script_factory)    # callable(conn_index, session) -> peer.Script | None
         outcome = run.go(scenario)   # scenario(run) runs as user thread u1
    """

    def __init__(self, policy=None, seed=0, step_budget=60000, chunk='random', wall_timeout=float(os.environ.get("VERIF_WALL_TIMEOUT", "300"))):
        self.sched = vsched.Sched(policy or vsched.SequentialPolicy(seed), step_budget=step_budget,
                                  wall_timeout=wall_timeout)
        self.rng = random.Random(seed)
        self.trace = []          # property-level events
        self.scripts = []        # peer.Script per accepted TCP connection
        self.refused = 0
        self.chunk = chunk
        self.conn = None
        self.exits = 0
        self.errors = []
        self.installed = None
        self._factory = None
        self.grammar = True      # the client frames of this execution are judged by Trace_Session (off: a scenario in which
        #                          the *user* deliberately writes packets of the wrong state)

    def ev(self, k, **kw):
        e = {'k': k}
        e.update(kw)
        self.trace.append(e)
        return e

    def serve(self, factory):
        self._factory = factory

    def _accept(self, sess):
        idx = len(self.scripts) + self.refused
        sc = self._factory(idx, sess)
        if sc is None:
            self.refused += 1
            self.ev('tcp', n=idx, result='refused')
            return None
        sc.index = idx
        self.scripts.append(sc)
        self.ev('tcp', n=idx, result='accepted')
        if self.chunk == 'random':
            r = random.Random(self.rng.random())
            mode = r.choice(['any', 'any', 'one', 'small', 'all'])

            def chunker(avail, want, r=r, mode=mode):
                if mode == 'one':
                    return 1
                if mode == 'small':
                    return r.randint(1, min(want, 3))
                if mode == 'all':
                    return want
                return r.randint(1, want)
            sess.chunker = chunker
        elif self.chunk == 'one':
            sess.chunker = lambda avail, want: 1
        elif callable(self.chunk):
            sess.chunker = self.chunk
        orig_close = sc.on_client_close

        def on_close(s, sc=sc, orig=orig_close):
            orig(s)
            self.ev('closed', conn=sc.index)
        sc.on_client_close = on_close
        return sc

    def go(self, scenario):
        with vnet.Installed(self.sched) as inst:
            self.installed = inst
            inst.net.listen(HOST, PORT, self._accept)
            out = self.sched.run(lambda: scenario(self))
        self.outcome = out
        if self.grammar:
            from . import core as _core
            _core.SESSION_LOG.extend(session_frames(self))
        if self.sched.error and 'watchdog' in str(self.sched.error):
            # the real-time watchdog is there to end a hung harness, never to judge the library: executions are bounded
            # by the (deterministic) step budget.  An overloaded host must not turn into a verdict.
            from . import core
            raise core.MachineryError('execution exceeded %.0f s of wall-clock time after %d scheduler steps (host overloaded, '
                                      'or a hang in the harness): no verdict' % (self.sched.wall_timeout, self.sched.steps))
        return out

    # ---- helpers for scenarios
    def settle(self):
        """Block the calling user thread until every live networking thread is idle
        (waiting in select with nothing to read) and nothing is queued."""
        sched = self.sched

        def idle():
            nets = [t for t in sched.threads if t.kind == 'net' and not t.finished]
            if any(not (t.waiting_select and t.stutter >= 1) for t in nets):
                return False
            for sc in self.scripts:
                if sc.session is not None and len(sc.session.s2c) and not sc.session.cli_closed:
                    return False
            q = getattr(self.conn, '_outgoing_packet_queue', None) if self.conn is not None else None
            if q is not None and hasattr(q, 'real_len') and q.real_len() and nets:
                return False
            return True
        sched.yield_point(blocked_on=idle)

    def make_connection(self, **kw):
        from minecraft.networking.connection import Connection

        def on_exit():
            self.exits += 1
            self.ev('exit')

        def on_exc(exc, info):
            self.errors.append(exc)
            self.ev('error', c=type(exc).__name__, msg=str(exc)[:200])
        kw.setdefault('handle_exit', on_exit)
        kw.setdefault('handle_exception', on_exc)
        kw.setdefault('username', 'verif')
        c = Connection(HOST, PORT, **kw)
        self.conn = c
        return c


def session_frames(run):
    """One record per TCP connection of the execution: the client's frames as the independent peer decoded them."""
    out = []
    for sc in run.scripts:
        if not isinstance(sc, TracingScript):
            continue
        frs = []
        for p in sc.parsed:
            fr = p['_frame']
            ok = p['t'] not in ('other', 'undecodable') and 'trailing' not in p
            if p['t'] == 'other' and p.get('_st') == 'play':
                ok = fr['id'] in getattr(sc.prof, 'sb_play_ids', ())      # a serverbound play packet this check does not look into
            frs.append({'st': p.get('_st', '?'), 't': p['t'], 'enc': bool(fr['enc']), 'env': fr['thr'] is not None, 'ok': bool(ok),
                        'nxt': p.get('next', 0) if p['t'] == 'handshake' else 0})
        out.append({'fr': frs, 'derr': len(sc.de.errors), 'v': getattr(sc.prof, 'version', 0)})
    return out


class TracingScript(peer.Script):
    """peer.Script that records what it sends (kind, key) and what the client sent
    (parsed with the profile) into run.trace."""

    def __init__(self, run, prof, steps, start_state='handshake'):
        peer.Script.__init__(self, steps)
        self.run = run
        self.prof = prof
        self.state = start_state
        self.parsed = []
        self._seen = 0

    def on_data(self, sess):
        peer.Script.on_data(self, sess)

    def pump(self):
        # interpret newly decoded client frames before the script reacts to them
        while self._seen < len(self.de.frames):
            fr = self.de.frames[self._seen]
            self._seen += 1
            p = self.prof.parse(self.state, fr)
            p['_frame'] = fr
            p['_st'] = self.state
            self.parsed.append(p)
            if p['t'] == 'handshake':
                self.state = 'login' if p['next'] == 2 else 'status'
            self.run.ev('c2s', conn=getattr(self, 'index', None), f=p)
        peer.Script.pump(self)

    def tagged(self, payload, kind, key):
        """A ('send', ...) step that also logs a srv event."""
        def fn(sc):
            self.run.ev('srv', p=[kind, key], conn=getattr(self, 'index', None))
            return payload
        return ('send', fn)
